"""C13 - reported metadata equals the file's; unrepresentable values rejected.
Monitor: dump of every public getter + chunk iteration (zh `meta`) compared
field by field with the independent reference parse of the same bytes; the
zck_read_header tool's text output compared with the same reference."""
import os
import re
import sys

sys.path.insert(0, os.path.join(os.path.dirname(os.path.abspath(__file__)), "..", "lib"))
import build
import core
import zckref
from zckref import Raw, ci_encode, DIGEST_SIZE

GRID = [0, 1, 127, 128, 16383, 16384, (1 << 31) - 1, 1 << 31, (1 << 32) - 1, 1 << 32, (1 << 32) + 3, (1 << 62), (1 << 63) - 1,
        1 << 63, (1 << 64) - 1]


def ci_over(v, extra):
    """Encoding with `extra` bytes that push the value past 64 bits / 10 bytes."""
    return Raw(ci_encode(v, pad=extra))


def gen_cases(chk):
    r = core.rng(chk.seed, "C13", "hdr")
    n_valid = 900 if chk.quick else 40000
    n_mut = 1500 if chk.quick else 60000
    out = []
    for i in range(n_valid):
        ht = r.randrange(4)
        cht = r.randrange(4)
        flags = r.choice([0, 0, 2, 4, 6])
        if flags & 4 and cht in (0, 3):
            cht = r.choice([1, 2])
        nch = r.choice([1, 1, 2, 3, 5, 17, 64, 400]) if not chk.quick else r.choice([1, 1, 2, 3, 5, 17, 64])
        cds = DIGEST_SIZE[cht]
        big = r.random() < 0.25
        chunks = []
        for k in range(nch):
            if big:
                cl = r.choice(GRID[:13]) if r.random() < 0.5 else r.randrange(0, 1 << 20)
                ln = r.choice(GRID[:13]) if r.random() < 0.5 else r.randrange(0, 1 << 20)
            else:
                cl = r.randrange(0, 5000)
                ln = r.randrange(0, 20000)
            if k == 0 and r.random() < 0.6:
                cl, ln = 0, 0
            if cl == 0 and ln != 0:
                cl = 9  # no stored bytes cannot carry content
            comp = None
            chunks.append((r.randbytes(cds) if cl else bytes(cds), r.randbytes(cds) if flags & 4 else None, cl, ln))
        comp_type = r.choice([0, 2])
        if comp_type == 0:
            chunks = [(d, u, cl, cl) for d, u, cl, ln in chunks]
        opt = None
        if flags & 2:
            opt = [(r.randrange(0, 300), r.randbytes(r.choice([0, 1, 5, 300]))) for _ in range(r.randrange(0, 4))]
        pad = r.random() < 0.15  # non-minimal encodings
        kw = dict(hash_type=ht, flags=flags, comp_type=comp_type, chunk_hash_type=cht, chunks=chunks, opt_elems=opt,
                  detached=r.random() < 0.25, body=b"", data_digest=r.randbytes(DIGEST_SIZE[ht]))
        if r.random() < 0.2:
            # unused bytes between the signature count and the declared end of the header (accepted by the format): every offset
            # reported for the data section must still be measured from the declared end
            kw["header_tail"] = r.randbytes(r.choice([1, 2, 9, 130]))
        if pad:
            kw["flags"] = Raw(ci_encode(flags, pad=r.randrange(1, 4)))
            kw["count"] = Raw(ci_encode(nch, pad=r.randrange(1, 8)))
        out.append({"kind": "valid", "spec": _ser(kw), "i": i})
        if i % 7 == 3:
            out.append({"kind": "valid", "spec": _ser(kw), "i": i, "preceded": 1 + i})
    for i in range(n_mut):
        ht = r.randrange(4)
        cht = r.choice([1, 2])
        nch = r.choice([1, 2, 3, 6])
        cds = DIGEST_SIZE[cht]
        chunks = [(r.randbytes(cds), None, r.randrange(1, 3000), r.randrange(1, 9000)) for _ in range(nch)]
        chunks[0] = (bytes(cds), None, 0, 0)
        kw = dict(hash_type=ht, flags=0, comp_type=2, chunk_hash_type=cht, chunks=chunks, body=b"",
                  data_digest=r.randbytes(DIGEST_SIZE[ht]), detached=r.random() < 0.2)
        m = r.choice(["count", "count", "bigint-field", "overlong", "wrap64", "int31", "int31", "size63", "sum-overflow", "flags", "types",
                      "index_size", "header_size", "sig", "zero-entries", "trailing-index", "opt-size", "opt-rewind", "opt-rewind"])
        desc = m
        if m == "count":
            kw["count"] = r.choice([0, nch - 1, nch + 1, nch + 7, 1 << 33, (1 << 64) - 1])
            desc += ":%d/%d" % (kw["count"], nch)
        elif m == "bigint-field":
            f = r.choice(["flags", "comp_type", "chunk_hash_type", "lead_hash_field", "sig_count", "count"])
            v = r.choice(GRID[6:])
            kw[f] = v
            desc += ":%s=%d" % (f, v)
        elif m == "overlong":
            f = r.choice(["flags", "comp_type", "chunk_hash_type", "count", "sig_count", "index_size", "header_size"])
            base = {"flags": 0, "comp_type": 2, "chunk_hash_type": cht, "count": nch, "sig_count": 0}.get(f)
            if base is None:
                continue
            kw[f] = Raw(ci_encode(base, pad=r.choice([9, 10, 11, 15])))
            desc += ":%s" % f
        elif m == "wrap64":
            # ten bytes whose top bits overflow 64 bits and wrap to a small value
            f = r.choice(["count", "comp_type", "chunk_hash_type", "sig_count", "flags", "lead_hash_field", "lead_hash_field", "header_size", "header_size"])
            if f == "header_size":
                base = zckref.parse(zckref.build(**kw)).header_size    # the value the lead would carry anyway, in ten bytes with overflow bits on top
            else:
                base = {"flags": 0, "comp_type": 2, "chunk_hash_type": cht, "count": nch, "sig_count": 0, "lead_hash_field": ht}[f]
            enc = bytearray(ci_encode(base, pad=10 - len(ci_encode(base))))
            enc[-1] = 0x80 | r.choice([2, 4, 0x40, 0x7e])
            kw[f] = Raw(bytes(enc))
            desc += ":%s" % f
        elif m == "int31":
            f = r.choice(["comp_type", "chunk_hash_type", "lead_hash_field", "sig_count"])
            base = {"comp_type": 2, "chunk_hash_type": cht, "lead_hash_field": ht, "sig_count": 0}[f]
            v = base + r.choice([1 << 32, 1 << 33, 3 << 32, 1 << 40])
            kw[f] = v
            desc += ":%s=%d" % (f, v)
        elif m == "size63":
            k = r.randrange(nch)
            d, u, cl, ln = chunks[k]
            if r.random() < 0.5:
                chunks[k] = (d, u, r.choice([1 << 63, (1 << 63) + 5, (1 << 64) - 1]), ln)
            else:
                chunks[k] = (d, u, cl, r.choice([1 << 63, (1 << 64) - 1]))
            desc += ":chunk%d" % k
        elif m == "sum-overflow":
            chunks[:] = [(r.randbytes(cds), None, (1 << 62) + r.randrange(100), 5) for _ in range(r.choice([2, 3, 4, 5]))]
            chunks[0] = (bytes(cds), None, 0, 0)
            kw["chunks"] = chunks
            desc += ":%d" % len(chunks)
        elif m == "flags":
            kw["flags"] = r.choice([1, 8, 16, 9, 1 << 20, 3, 5])
            desc += ":%d" % kw["flags"]
        elif m == "types":
            f = r.choice(["comp_type", "chunk_hash_type", "lead_hash_field"])
            # (incl. values that equal a known type modulo 2^8 / 2^16)
            kw[f] = r.choice([1, 3, 4, 5, 100, 256, 258, 770, 65536, 65538, 512] if f == "comp_type" else [4, 5, 100, 256 + cht, 257, 65536 + cht, 259])
            desc += ":%s=%d" % (f, kw[f])
        elif m == "index_size":
            real = len(zckref.build(**_min_index(kw)))  # not used, just keeps generator honest
            kw["index_size"] = r.choice([0, 1, 2, 5, 1 << 20, 1 << 31, 1 << 33])
            desc += ":%d" % kw["index_size"]
        elif m == "header_size":
            kw["header_size"] = r.choice([0, 1, 10, 1 << 20, 1 << 33])
            desc += ":%d" % kw["header_size"]
        elif m == "sig":
            kw["sig_count"] = r.choice([1, 2])
            kw["sigs"] = [(0, b"abc")] * kw["sig_count"]
        elif m == "zero-entries":
            kw["chunks"] = []
            kw["count"] = r.choice([0, 1])
        elif m == "trailing-index":
            kw["index_tail"] = r.randbytes(r.choice([1, 3, cds]))
        elif m == "opt-size":
            # an optional element that declares more data than the header holds
            kw["flags"] = 2
            els = [(r.randrange(0, 9), r.randbytes(r.choice([0, 3, 40]))) for _ in range(r.randrange(0, 3))]
            v = r.choice([1 << 20, 1 << 32, 1 << 63, (1 << 63) + 7, (1 << 64) - 1, (1 << 64) - 2, 5000])
            els.insert(r.randrange(len(els) + 1), (7, (v, r.randbytes(r.choice([0, 2, 30])))))
            kw["opt_elems"] = els
            desc += ":%d" % v
        elif m == "opt-rewind":
            # an optional element whose declared size is 2^64 - b: added to the parse position it moves the position BACK by b bytes.
            # An earlier element carries a complete alternative rest-of-header (index size, index, signature count) exactly there, so
            # a parser that lets the position wrap finds a well-formed - and different - chunk table.
            kw["flags"] = 2
            dcds = DIGEST_SIZE[cht]
            dn = r.choice([1, 2, 3])
            didx = zckref.ci_encode(cht) + zckref.ci_encode(dn + 1) + bytes(dcds) + zckref.ci_encode(0) + zckref.ci_encode(0)
            for _ in range(dn):
                didx += r.randbytes(dcds) + zckref.ci_encode(r.randrange(1, 5000)) + zckref.ci_encode(r.randrange(1, 9000))
            decoy = zckref.ci_encode(len(didx)) + didx + zckref.ci_encode(0)
            lead_in = r.randbytes(r.choice([0, 0, 5]))       # the alternative tail need not start the element
            eid = r.choice([2, 200])
            back = len(decoy) + len(zckref.ci_encode(eid)) + 10   # 10: encoded length of any value 2^64 - small
            if r.random() < 0.25:
                back += r.choice([-1, 1, len(lead_in) + 1])      # near misses: land next to the alternative tail
            kw["opt_elems"] = [(1, lead_in + decoy), (eid, ((1 << 64) - back, b""))]
            if r.random() < 0.3:
                kw["opt_elems"].append((3, r.randbytes(4)))
            desc += ":back=%d" % back
        out.append({"kind": "mut", "spec": _ser(kw), "desc": desc, "i": i})
    return out


def _min_index(kw):
    return kw


def _ser(kw):
    """JSON-able description of build() arguments."""
    o = {}
    for k, v in kw.items():
        if isinstance(v, Raw):
            o[k] = {"raw": v.hex()}
        elif isinstance(v, (bytes, bytearray)):
            o[k] = {"hex": bytes(v).hex()}
        elif k == "chunks":
            o[k] = [[c[0].hex(), c[1].hex() if c[1] is not None else None, c[2], c[3]] for c in v]
        elif k in ("opt_elems", "sigs") and v is not None:
            o[k] = [[a, ([b[0], b[1].hex()] if isinstance(b, tuple) else b.hex())] for a, b in v]
        else:
            o[k] = v
    return o


def _deser(o):
    kw = {}
    for k, v in o.items():
        if isinstance(v, dict) and "raw" in v:
            kw[k] = Raw(bytes.fromhex(v["raw"]))
        elif isinstance(v, dict) and "hex" in v:
            kw[k] = bytes.fromhex(v["hex"])
        elif k == "chunks":
            kw[k] = [(bytes.fromhex(c[0]), bytes.fromhex(c[1]) if c[1] is not None else None, c[2], c[3]) for c in v]
        elif k in ("opt_elems", "sigs") and v is not None:
            kw[k] = [(a, ((b[0], bytes.fromhex(b[1])) if isinstance(b, list) else bytes.fromhex(b))) for a, b in v]
        else:
            kw[k] = v
    return kw


SSIZE_MAX = (1 << 63) - 1


def compare(meta, chunks, end, p):
    """library dump vs reference parse -> list of (field, lib, ref)"""
    bad = []

    def chk(name, lib, ref):
        if lib != ref:
            bad.append((name, lib, ref))
    chk("flags", meta["flags"], p.flags)
    chk("full_hash_type", meta["full_hash_type"], p.hash_type)
    chk("full_digest_size", meta["full_digest_size"], DIGEST_SIZE[p.hash_type])
    chk("chunk_hash_type", meta["chunk_hash_type"], p.chunk_hash_type)
    chk("chunk_digest_size", meta["chunk_digest_size"], DIGEST_SIZE[p.chunk_hash_type])
    chk("lead_length", meta["lead_length"], p.lead_len)
    chk("header_length", meta["header_length"], p.header_len)
    chk("data_length", meta["data_length"], p.data_len)
    chk("length", meta["length"], p.total_len)
    chk("header_digest", meta["header_digest"], p.header_digest.hex())
    chk("data_digest", meta["data_digest"], p.data_digest.hex())
    chk("chunk_count", meta["chunk_count"], p.chunk_count)
    chk("iterated", end["iterated"], len(p.chunks))
    chk("count_vs_iterated", meta["chunk_count"], end["iterated"])
    chk("detached", bool(meta["detached"]), p.detached)
    for lc, rc in zip(chunks, p.chunks):
        k = rc["number"]
        if lc["number"] != k:
            bad.append(("chunk%d.number" % k, lc["number"], k))
        if lc["start"] != p.header_len + rc["start"]:
            bad.append(("chunk.start", lc["start"], p.header_len + rc["start"]))
        if lc["comp_size"] != rc["comp_len"]:
            bad.append(("chunk.comp_size", lc["comp_size"], rc["comp_len"]))
        if lc["size"] != rc["len"]:
            bad.append(("chunk.size", lc["size"], rc["len"]))
        if lc["digest"] != rc["digest"].hex():
            bad.append(("chunk.digest", lc["digest"], rc["digest"].hex()))
        if (lc["udigest"] or None) != (rc["udigest"].hex() if rc["udigest"] is not None else None):
            bad.append(("chunk.udigest", lc["udigest"], rc["udigest"].hex() if rc["udigest"] else None))
    return bad


def worker(case):
    cdir = case["dir"]
    keep = False
    kw = _deser(case["spec"])
    data = zckref.build(**kw)
    cid = core.h8([case["spec"], case.get("preceded")])
    stats = {"headers": 1}
    try:
        try:
            p = zckref.parse(data)
            refinv = None
            if p.soft:
                refinv = "soft: " + p.soft[0]
        except zckref.Invalid as e:
            p = None
            refinv = str(e)
        script = "fopen 1 f.zck r input\ncreate 1\ninit_read 1 1\nis_error 1\nmeta 1\n"
        if int(cid, 16) % 4 == 1:
            # writer-side options set on the context before the file is opened for reading (accepted or refused): what is reported afterwards
            # is still what the file says
            if int(cid, 16) % 8 == 1:
                script = script.replace("init_read 1 1\n", "init_adv_read 1 1\niopt 1 4 1\nclear_error 1\niopt 1 1 0\nclear_error 1\nread_lead 1\nread_header 1\n")
            else:
                # ... or after it was opened, before the values are asked for
                script = script.replace("meta 1\n", "iopt 1 4 1\nclear_error 1\niopt 1 1 0\nclear_error 1\nmeta 1\n")
            stats["opens_after_writer_side_options"] = 1
        # lookups by number (zck_get_chunk) after the dump: last, first, descending, a shuffled order, repeats, one past the end
        look = []
        if p is not None and 1 <= len(p.chunks) <= 400:
            n_ = len(p.chunks)
            lr = core.rng(len(data), "C13", "lookups")
            look = [n_ - 1, 0, n_ // 2, 0, n_ - 1] + list(range(min(n_, 12) - 1, -1, -1)) + [lr.randrange(n_) for _ in range(10)] + [n_, n_ - 1, n_ + 5, 0]
            script += "chunkat 1 %s\n" % " ".join(str(x) for x in look)
        fdata_ = data
        if case.get("preceded"):
            # another, different, well-formed image precedes this one in the file; the descriptor is handed over positioned at ours
            front = zckref.make_file([b"front-image-%d" % k * 7 for k in range(3)], comp_type=0, hash_type=case["preceded"] % 4, chunk_hash_type=1)
            fdata_ = front + data
            script = script.replace("fopen 1 f.zck r input", "fopen 1 f.zck r input %d" % len(front))
            stats["images_behind_another_image"] = 1
        rd = core.run_zh(case["zh"], cdir, script, {"f.zck": fdata_}, name="meta")
        if rd.timed_out and not rd.cpu_exceeded:
            return core.verdict(cid, "inconclusive", detail="watchdog", case=case)
        ir = rd.first(op="init_read") or rd.first(op="read_header")
        opened = bool(ir and ir["rc"] == 1)
        viol = None
        cs = core.crash_signatures(rd)
        if cs and opened:
            # a crash in a getter on an opened file: the report is not delivered
            viol = (cs[0], "getter crashed on opened header: %s" % cs)
        elif cs:
            viol = (cs[0], "open crashed: %s" % cs)
        if opened and not viol:
            stats["opened"] = 1
            meta = rd.first(op="meta")
            end = rd.first(op="meta_end")
            chunks = rd.ev(op="chunk")
            if refinv is not None and (p is None):
                viol = ("c13:accepted-invalid:%s" % _cls(refinv), "open succeeded; reference: %s" % refinv)
            elif meta is None or end is None:
                viol = ("c13:no-meta", "meta dump missing")
            else:
                bad = compare(meta, chunks, end, p)
                if not bad and look:
                    got_ = rd.ev(op="chunkat")
                    stats["lookups_by_number"] = len(got_)
                    if len(got_) != len(look):
                        bad = [("lookup.missing-events", len(got_), len(look))]
                    for g_, k_ in zip(got_, look):
                        if k_ >= len(p.chunks):
                            if not g_.get("nochunk"):
                                bad.append(("lookup.beyond-end-returns-chunk", g_.get("number"), None))
                            continue
                        rc_ = p.chunks[k_]
                        if g_.get("nochunk"):
                            bad.append(("lookup.no-chunk", k_, rc_["number"]))
                        elif (g_["number"], g_["start"], g_["comp_size"], g_["size"], g_["digest"]) != (k_, p.header_len + rc_["start"], rc_["comp_len"], rc_["len"], rc_["digest"].hex()):
                            bad.append(("lookup.wrong-chunk", [g_["number"], g_["start"], g_["comp_size"], g_["size"]], [k_, p.header_len + rc_["start"], rc_["comp_len"], rc_["len"]]))
                        if bad:
                            break
                if bad:
                    f = bad[0][0]
                    viol = ("c13:mismatch:%s" % f, "library vs reference: %s" % bad[:4])
                elif refinv is not None:
                    viol = ("c13:accepted-invalid:%s" % _cls(refinv), "open succeeded; reference: %s" % refinv)
                else:
                    # values the ssize_t getters cannot represent must have been rejected
                    big = [c for c in p.chunks if c["comp_len"] > SSIZE_MAX or c["len"] > SSIZE_MAX]
                    if big or p.total_len > SSIZE_MAX:
                        viol = ("c13:unrepresentable-accepted", "sizes beyond ssize_t accepted")
        elif not opened:
            stats["rejected"] = 1
            if refinv is None:
                stats["rejected_although_reference_valid"] = 1
                # C13 speaks about what is reported after a *successful* open; a refused
                # header is outside it (counted for the evidence only)
        # zck_read_header text on a sample
        if case.get("rh") and not viol:
            os.makedirs(cdir, exist_ok=True)
            open(os.path.join(cdir, "h.zck"), "wb").write(data)
            t = core.run_proc([case["rh"], "-c", "h.zck"], cdir)
            ts = core.crash_signatures(t, "zck_read_header")
            stats["tool_runs"] = 1
            if ts:
                viol = (ts[0], "zck_read_header crashed: %s" % ts)
            elif t.rc == 0 and p is not None and not p.soft:
                v2 = compare_tool(t.stdout.decode(errors="replace"), p)
                if v2:
                    viol = ("c13:tool-mismatch:%s" % v2[0][0], "zck_read_header vs reference: %s" % v2[:3])
            elif t.rc == 0 and (p is None or p.soft):
                viol = ("c13:tool-accepted-invalid:%s" % _cls(refinv), "zck_read_header exit 0; reference: %s" % refinv)
        if viol:
            keep = True
            return core.verdict(cid, "violated", [viol[0]], stats, detail=viol[1] + " case=%s" % case.get("desc", case["kind"]), cdir=cdir, case=case)
        return core.verdict(cid, "held", stats=stats, nontrivial=opened or case["kind"] == "mut",
                            sample={"kind": case["kind"], "desc": case.get("desc"), "opened": opened, "reference": refinv or "valid",
                                    "chunks": len(p.chunks) if p else None, "bytes": len(data)})
    finally:
        core.cleanup_case(cdir, keep)


def _too_big(p):
    if p is None:
        return False
    return p.total_len > SSIZE_MAX or any(c["comp_len"] > SSIZE_MAX or c["len"] > SSIZE_MAX for c in p.chunks) or p.header_len > (1 << 30)


def _cls(reason):
    reason = re.sub(r"\d+", "N", reason)
    return reason.split("(")[0].strip().replace(" ", "-")[:48]


def compare_tool(text, p):
    bad = []

    def grab(rx):
        m = re.search(rx, text, re.M)
        return m.group(1) if m else None
    def chk(name, got, want):
        if got is not None and str(got) != str(want):
            bad.append((name, got, want))
    chk("header_size", grab(r"^Header size: (\d+)"), p.header_len)
    chk("header_checksum", grab(r"^Header checksum: ([0-9a-f]+)"), p.header_digest.hex())
    chk("data_size", grab(r"^Data size: (\d+)"), p.data_len)
    chk("data_checksum", grab(r"^Data checksum: ([0-9a-f]+)"), p.data_digest.hex())
    chk("chunk_count", grab(r"^(?:Chunk|Index) count: (\d+)"), p.chunk_count)
    rows = re.findall(r"^\s*(\d+) ([0-9a-f]+) (?:([0-9a-f]+) )?\s*(\d+)\s+(\d+)\s+(\d+)\s*$", text, re.M)
    for row, rc in zip(rows, p.chunks):
        num, dg, ud, start, cs, sz = row
        if int(num) != rc["number"] or dg != rc["digest"].hex() or int(start) != p.header_len + rc["start"] or int(cs) != rc["comp_len"] or int(sz) != rc["len"]:
            bad.append(("chunk-row", row, (rc["number"], rc["digest"].hex(), p.header_len + rc["start"], rc["comp_len"], rc["len"])))
            break
    if rows and len(rows) != len(p.chunks):
        bad.append(("rows", len(rows), len(p.chunks)))
    return bad


class C13(core.Check):
    prop = "C13"
    flavours = ["asan"]
    rule = ("headers emitted by the reference writer: all 4x4 checksum types, flags 0/2/4/6 with 0-3 optional elements, 1-400 chunks, sizes from "
            "the boundary grid, non-minimal encodings, detached variants; plus re-sealed field mutations (count mismatch, over-long and "
            "wrapping 10-byte integers, int fields >= 2^31/2^32+k, sizes >= 2^63, sums overflowing, unknown flags/types, index/header size lies, "
            "signatures, trailing index bytes). non-trivial = header that opened (values compared) or a mutation (must be rejected or equal)")
    assumptions = ["reference parser lib/zckref.py derived from zchunk_format.txt"]
    worker = staticmethod(worker)

    def prepare(self, fl):
        a = fl["asan"]
        return {"zh": build.zh(a), "rh": a.tool("zck_read_header")}

    def cases(self, ctx):
        r = core.rng(self.seed, "C13", "tool")
        cs = gen_cases(self)
        for c in cs:
            c["zh"] = ctx["zh"]
            c["rh"] = ctx["rh"] if r.random() < 0.12 else None
        return cs
