"""C05 - range reassembly is fragmentation-independent, verified and confined.
Monitor: the harness's `sweep` op replays the SAME well-formed response
(single range or multipart/byteranges built by the harness's own server code
from file B for exactly the library's range string) under every 1-cut and
2-cut fragmentation (exhaustive for small responses), fixed fragment sizes
down to one byte, and random k-cut partitions; each run restores the target
image, establishes validity through the public API, feeds the callbacks and
records (callbacks ok, valid flags, FNV-1a of the target image, writes outside
the missing chunks' extents seen by the write(2) interposer).  Offline: exactly
one distinct outcome may exist and it must equal the model computed in Python
from the reference parse (requested chunks hold B's bytes and are valid;
corrupted chunk zero-filled, failed, error reported; everything else
untouched)."""
import os
import re
import sys

sys.path.insert(0, os.path.join(os.path.dirname(os.path.abspath(__file__)), "..", "lib"))
import build
import core
import zckref

RFC_EXTRA = "'()+_,-./:=?"
TOKEN_SAFE = set("abcdefghijklmnopqrstuvwxyzABCDEFGHIJKLMNOPQRSTUVWXYZ0123456789'+_-.")


def fnv64(b):
    h = 1469598103934665603
    for x in b:
        h ^= x
        h = (h * 1099511628211) & 0xFFFFFFFFFFFFFFFF
    return h


def make_boundary(r, kind):
    alnum = "abcdefghijklmnopqrstuvwxyzABCDEFGHIJKLMNOPQRSTUVWXYZ0123456789"
    if kind == "plain":
        return "".join(r.choice(alnum) for _ in range(r.choice([1, 8, 24, 70])))
    if kind == "hex":
        return "".join(r.choice("0123456789abcdef") for _ in range(16))
    if kind == "rfc":
        n = r.choice([3, 12, 40, 70])
        s = "".join(r.choice(alnum + RFC_EXTRA) for _ in range(n))
        # at least one of the characters that are special in a regular expression
        k = r.randrange(n)
        s = s[:k] + r.choice("+().?") + s[k + 1:]
        if n >= 12 and r.random() < 0.4:
            # RFC 2046 allows blanks inside a boundary (not at its end); '~' is the script's spelling of a blank
            j = r.randrange(1, n - 1)
            s = s[:j] + "~" + s[j + 1:]
        return s
    if kind == "dashes":
        return "--" + "".join(r.choice(alnum) for _ in range(6)) + "--"
    raise ValueError(kind)


def regions_of(body, boundary):
    """Classify every cut position of a multipart body (for the evidence)."""
    reg = {}
    b = body
    delim = b"--" + boundary.replace("~", " ").encode()
    pos = 0
    out = ["payload"] * len(b)
    for m in re.finditer(re.escape(delim), b):
        for k in range(m.start(), m.end()):
            out[k] = "boundary-line"
    for m in re.finditer(rb"(?i)content-range: bytes [0-9]+-[0-9]+/[0-9]+", b):
        for k in range(m.start(), m.end()):
            out[k] = "content-range"
    for m in re.finditer(rb"\r\n\r\n", b):
        for k in range(m.start(), m.end()):
            out[k] = "crlfcrlf"
    for k in out:
        reg[k] = reg.get(k, 0) + 1
    return reg


def retry_worker(case):
    """One zckDL sees a transfer that dies in the middle (after N body bytes), then zck_dl_reset + a new range + a complete,
    well-formed response: the retry must fill everything that is still missing."""
    cdir = case["dir"]
    keep = False
    B = core.unb64(case["B"])
    T0 = core.unb64(case["T0"])
    cid = core.h8([case["name"], "retry", case["M"], case["limit"], case["style"], case["boundary"], case["upto"], case["frag"], case.get("chain", 0)])
    stats = {"evaluations": 1, "interrupted_then_retried": 1, "runs_with_application_callbacks_chained": 1 if case.get("chain") else 0}
    try:
        p = zckref.parse(B)
        ext = lambda c: (p.header_len + c["start"], p.header_len + c["start"] + c["comp_len"] - 1)
        missing = [c for c in p.chunks if c["number"] in case["M"] and c["comp_len"] > 0]
        allowed = ",".join("%d-%d" % ext(c) for c in missing) or "0-0"
        L = (["chain 1"] if case.get("chain") else []) + ["fopen 1 t.zck rw target", "create 1", "init_read 1 1", "fv 1", "reset_failed 1", "flags 1", "dl_init 0 1",
             "range 2 1 %d" % case["limit"], "dl_set_range 0 2", "watch target %s" % allowed,
             "serve 0 2 B.zck %d %s %s upto:%d" % (case["style"], case["frag"], case["boundary"], case["upto"]), "flags 1",
             "clear_error 1", "dl_reset 0", "range 3 1 -1", "dl_set_range 0 3",
             "serve 0 3 B.zck %d %s %sX" % (case["style"], case["frag"], case["boundary"]), "watchstat", "watch - -", "flags 1"]
        rd = core.run_zh(case["zh"], cdir, "\n".join(L) + "\n", {"t.zck": T0, "B.zck": B}, name="retry")
        if rd.timed_out and not rd.cpu_exceeded:
            return core.verdict(cid, "inconclusive", detail="watchdog", case=case)
        cs = core.crash_signatures(rd)
        viol = None
        if cs:
            viol = (cs[0], "crash in %s: %s" % (rd.open_call, cs))
        else:
            sv = rd.ev(op="serve")
            fl = [e["valid"] for e in rd.events if e.get("op") == "flags"]
            ws = rd.first(op="watchstat")
            if len(sv) < 2 or len(fl) < 3 or not ws:
                return core.verdict(cid, "inconclusive", detail="script did not complete: %s" % rd.harness_error, case=case)
            stats["first_transfer_cut_at"] = [case["upto"]]
            mid = sv[0].get("delivered", 0) < sv[0].get("resp_len", 0)
            stats["cut_mid_response"] = 1 if mid else 0
            disk = open(os.path.join(cdir, "t.zck"), "rb").read()
            kind = ("multipart" if sv[1]["nranges"] > 1 or case["style"] & 32 else "single") + (":chained" if case.get("chain") else "")
            if ws["oob"]:
                viol = ("c05:retry:write-outside-missing-extents:%s" % kind, "%s" % rd.first(ev="oob_write"))
            elif sv[1]["rc"] != 1:
                viol = ("c05:retry:wellformed-retry-rejected:%s" % kind, "retry after a transfer cut at body byte %d: callbacks reported an error; flags %s" % (case["upto"], fl[-1]))
            elif any(f != 1 for f in fl[-1]):
                viol = ("c05:retry:chunks-not-filled:%s" % kind, "after the retry flags are %s" % fl[-1])
            elif disk[:len(B)] != B:
                d = next(i for i in range(len(B)) if i >= len(disk) or disk[i] != B[i])
                viol = ("c05:retry:image-differs:%s" % kind, "target differs from B at offset %d" % d)
        if viol:
            keep = True
            return core.verdict(cid, "violated", [viol[0]], stats, detail=viol[1] + " base=%s upto=%d frag=%s style=%d" % (case["name"], case["upto"], case["frag"], case["style"]), cdir=cdir, case=case)
        return core.verdict(cid, "held", stats=stats, nontrivial=[cid], sample={"base": case["name"], "missing": case["M"], "first_transfer_cut_after_body_bytes": case["upto"],
                                                                               "frag": case["frag"], "style": case["style"]})
    finally:
        core.cleanup_case(cdir, keep)


def worker(case):
    if case.get("retry"):
        return retry_worker(case)
    cdir = case["dir"]
    keep = False
    B = core.unb64(case["B"])
    T0 = core.unb64(case["T0"])
    cid = core.h8([case["name"], case["M"], case["limit"], case["style"], case["boundary"], case["mode"], case["corrupt"], case.get("chain", 0)])
    stats = {"evaluations": 0}
    try:
        p = zckref.parse(B)
        ext = lambda c: (p.header_len + c["start"], p.header_len + c["start"] + c["comp_len"] - 1)
        missing = [c for c in p.chunks if c["number"] in case["M"] and c["comp_len"] > 0]
        allowed = ",".join("%d-%d" % ext(c) for c in missing) or "0-0"
        script = ("chain 1\n" if case.get("chain") else "") + "sweep t0.bin B.zck %d %d %s %s %s %d\n" % (case["limit"], case["style"], case["boundary"], case["mode"], allowed, case["corrupt"])
        rd = core.run_zh(case["zh"], cdir, script, {"t0.bin": T0, "B.zck": B}, cpu=300, name="sw")
        if rd.timed_out and not rd.cpu_exceeded:
            return core.verdict(cid, "inconclusive", detail="watchdog", case=case)
        cs = core.crash_signatures(rd)
        tag = "%s:%s" % ("multipart" if (case["style"] & 32 or True) else "", case["bkind"])
        if cs:
            keep = True
            return core.verdict(cid, "violated", [cs[0]], stats, detail="crash during sweep: %s boundary=%r style=%d" % (cs, case["boundary"], case["style"]), cdir=cdir, case=case)
        sw = rd.first(op="sweep")
        req = rd.first(ev="request")
        if sw and sw.get("rc") == 1 and sw.get("iterations") == 0:
            return core.verdict(cid, "held", stats={"evaluations": 0, "empty_slices": 1})
        if not sw or sw.get("rc") != 1 or not req:
            return core.verdict(cid, "inconclusive", detail="sweep did not run: %s %s" % (sw, rd.harness_error), case=case)
        # --- which chunks does the request cover (must tile whole missing chunks, in order)
        ranges = [tuple(int(x) for x in pc.split("-")) for pc in req["ranges"].split(",")] if req["ranges"] else []
        covered = []
        mi = 0
        okreq = True
        for a, b in ranges:
            pos = a
            while pos <= b and okreq:
                if mi >= len(missing) or ext(missing[mi])[0] != pos:
                    okreq = False
                    break
                covered.append(missing[mi])
                pos = ext(missing[mi])[1] + 1
                mi += 1
            if pos != b + 1:
                okreq = False
        multipart = len(ranges) > 1 or bool(case["style"] & 32)
        kind = ("multipart" if multipart else "single") + (":chained" if case.get("chain") else "")
        if not okreq or not covered:
            return core.verdict(cid, "inconclusive", detail="request %r is not a prefix tiling of the missing chunks (C10's business)" % req["ranges"], case=case)
        # --- model
        img = bytearray(T0)
        flags = [0 if c["number"] in case["M"] and c["comp_len"] > 0 else 1 for c in p.chunks]
        exp_ok = 1
        bad = None
        if case["corrupt"] >= 0:
            for c in covered:
                a, b = ext(c)
                if a <= case["corrupt"] <= b:
                    bad = c
        for c in covered:
            a, b = ext(c)
            if len(img) < b + 1:
                img += bytes(b + 1 - len(img))
            if bad is not None and c is bad:
                img[a:b + 1] = bytes(b + 1 - a)
                flags[c["number"]] = -1
                exp_ok = 0
                break
            img[a:b + 1] = B[a:b + 1]
            flags[c["number"]] = 1
        want = {"ok": exp_ok, "img": "%016x" % fnv64(bytes(img)), "flags": flags, "oob": 0}
        outs = rd.ev(ev="outcome")
        stats["evaluations"] = sw["iterations"]
        stats["fragmentations_" + case["mode"].split(":")[0]] = sw["iterations"]
        stats["responses"] = 1
        if case.get("chain"):
            stats["runs_with_application_callbacks_chained"] = sw["iterations"]
            stats["application_callback_invocations"] = sw.get("chain_calls", 0)
            if sw.get("chain") != 1 or not sw.get("chain_calls"):
                return core.verdict(cid, "inconclusive", detail="chained callbacks were requested but never invoked: %s" % sw, case=case)
        stats["response_kinds"] = [kind + ":" + case["bkind"] + (":corrupt" if bad is not None else "")]
        body = rd.first(ev="response_body")
        if body and multipart:
            for k, n in regions_of(bytes.fromhex(body["hex"]), case["boundary"]).items():
                stats["cut_positions_in_" + k] = n
        viol = None
        for o in outs:
            got = {"ok": o["ok"], "img": o["img"], "flags": o["flags"], "oob": o["oob"]}
            if got != want:
                if o["oob"]:
                    what = "write-outside-missing-extents"
                elif o["flags"] != want["flags"]:
                    d = [k for k in range(len(flags)) if k < len(o["flags"]) and o["flags"][k] != flags[k]]
                    what = "flags" + (":bad-chunk-not-failed" if bad is not None and d and d[0] == bad["number"] else "")
                elif o["ok"] != want["ok"]:
                    what = "callback-result:%s" % ("error-on-wellformed" if want["ok"] else "success-on-corrupt-chunk")
                else:
                    what = "image"
                viol = ("c05:%s:%s:%s%s" % (what, kind, case["bkind"], ":corrupt" if bad is not None else ""),
                        "outcome %s (x%d, first fragmentation %s) differs from model %s; request=%s boundary=%r style=%d limit=%d distinct_outcomes=%d" %
                        (got, o["count"], o["first"], want, req["ranges"][:80], case["boundary"], case["style"], case["limit"], len(outs)))
                break
        if not viol and len(outs) != 1:
            viol = ("c05:fragmentation-dependent:%s" % kind, "%d distinct outcomes" % len(outs))
        if viol:
            keep = True
            return core.verdict(cid, "violated", [viol[0]], stats, detail=viol[1] + " base=%s" % case["name"], cdir=cdir, case=case)
        return core.verdict(cid, "held", stats=stats, nontrivial=[cid] if sw["iterations"] > 1 else False,
                            sample={"base": case["name"], "missing": case["M"], "limit": case["limit"], "style": case["style"], "boundary": case["boundary"],
                                    "mode": case["mode"], "request": req["ranges"][:100], "response_len": sw["resp_len"], "fragmentations": sw["iterations"],
                                    "corrupt_offset": case["corrupt"], "outcome": want})
    finally:
        core.cleanup_case(cdir, keep)


class C05(core.Check):
    prop = "C05"
    flavours = ["asan"]
    rule = ("(file B, missing set M, range limit, response style {single range | multipart with boundary from the RFC 2046 alphabet incl. '()+_,-./:=?, "
            "quoted/unquoted, header-name case, extra part headers, with/without preamble CRLF}, optional corruption of one payload byte) x fragmentations: "
            "ALL 1-cut and ALL 2-cut partitions of small responses (exhaustive), fragment sizes {all,1,2,3,5,7,64,1000,16384}, random k-cut partitions of larger "
            "responses. evaluations = callback runs; distinct = (B, M, limit, style, boundary, mode, corruption)")
    assumptions = ["response built by the harness from B for the library's own range string", "validity vector established through zck_find_valid_chunks",
                   "image compared by 64-bit FNV-1a against the Python model"]
    worker = staticmethod(worker)

    def prepare(self, fl):
        return {"zh": build.zh(fl["asan"])}

    def cases(self, ctx):
        r = core.rng(self.seed, "C05", "gen")
        out = []
        q = self.quick

        def base(nch, lo, hi, dict_size=0, comp=0):
            pieces = [r.randbytes(r.randrange(lo, hi)) for _ in range(nch)]
            if nch >= 3 and r.random() < 0.5:
                pieces[r.randrange(1, nch - 1)] = r.randbytes(1)   # a one-byte chunk between neighbours (Content-Range: bytes N-N/T)
            if nch >= 3 and r.random() < 0.35:
                # byte-identical chunks (same checksum, two places in the index): each copy is a chunk of its own to fill and verify
                for _ in range(r.choice([1, 2])):
                    i_, j_ = r.sample(range(nch), 2)
                    pieces[j_] = pieces[i_]
            return zckref.make_file(pieces, comp_type=comp, dict_bytes=r.randbytes(dict_size) if dict_size else b"", chunk_hash_type=r.randrange(4))

        def t0_for(B, p, M, truncate=False):
            d = bytearray(B)
            last_ok = p.header_len
            for c in p.chunks:
                a = p.header_len + c["start"]
                e = a + c["comp_len"]
                if c["number"] in M:
                    junk = bytearray(r.randbytes(e - a))
                    for k in range(len(junk)):
                        if junk[k] == B[a + k]:
                            junk[k] ^= 0xFF
                    d[a:e] = junk
                else:
                    last_ok = e
            return bytes(d[:last_ok]) if truncate else bytes(d)

        def add(name, B, M, limit, style, bkind, mode, corrupt=-1, truncate=False, chain=0):
            p = zckref.parse(B)
            M = sorted(M)
            bd = make_boundary(r, bkind)
            if any(ch not in TOKEN_SAFE for ch in bd):
                style |= 1  # must be quoted in the header line
            # the header block as other servers / transports deliver it: HTTP/2 status line, an earlier redirect or proxy header block first
            if r.random() < 0.3:
                style |= r.choice([128, 256, 512, 128 | 256, 256 | 512, 1024, 1024 | 128])
            out.append({"name": name, "B": core.b64(B), "T0": core.b64(t0_for(B, p, set(M), truncate)), "M": M, "limit": limit, "style": style,
                        "boundary": bd, "bkind": bkind, "mode": mode, "corrupt": corrupt, "chain": chain, "zh": ctx["zh"]})

        # --- exhaustive 2-cut on small responses (split by first cut over several processes)
        nsmall = 6 if q else 40
        for i in range(nsmall):
            B = base(r.randrange(3, 6), 2, 14, dict_size=r.choice([0, 5]))
            p = zckref.parse(B)
            cand = [c["number"] for c in p.chunks if c["comp_len"] > 0]
            M = set(r.sample(cand, r.randrange(1, min(4, len(cand)) + 1)))
            # (header-name spellings and part-header layouts in a fixed rotation, most of them as multipart: none depends on the random stream)
            style = [2 | 32, 1024 | 32, 4 | 32, 0, 8 | 32, 16 | 32, 6 | 32, 9, 1024, 36, 2, 1][i % 12]
            r.choice([0, 1])
            bk = r.choice(["plain", "hex", "rfc", "dashes"]) if i % 3 else "rfc"
            limit = r.choice([-1, 1, 2, 3])
            step = 40
            ch = 1 if i % 3 == 2 else 0   # the application's own callbacks hung behind the library's (zck_dl_set_write_cb / _header_cb)
            # response length unknown before running: generous upper bound, empty slices end immediately
            for lo in range(1, 420, step):
                add("s%d" % i, B, M, limit, style, bk, "cuts2:%d:%d" % (lo, lo + step), chain=ch)
            add("s%d" % i, B, M, limit, style, bk, "cuts1", chain=ch)
            add("s%d" % i, B, M, limit, style, bk, "list", chain=ch)
            # corruption of first / middle / last byte of one requested chunk, 1-cut exhaustive + list
            ck = p.chunks[sorted(M)[0]]
            a = p.header_len + ck["start"]
            for off in sorted(set([a, a + ck["comp_len"] // 2, a + ck["comp_len"] - 1])):
                add("s%d" % i, B, M, limit, style, bk, "cuts1", corrupt=off, chain=ch)
                add("s%d" % i, B, M, limit, style, bk, "list", corrupt=off, chain=1 - ch)
        self.exhaustive = True
        # --- all subsets M for one small file, list + 1-cut
        B = base(5 if q else 6, 3, 12)
        p = zckref.parse(B)
        ids = [c["number"] for c in p.chunks if c["comp_len"] > 0]
        for mask in range(1, 1 << len(ids)):
            M = {ids[k] for k in range(len(ids)) if mask >> k & 1}
            add("subsets", B, M, r.choice([-1, 1, 2, 7]), r.choice([0, 1, 4, 32]), r.choice(["plain", "rfc"]), "cuts1" if mask % 4 == 0 else "list", chain=(mask >> 1) & 1)
            # one payload byte of ANY requested chunk corrupted (not only the first): whole body in one callback, fixed sizes, every 1-cut
            ck = p.chunks[r.choice(sorted(M))]
            off = p.header_len + ck["start"] + r.randrange(ck["comp_len"])
            add("subsets", B, M, r.choice([-1, -1, 1, 2]), r.choice([0, 0, 1, 4, 32]), r.choice(["plain", "rfc"]), "list" if mask % 3 else "cuts1", corrupt=off, chain=mask & 1)
        # --- a transfer that dies mid-way, then zck_dl_reset and a complete retry on the same zckDL
        for i in range(40 if q else 600):
            n = r.choice([4, 8, 20])
            B = base(n, 5, r.choice([60, 900]), dict_size=r.choice([0, 30]))
            p = zckref.parse(B)
            ids = [c["number"] for c in p.chunks if c["comp_len"] > 0]
            M = sorted({k for k in ids if r.random() < 0.7} or {ids[-1]})
            bd = make_boundary(r, r.choice(["plain", "hex", "rfc"]))
            style = r.choice([0, 1, 4, 32, 36, 96, 100]) | r.choice([0, 0, 128, 256, 512])
            if any(ch not in TOKEN_SAFE for ch in bd):
                style |= 1
            for upto in r.sample([1, 3, 17, 60, 150, 333, 700, 1500, 4000], 3):
                out.append({"retry": True, "name": "retry%d" % i, "B": core.b64(B), "T0": core.b64(t0_for(B, p, set(M))), "M": M, "limit": r.choice([-1, 1, 2, 3]),
                            "style": style, "boundary": bd, "upto": upto, "chain": i % 2,
                            # (a 33 KB header field in 1-byte callbacks is quadratic re-scanning, not a hang - Corrections 3: keep those coarse)
                            "frag": r.choice(["all", "n:1000", "n:16384"]) if style & 64 else r.choice(["all", "n:1", "n:7", "n:1000"]), "zh": ctx["zh"]})
        # --- larger files: random partitions, truncated targets, many ranges
        for i in range(8 if q else 120):
            n = r.choice([8, 30, 120])
            B = base(n, 1, r.choice([50, 900, 20000]), dict_size=r.choice([0, 100]))
            p = zckref.parse(B)
            ids = [c["number"] for c in p.chunks if c["comp_len"] > 0]
            pr = r.choice([0.2, 0.5, 0.9])
            M = {k for k in ids if r.random() < pr} or {ids[-1]}
            corrupt = -1
            if i % 4 == 3:
                ck = p.chunks[min(M)]
                corrupt = p.header_len + ck["start"] + r.randrange(ck["comp_len"])
            add("L%d" % i, B, M, r.choice([-1, 1, 2, 3, 7, 127, 255]), r.choice([0, 1, 2, 4, 8, 16, 7, 32] + ([64, 96, 68, 64] if n == 8 else [])), r.choice(["plain", "hex", "rfc", "dashes"]),
                "rand:%d:%d" % (40 if q else 300, r.randrange(1 << 30)), corrupt=corrupt, truncate=(i % 3 == 0), chain=(i >> 1) & 1)
            add("L%d" % i, B, M, r.choice([-1, 2, 255]), r.choice([0, 1, 4]), r.choice(["plain", "rfc"]), "list", truncate=(i % 3 == 0), chain=i & 1)
        return out
