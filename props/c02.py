"""C02 - no silent corruption: success of open + read-to-end + close implies the
bytes equal what the independent reference decoder obtains.  Offline oracle
over the reader's event log, one process per mutated file."""
import os
import sys

sys.path.insert(0, os.path.join(os.path.dirname(os.path.abspath(__file__)), "..", "lib"))
import basefiles
import build
import core
import gen
import zckref

BIG = [0, 1, 127, 128, (1 << 31) - 1, 1 << 31, 1 << 32, (1 << 63) - 1, 1 << 63, (1 << 64) - 1]


def raw_mutants(r, base, quick):
    d = base["data"]
    n = len(d)
    out = []
    try:
        p = zckref.parse(d)
        regions = {"lead": (0, p.lead_len), "preface+index": (p.lead_len, p.header_len), "body": (p.header_len, n)}
    except zckref.Invalid:
        regions = {"all": (0, n)}
    exhaustive = (not quick) and n <= 600
    if exhaustive:
        for pos in range(n):
            for bit in range(8):
                out.append(("bitflip", [pos, bit], _flip(d, pos, bit)))
    else:
        for name, (a, b) in regions.items():
            if b <= a:
                continue
            for _ in range(14 if quick else 120):
                pos = r.randrange(a, b)
                bit = r.randrange(8)
                out.append(("bitflip:" + name, [pos, bit], _flip(d, pos, bit)))
    for _ in range(10 if quick else 60):
        pos = r.randrange(n)
        out.append(("subst", [pos], d[:pos] + bytes([r.randrange(256)]) + d[pos + 1:]))
    for _ in range(5 if quick else 30):
        pos = r.randrange(n + 1)
        out.append(("insert", [pos], d[:pos] + r.randbytes(r.choice([1, 1, 2, 16])) + d[pos:]))
        pos = r.randrange(n)
        k = r.choice([1, 1, 2, 16])
        out.append(("delete", [pos, k], d[:pos] + d[pos + k:]))
    lens = range(n) if (not quick) else sorted(set([0, 1, 4, 5, 6] + [r.randrange(n) for _ in range(18)] + [n - 1, n - 2]))
    if quick and "body" in regions:
        # ... and always the structural places: end of the header, and exactly at / one byte either side of every chunk boundary
        seams = [p.header_len + c["start"] for c in p.chunks] + [p.header_len, p.lead_len]
        lens = sorted(set(list(lens) + [x + d_ for x in seams for d_ in (-1, 0, 1) if 0 <= x + d_ < n]))
    for L in lens:
        if 0 <= L < n:
            out.append(("truncate", [L], d[:L]))
    if "body" in regions:
        a, b = regions["body"]
        if b - a > 8:
            for _ in range(3 if quick else 12):
                x, y = sorted(r.sample(range(a, b), 2))
                k = r.randrange(1, max(2, min(64, y - x)))
                m = bytearray(d)
                m[x:x + k], m[y:y + k] = d[y:y + k], d[x:x + k]
                out.append(("swap-regions", [x, y, k], bytes(m[:n])))
            x = r.randrange(a, b)
            out.append(("dup-region", [x], d[:x] + d[x:x + 32] + d[x:]))
    out.append(("unaltered", [], d))   # the quantifier is "every byte sequence presented as a file": the valid ones too (success => the reference's content)
    out.append(("tail-garbage", [16], d + r.randbytes(16)))
    out.append(("tail-zeros", [1000], d + bytes(1000)))
    return out


def _flip(d, pos, bit):
    return d[:pos] + bytes([d[pos] ^ (1 << bit)]) + d[pos + 1:]


def struct_mutants(r, base, quick):
    d = base["data"]
    try:
        p = zckref.parse(d)
    except zckref.Invalid:
        return []
    out = []
    ch = [(c["digest"], c["udigest"], c["comp_len"], c["len"]) for c in p.chunks]
    n = len(ch)

    def add(name, desc, **ov):
        try:
            out.append(("reseal:" + name, desc, basefiles.rebuild(p, d, **ov)))
        except Exception as e:  # never let a generator bug pass silently
            raise RuntimeError("struct mutant %s failed: %s" % (name, e))

    idxs = list(range(n)) if not quick else sorted(set([0, 1, n - 1, r.randrange(n)]))
    for i in idxs:
        dg, ud, cl, ln = ch[i]
        for v in [ln + 1, ln - 1, ln * 2, 0, 1 << 31, 1 << 63, ln + 100]:
            if v >= 0 and v != ln:
                c2 = list(ch)
                c2[i] = (dg, ud, cl, v)
                add("uncomp-size", [i, v], chunks=c2)
        for v in [cl + 1, cl - 1, cl * 2, 0, 1 << 31, 1 << 63]:
            if v >= 0 and v != cl:
                c2 = list(ch)
                c2[i] = (dg, ud, v, ln)
                add("stored-size", [i, v], chunks=c2)
        c2 = list(ch)
        c2[i] = (bytes([dg[0] ^ 1]) + dg[1:], ud, cl, ln)
        add("digest-bit", [i], chunks=c2)
    if n >= 3:
        c2 = list(ch)
        c2[1], c2[2] = (ch[2][0], ch[2][1], ch[1][2], ch[1][3]), (ch[1][0], ch[1][1], ch[2][2], ch[2][3])
        add("swap-digests", [1, 2], chunks=c2)
        c2 = list(ch)
        c2[1], c2[2] = ch[2], ch[1]
        add("swap-entries", [1, 2], chunks=c2)
        # move chunk bodies consistently with the index -> a different but valid file
        body = d[p.header_len:]
        s1, s2 = p.chunks[1], p.chunks[2]
        nb = body[:s1["start"]] + body[s2["start"]:s2["start"] + s2["comp_len"]] + body[s1["start"]:s1["start"] + s1["comp_len"]] + body[s2["start"] + s2["comp_len"]:]
        add("swap-chunks-consistent", [1, 2], chunks=c2, body=nb, data_digest=None if not p.has_uncomp else p.data_digest)
        # ... and the same with the whole-data checksum left as it was: every chunk verifies, only the data checksum tells
        add("swap-chunks+stale-data-digest", [1, 2], chunks=c2, body=nb, data_digest=p.data_digest)
        add("drop-entry", [n - 1], chunks=ch[:-1])
        add("dup-entry", [1], chunks=ch + [ch[1]])
    add("data-digest-bit", [], data_digest=bytes([p.data_digest[0] ^ 0x80]) + p.data_digest[1:])
    add("comp-type-switch", [], comp_type=2 if p.comp_type == 0 else 0)
    add("comp-type-1", [], comp_type=1)
    for f in (p.flags ^ 4, p.flags ^ 2, p.flags | 8, p.flags | 1):
        add("flags", [f], flags=f, opt_elems=(p.opt if (f & 2) else None))
    for t in range(4):
        if t != p.chunk_hash_type:
            add("chunk-hash-type", [t], chunk_hash_type=t)
    for cnt in (0, n - 1, n + 1, 1 << 40):
        if cnt >= 0:
            add("count", [cnt], count=cnt)
    # dictionary altered with and without digest update
    if p.chunks[0]["comp_len"] > 0:
        body = bytearray(d[p.header_len:])
        body[0] ^= 1
        add("dict-body-bit", [], body=bytes(body), data_digest=None if not p.has_uncomp else p.data_digest)
        try:
            c2 = list(ch)
            c2[0] = (zckref.H(p.chunk_hash_type, bytes(body[:ch[0][2]])), ch[0][1], ch[0][2], ch[0][3])
            add("dict-body-bit+digest", [], body=bytes(body), chunks=c2, data_digest=None if not p.has_uncomp else p.data_digest)
        except zckref.Invalid:
            pass
    # a chunk body altered together with its digest and the data digest (self-consistent different file)
    if n >= 2 and ch[1][2] > 4:
        body = bytearray(d[p.header_len:])
        off = p.chunks[1]["start"] + ch[1][2] // 2
        body[off] ^= 0x10
        c2 = list(ch)
        c2[1] = (zckref.H(p.chunk_hash_type, bytes(body[p.chunks[1]["start"]:p.chunks[1]["start"] + ch[1][2]])), ch[1][1], ch[1][2], ch[1][3])
        add("chunk-body+digests", [1], body=bytes(body), chunks=c2, data_digest=None if not p.has_uncomp else p.data_digest)
    # a chunk body altered and the DATA digest recomputed, the chunk's own digest left stale: only the per-chunk verification can tell
    for i in sorted(set([1, n - 1, r.randrange(1, n)])) if n >= 2 else []:
        if ch[i][2] > 2 and not p.has_uncomp:
            body = bytearray(d[p.header_len:])
            off = p.chunks[i]["start"] + r.randrange(ch[i][2])
            body[off] ^= r.choice([0x01, 0x10, 0x80])
            add("chunk-body+data-digest", [i], body=bytes(body), data_digest=None)
    # the same self-consistent alteration behind the ORIGINAL lead (old header checksum kept): only the header checksum can tell
    if out and out[-1][0] == "reseal:chunk-body+digests":
        alt = out[-1][2]
        try:
            q = zckref.parse(alt)
            if q.lead_len == p.lead_len and q.header_len == p.header_len:
                out.append(("oldlead:chunk-body+digests", [1], d[:p.lead_len] + alt[p.lead_len:]))
        except zckref.Invalid:
            pass
    # the file ends inside its LAST chunk, declared sizes untouched, chunk and data checksums recomputed over the bytes that are there
    if n >= 2 and ch[-1][2] > 2:
        for cut in sorted(set([1, ch[-1][2] // 2, ch[-1][2] - 1])):
            body = d[p.header_len:p.total_len - cut]
            last = p.chunks[-1]
            c2 = list(ch)
            c2[-1] = (zckref.H(p.chunk_hash_type, bytes(body[last["start"]:])), ch[-1][1], ch[-1][2], ch[-1][3])
            add("last-chunk-cut+digests", [cut], body=bytes(body), chunks=c2, data_digest=None if not p.has_uncomp else p.data_digest)
    add("sig-count-1", [], sig_count=1)
    add("header-tail", [], header_tail=b"\x00\x01\x02")
    # the 5-byte identifier is outside the header checksum: the same alterations presented under the detached-header identifier
    # (whatever a reader makes of a "detached header" that carries a body, it must not deliver different content with success)
    for name, desc, img in list(out):
        if name.split(":")[1] in ("swap-chunks+stale-data-digest", "data-digest-bit", "chunk-body+data-digest", "swap-entries", "stored-size", "last-chunk-cut+digests") and img[:5] == zckref.MAGIC_FULL:
            out.append((name + "+zhr1-id", desc, zckref.MAGIC_HDR + img[5:]))
    out.append(("reseal:zhr1-id", [], zckref.MAGIC_HDR + d[5:]))
    return out


def worker(case):
    cdir = case["dir"]
    keep = False
    data = core.unb64(case["data"])
    cid = core.h8([case["base"], case["mut"], case["desc"], case["sizes"], case.get("pinned"), case.get("pre")])
    stats = {"files": 1}
    try:
        try:
            # The 5-byte identifier is not covered by any checksum.  An image that carries the detached-header identifier AND a body is
            # judged as the file it is apart from those five bytes (all checksums must match and the content must be that file's): the
            # property does not say such an image has to be refused, only that no different content may come out of it with success
            ref = zckref.decode(zckref.MAGIC_FULL + data[5:] if data[:5] == zckref.MAGIC_HDR else data)
            if data[:5] == zckref.MAGIC_HDR:
                stats["detached_identifier_images"] = 1
        except zckref.Inconclusive as e:
            return core.verdict(cid, "inconclusive", detail=str(e))
        stats["ref_valid" if ref.valid else "ref_invalid"] = 1
        gate = False
        try:
            zckref.parse(data)
            gate = True
        except zckref.Invalid:
            pass
        pins = None
        if case.get("pinned"):
            # the caller pins exactly what the file's own lead says (type, stored checksum, total length): a reader that trusts
            # the pin INSTEAD of recomputing the checksum would accept any header body behind an untouched lead
            try:
                ht, n1 = zckref.ci_decode(data, 5)
                hs, n2 = zckref.ci_decode(data, 5 + n1)
                ds = zckref.DIGEST_SIZE[ht]
                dg = data[5 + n1 + n2:5 + n1 + n2 + ds]
                if len(dg) == ds and len(data) >= 25:
                    pins = (ht, dg.hex(), 5 + n1 + n2 + ds + hs)
            except (zckref.Invalid, KeyError, IndexError):
                pins = None
            if pins is None:
                return core.verdict(cid, "unsupported", stats=stats)
            stats["pinned_opens"] = 1
        if case.get("pre"):
            stats["reads_after_validation_calls"] = 1
        rd = core.run_zh(case["zh"], cdir, gen.reader_script("f.zck", sizes=case["sizes"], pins=pins, pre=case.get("pre") or ()), {"f.zck": data}, name="read")
        if rd.timed_out and not rd.cpu_exceeded:
            return core.verdict(cid, "inconclusive", detail="watchdog", case=case)
        if rd.harness_error:
            return core.verdict(cid, "inconclusive", detail=str(rd.harness_error), case=case)
        viol = []
        cs = core.crash_signatures(rd)
        if cs:
            # memory safety is C03's business, but a crash inside the judged read is not "error or original content"
            viol.append((cs[0], "reader crashed: %s" % cs))
        ir = rd.first(op="init_read") if not pins else rd.first(op="read_header")
        reads = rd.ev(ev="read")
        cl = rd.first(op="close")
        ok = bool(ir and ir["rc"] == 1 and reads and all(e["rc"] >= 0 for e in reads) and reads[-1]["rc"] == 0 and cl and cl["rc"] == 1)
        stats["read_calls"] = len(reads)
        if ir and ir["rc"] == 1:
            stats["opened"] = 1
        orig = core.unb64(case["orig"]) if case.get("orig") is not None else None
        if ok and not cs:
            stats["lib_success"] = 1
            if orig is not None and rd.out == orig and not ref.valid:
                # "reports an error or returns the original content": returning the
                # original content is allowed even where the strict reference rejects
                stats["success_original_content_on_ref_invalid"] = 1
            elif not ref.valid:
                viol.append(("c02:success-on-invalid:%s:%s" % (case["mut"].split(":")[0] + ":" + case["mut"].split(":")[-1], _r(ref.reason)),
                             "library read %d bytes with success; reference: %s" % (len(rd.out), ref.reason)))
            elif rd.out != ref.content:
                viol.append(("c02:content-differs:%s:%s" % (case["mut"].split(":")[-1], "zstd" if ref.parsed.comp_type == 2 else "none"),
                             "library returned %d bytes, reference %d bytes; notes=%s" % (len(rd.out), len(ref.content), ref.notes[:3])))
        # unzck on a sample
        if case.get("unzck"):
            os.makedirs(cdir, exist_ok=True)
            open(os.path.join(cdir, "u.zck"), "wb").write(data)
            if int(cid, 16) % 2 == 0:
                # an older, longer file of the output's name is already there
                open(os.path.join(cdir, "u"), "wb").write(b"old contents of the output file\n" * 4000)
                stats["unzck_over_an_existing_output_file"] = 1
            u = core.run_proc([case["unzck"], "u.zck"], cdir)
            us = core.crash_signatures(u, "unzck")
            stats["unzck_runs"] = 1
            if us:
                viol.append((us[0], "unzck crashed: %s" % us))
            elif u.rc == 0:
                stats["unzck_success"] = 1
                try:
                    O = open(os.path.join(cdir, "u"), "rb").read()
                except FileNotFoundError:
                    O = None
                if O is None:
                    viol.append(("c02:unzck:no-output", "unzck exit 0 without output"))
                elif orig is not None and O == orig and not ref.valid:
                    stats["success_original_content_on_ref_invalid"] = 1
                elif not ref.valid:
                    viol.append(("c02:unzck:success-on-invalid:%s" % _r(ref.reason), "unzck exit 0 with %d bytes; reference: %s" % (len(O), ref.reason)))
                elif O != ref.content:
                    viol.append(("c02:unzck:content-differs:%s" % case["mut"].split(":")[-1], "unzck wrote %d bytes, reference %d" % (len(O), len(ref.content))))
            elif os.path.exists(os.path.join(cdir, "u")):
                stats["unzck_left_output_on_failure"] = 1
        if viol:
            keep = True
            return core.verdict(cid, "violated", [viol[0][0]], stats, detail="; ".join(x[1] for x in viol) + " mut=%s %s base=%s" % (case["mut"], case["desc"], case["base"]),
                                cdir=cdir, case=case)
        nontriv = gate and case["mut"] != "identity"
        return core.verdict(cid, "held", stats=stats, nontrivial=nontriv,
                            sample={"base": case["base"], "mutation": case["mut"], "args": case["desc"], "sizes": case["sizes"], "validation_calls_first": case.get("pre"),
                                    "reference": repr(ref)[:80], "library_success": ok})
    finally:
        core.cleanup_case(cdir, keep)


def _r(reason):
    return reason.split("(")[0].strip().replace(" ", "-")[:40]


class C02(core.Check):
    prop = "C02"
    flavours = ["asan"]
    rule = ("base files (library writer: every compression/dict/hash/flag kind, small manual chunks; plus reference-writer files) x "
            "raw mutations (bit flips per region, substitutions, insertions, deletions, truncation lengths, region swaps, tails) and "
            "re-sealed structure-aware mutations (declared sizes, digests, types, flags, counts, dictionary); each read to the end with a "
            "generated buffer-size sequence in its own process. non-trivial = mutated file whose header still passes the checksum gate "
            "(reaches body / declared-size logic); distinct = hash(base, mutation, args, sizes)")
    assumptions = ["reference decoder lib/zckref.py + hashlib + libzstd define 'correct content'", "hash collisions ignored"]
    worker = staticmethod(worker)

    def prepare(self, fl):
        a = fl["asan"]
        return {"zh": build.zh(a), "unzck": a.tool("unzck")}

    def cases(self, ctx):
        r = core.rng(self.seed, "C02", "mut")
        bases = basefiles.small_set(ctx["zh"], self.work, self.seed, count=None if not self.quick else 16)
        bases += basefiles.ref_set(self.seed, 8 if self.quick else 21)
        if len(bases) < 8:
            raise RuntimeError("could not produce base files")
        self.count("base_files", len(bases))
        out = []
        # checksums with 0x00 bytes: a chunk body substituted by another one whose chunk AND data checksums agree with the
        # stored ones up to (and including) a leading NUL - comparisons that stop at a NUL accept it
        for (ht, cht) in ((1, 1), (2, 3)) if not self.quick else ((1, 1),):
            p1 = gen.content("text", 90, 1)
            found = []
            i = 0
            while len(found) < 2 and i < 3000000:
                p2 = b"chunk-%08d-" % i + b"x" * 20
                i += 1
                if zckref.H(cht, p2)[0] != 0:
                    continue
                if zckref.H(ht, p1 + p2)[0] != 0:
                    continue
                found.append(p2)
            if len(found) == 2:
                F = zckref.make_file([p1, found[0]], comp_type=0, hash_type=ht, chunk_hash_type=cht)
                pF = zckref.parse(F)
                a = pF.header_len + pF.chunks[2]["start"]
                sub = F[:a] + found[1] + F[a + len(found[1]):]
                for sizes in ([1], [4096], [7, 512]):
                    out.append({"base": "nul-digest-h%d%d" % (ht, cht), "mut": "substitute-chunk-nul-prefixed-digests", "desc": [2], "data": core.b64(sub), "sizes": sizes,
                                "zh": ctx["zh"], "orig": core.b64(p1 + found[0]), "unzck": ctx["unzck"]})
                self.count("nul_digest_substitutions", 1)
        for b in bases:
            muts = [("identity", [], b["data"])] + raw_mutants(r, b, self.quick) + struct_mutants(r, b, self.quick)
            total = len(b["content"])
            for name, desc, data in muts:
                nseq = 1 if self.quick else 2
                for _ in range(nseq):
                    sizes = r.choice([[1], [7, 512], [4096], [total + 1], [1, 3, 100, 32768], [max(1, total // 2)]])
                    out.append({"base": b["name"], "mut": name, "desc": desc, "data": core.b64(data), "sizes": sizes, "zh": ctx["zh"],
                                "orig": core.b64(b["content"]),
                                "unzck": ctx["unzck"] if r.random() < (0.1 if self.quick else 0.05) else None})
                    # the same read after the validation calls an application may make first (unzck validates the data checksum before it
                    # extracts): verdicts cached by an earlier call must not replace the verification of what is read
                    gated = not name.startswith(("bitflip", "subst", "insert", "delete", "swap", "trunc", "tail", "dup")) or name.startswith("identity")
                    if r.random() < (0.9 if gated else 0.15):
                        out.append({"base": b["name"], "mut": name, "desc": desc, "data": core.b64(data), "sizes": sizes, "zh": ctx["zh"], "orig": core.b64(b["content"]),
                                    "pre": r.choice([["vd"], ["vd"], ["vc"], ["fv"], ["vd", "vc"], ["fv", "vd"]]),
                                    "unzck": ctx["unzck"] if (gated and r.random() < 0.3) else None})
                    if name.startswith("oldlead:") or ((name.startswith(("bitflip:preface", "subst", "insert", "delete", "swap", "bitflip")) and not name.startswith("bitflip:lead")) and r.random() < 0.25):
                        out.append({"base": b["name"], "mut": name, "desc": desc, "data": core.b64(data), "sizes": sizes, "zh": ctx["zh"],
                                    "orig": core.b64(b["content"]), "unzck": None, "pinned": True})
        return out
