"""C06 - the header checksum covers every header byte.
Monitor: in-process harness (h_hdrmut) substitutes every header byte of each
sample file by every other value (exhaustive) and runs the real
zck_init_read on the image; any open that succeeds is a violation.  Sampled:
insertions / deletions with the header-size field adjusted, truncations,
stored-checksum transplants.  Positive controls: the untouched file and the
identifier swap (ZCK1 <-> ZHR1) must open.  For every patched image the
independent reference (hashlib) recomputes the header checksum: the library
opening an image whose checksum the reference finds wrong is a violation
regardless of how the image was produced."""
import os
import sys

sys.path.insert(0, os.path.join(os.path.dirname(os.path.abspath(__file__)), "..", "lib"))
import basefiles
import build
import core
import zckref


def region_of(p, pos):
    if pos < 5:
        return "identifier"
    for name, (o, n) in p.off.items():
        if o <= pos < o + n:
            return name
    if pos < p.lead_len:
        return "lead"
    idx_start = p.off["chunk_count"][0] + p.off["chunk_count"][1]
    if idx_start <= pos < p.off["sig_count"][0]:
        return "index_entries"
    if p.lead_len <= pos < p.off["index_size"][0]:
        return "preface"
    return "header_tail"


def apply_patches(data, patches):
    b = bytearray(data)
    for pt in patches:
        k = pt[0]
        if k == "s":
            if pt[1] + len(pt[2]) <= len(b):
                b[pt[1]:pt[1] + len(pt[2])] = pt[2]
        elif k == "d":
            if pt[1] + pt[2] <= len(b):
                del b[pt[1]:pt[1] + pt[2]]
        elif k == "i":
            if pt[1] <= len(b):
                b[pt[1]:pt[1]] = pt[2]
        elif k == "t":
            del b[pt[1]:]
    return bytes(b)


def patch_str(patches):
    if not patches:
        return "-"
    out = []
    for pt in patches:
        if pt[0] in ("s", "i"):
            out.append("%s%d:%s" % (pt[0], pt[1], pt[2].hex()))
        elif pt[0] == "d":
            out.append("d%d:%d" % (pt[1], pt[2]))
        else:
            out.append("t%d" % pt[1])
    return ",".join(out)


def ref_header_ok(img):
    try:
        zckref.parse(img)
        return True
    except zckref.Invalid:
        return False


def worker(case):
    cdir = case["dir"]
    os.makedirs(cdir, exist_ok=True)
    keep = False
    data = core.unb64(case["data"])
    p = zckref.parse(data)
    cid = core.h8([case["base"], case["lines_id"]])
    stats = {"evaluations": 0}
    try:
        open(os.path.join(cdir, "f0.zck"), "wb").write(data)
        L = []
        for ln in case["lines"]:
            if ln[0] == "X":
                mode = ln[3] if len(ln) > 3 else 0
                L.append("X 0 %d %d %d %d %s" % (ln[1], ln[2], mode, p.hash_type, p.header_digest.hex()))
            else:
                # every patched image through the three ways of opening a file: zck_init_read; lead + header step by step;
                # the same with the header pinned to the GENUINE checksum of the unpatched file
                L.append("P %s 0 %s o" % (ln[1], patch_str(ln[2])))
                L.append("P %s+adv 0 %s l h" % (ln[1], patch_str(ln[2])))
                L.append("P %s+pin 0 %s T%d D%s l h" % (ln[1], patch_str(ln[2]), p.hash_type, p.header_digest.hex().encode().hex()))
                L.append("P %s+latepin 0 %s l T%d D%s c h" % (ln[1], patch_str(ln[2]), p.hash_type, p.header_digest.hex().encode().hex()))
                # a caller that clears the error and asks again
                L.append("P %s+retry 0 %s l h c h c h" % (ln[1], patch_str(ln[2])))
                # options set on the reading context before the open
                L.append("P %s+ropt 0 %s U1 c l h" % (ln[1], patch_str(ln[2])))
                # the patched image behind a pristine copy of the file in the same descriptor (positioned at the image), and through a pipe
                L.append("P %s+off 0 %s Foff l h" % (ln[1], patch_str(ln[2])))
                L.append("P %s+offo 0 %s Foff o" % (ln[1], patch_str(ln[2])))
                L.append("P %s+pipe 0 %s Fpipe o" % (ln[1], patch_str(ln[2])))
        open(os.path.join(cdir, "cases"), "w").write("\n".join(L) + "\n")
        r = core.run_proc([case["bin"], "cases", "out", "marker", "f0.zck"], cdir, cpu=120, wall=1200)
        if r.timed_out and not r.cpu_exceeded:
            return core.verdict(cid, "inconclusive", detail="watchdog", case=case)
        try:
            outl = open(os.path.join(cdir, "out")).read().split("\n")
        except FileNotFoundError:
            outl = []
        viols = []
        cs = core.crash_signatures(r, where="zck_init_read")
        if cs:
            mk = ""
            try:
                mk = open(os.path.join(cdir, "marker")).read().strip()
            except Exception:
                pass
            viols.append((cs[0], "crash while opening mutated header (case %s): %s" % (mk, cs)))
        elif "END" not in outl:
            return core.verdict(cid, "inconclusive", detail="harness did not finish rc=%s err=%s" % (r.rc, r.stderr[-200:]), case=case)
        pmap = {ln[1]: ln for ln in case["lines"] if ln[0] == "P"}
        regions = set()
        nontriv = set()
        for o in outl:
            t = o.split()
            if not t:
                continue
            if t[0] == "S":
                pos, val = int(t[2]), int(t[3])
                mode = ["init_read", "lead+header", "pinned", "pinned-after-lead", "retried-after-clear-error", "reader-options-set"][int(t[4])] if len(t) > 4 else "init_read"
                reg = region_of(p, pos)
                viols.append(("c06:opened-with-substituted-byte:%s%s" % (reg, "" if mode == "init_read" else ":" + mode), "byte %d (%s) %#x -> %#x still opens (%s)" % (pos, reg, data[pos], val, mode)))
            elif t[0] == "XEND":
                stats["evaluations"] += int(t[2])
                stats["substitution_opens"] = stats.get("substitution_opens", 0) + int(t[2])
            elif t[0] == "R":
                pid, _, how = t[1].partition("+")
                ln = pmap[pid]
                rcs = [int(x) for x in t[2].split(",")]
                rc = 1 if all(x == 1 for x in rcs) else 0   # "+pin": the two setters get genuine values and succeed
                if how == "latepin":
                    rc = 1 if (rcs[0] == 1 and rcs[-1] == 1) else 0   # lead and header read; what the late setters say is their business
                if how == "ropt":
                    rc = 1 if (rcs[2] == 1 and rcs[3] == 1) else 0   # what the option setter says is its business
                if how == "retry":
                    rc = 1 if (rcs[0] == 1 and 1 in (rcs[1], rcs[3], rcs[5])) else 0   # the lead was read and one of the three header attempts succeeded
                stats["evaluations"] += 1
                stats["opens_" + (how or "init_read")] = stats.get("opens_" + (how or "init_read"), 0) + 1
                img = apply_patches(data, ln[2])
                kind = ln[3] + (":" + {"adv": "lead+header", "pin": "pinned", "latepin": "pinned-after-lead", "off": "behind-a-pristine-copy", "offo": "behind-a-pristine-copy:init_read",
                                       "pipe": "through-a-pipe", "retry": "retried-after-clear-error", "ropt": "reader-options-set"}[how] if how else "")
                refok = ref_header_ok(img)
                same_header = img[5:p.header_len] == data[5:p.header_len] and img[:5] in (zckref.MAGIC_FULL, zckref.MAGIC_HDR) and len(img) >= p.header_len
                if rc == 1 and not refok:
                    viols.append(("c06:opened-although-reference-checksum-differs:%s" % kind, "patch %s opens; reference: header checksum/structure invalid" % patch_str(ln[2])))
                elif rc == 1 and not same_header:
                    viols.append(("c06:opened-with-different-header-bytes:%s" % kind, "patch %s opens although header bytes differ" % patch_str(ln[2])))
                elif rc != 1 and same_header and ln[3] in ("control", "magic-swap") and how != "pipe":
                    # (through a pipe a read may legitimately come back short and the library then gives up: only acceptance is judged there)
                    viols.append(("c06:valid-header-rejected:%s" % kind, "patch %s rejected although all header bytes are authentic" % patch_str(ln[2])))
                nontriv.add(core.h8([case["base"], ln[2]]))
                stats["patched_" + kind] = stats.get("patched_" + kind, 0) + 1
        for ln in case["lines"]:
            if ln[0] == "X":
                for pos in range(ln[1], min(ln[2], p.header_len)):
                    regions.add(region_of(p, pos))
                    nontriv.add(core.h8([case["base"], "X", pos]))
        stats["regions_covered"] = sorted(regions)
        if viols:
            keep = True
            return core.verdict(cid, "violated", sorted(set(v[0] for v in viols)), stats, detail="; ".join(v[1] for v in viols[:4]) + " base=%s" % case["base"], cdir=cdir, case=case)
        return core.verdict(cid, "held", stats=stats, nontrivial=nontriv,
                            sample={"base": case["base"], "header_len": p.header_len, "lines": [str(x)[:120] for x in case["lines"][:3]]})
    finally:
        core.cleanup_case(cdir, keep)


class C06(core.Check):
    prop = "C06"
    flavours = ["asan", "bundled-asan"]
    rule = ("sample files (library- and reference-written; 4 lead checksum types, flags, dict/no dict, optional elements, detached headers) x EVERY header "
            "position x all 255 other byte values, on the OpenSSL build and - for headers whose hashed length sweeps the SHA block sizes - on the bundled-SHA build; EVERY header "
            "position x all 255 other byte values through zck_init_read (exhaustive); the same through the two other ways of opening (zck_read_lead + zck_read_header "
            "step by step; the same with the header pinned to the file's genuine checksum before, or after, the lead is read; the same with every failing step followed by zck_clear_error and repeated up to three times; the same with writer-side options (uncompressed-source flag, chunk hash type, manual chunking) set on the reading context first; patched images also behind a pristine copy of the file in the same descriptor and through a pipe) for every lead byte of every sample and every header byte of the first "
            "samples; plus patched images through all three ways: single-byte insertions/deletions with the header-size field adjusted, truncations inside the "
            "header, every integer field re-encoded in a longer form with the same value, stored-checksum transplants, identifier swap and untouched controls. "
            "distinct = (file, position) for substitutions, (file, patch) otherwise")
    assumptions = ["independent header checksum recomputed with hashlib (zckref.parse) for every patched image", "hash collisions out of scope"]
    worker = staticmethod(worker)

    def prepare(self, fl):
        return {"bin": fl["asan"].harness("h_hdrmut", ["h_hdrmut.c"]), "zh": build.zh(fl["asan"]),
                "bin_bundled": fl["bundled-asan"].harness("h_hdrmut", ["h_hdrmut.c"]), "zh_bundled": build.zh(fl["bundled-asan"])}

    def cases(self, ctx):
        r = core.rng(self.seed, "C06", "gen")
        samples = []
        libset = basefiles.small_set(ctx["zh"], self.work, self.seed + 6, n_chunks=(1, 5), piece=(20, 200))
        want = 4 if self.quick else 40
        r.shuffle(libset)
        samples += libset[:want]
        # reference-written: all 4 lead checksum types, optional elements, detached
        for ht in range(4):
            for det in (False, True):
                if self.quick and det and ht not in (1, 3):
                    continue
                pieces = [r.randbytes(r.randrange(1, 90)) for _ in range(r.randrange(1, 5 if self.quick else 40))]
                oe = [(r.randrange(0, 300), r.randbytes(r.randrange(0, 20)))] if r.random() < 0.5 else None
                d = zckref.make_file(pieces, comp_type=0, dict_bytes=r.randbytes(r.choice([0, 13])), hash_type=ht, chunk_hash_type=r.randrange(4),
                                     opt_elems=oe, detached=det)
                samples.append({"name": "ref-h%d-det%d-opt%d" % (ht, det, oe is not None), "data": d})
        # another writer's header with unused bytes behind the signatures (they are header bytes like any other)
        for ht in ((1,) if self.quick else range(4)):
            pieces = [r.randbytes(r.randrange(1, 90)) for _ in range(3)]
            d = zckref.make_file(pieces, comp_type=0, hash_type=ht, chunk_hash_type=1, header_tail=r.randbytes(r.choice([1, 13, 64])))
            samples.append({"name": "ref-h%d-hdrtail" % ht, "data": d, "tail": True})
        # stored checksums containing 0x00 bytes (first byte / middle byte): comparisons that stop at a NUL would leave the rest unprotected
        for ht in range(4):
            for zpos in (0, zckref.DIGEST_SIZE[ht] // 2):
                pieces = [r.randbytes(r.randrange(1, 60)) for _ in range(3)]
                for i in range(200000):
                    d = zckref.make_file(pieces, comp_type=0, hash_type=ht, chunk_hash_type=1, opt_elems=[(7, i.to_bytes(4, "big"))])
                    p = zckref.parse(d)
                    if p.header_digest[zpos] == 0:
                        samples.append({"name": "ref-h%d-nul@%d" % (ht, zpos), "data": d})
                        self.count("samples_with_nul_in_checksum", 1)
                        break
                if self.quick:
                    break
        out = []
        self.exhaustive = True
        # the other checksum back end (bundled SHA code), where it matters for coverage: the lead prefix and the rest of the header are hashed in
        # two updates, so header lengths are swept across the SHA-256 / SHA-512 block sizes (every total of 50..72 and 112..138 hashed bytes)
        import itertools
        text = (b"the quick brown fox jumps over the lazy dog " * 8)
        for ht in range(4):
            lo, hi = ((56, 72) if ht in (0, 1) else (120, 138))
            seen = set()
            for cht, nd, dsz, comp, pad, psz in itertools.product((3, 0), (0, 1, 2, 4), (0, 100, 200), (0, 2), (None, 0, 1, 2, 3, 5, 8), (1, 200)):
                try:
                    d = zckref.make_file([text[:psz]] * nd, comp_type=comp, hash_type=ht, chunk_hash_type=cht, dict_bytes=text[:dsz],
                                         opt_elems=None if pad is None else [(1, bytes(pad))])
                    p = zckref.parse(d)
                except zckref.Invalid:
                    continue
                hashed = p.header_len - zckref.DIGEST_SIZE[ht]     # bytes covered by the checksum (identifier counted, stored digest not)
                if lo <= hashed <= hi and hashed not in seen:
                    seen.add(hashed)
                    out.append({"base": "ref-bundled-h%d-len%d" % (ht, hashed), "data": core.b64(d), "bin": ctx["bin_bundled"],
                                "lines": [["X", 0, p.header_len], ["P", "p0", [], "control"]], "lines_id": "X0/bundled"})
                    self.count("bundled_backend_samples", 1)
            self.extra_cov.setdefault("bundled_backend_hashed_lengths", set()).update("h%d:%d" % (ht, x) for x in seen)
        # the same sweep with files WRITTEN by the bundled build (writer and reader share the back end: a byte that both leave out of
        # the checksum shows only as a mutated file that still opens)
        wi = 0
        seenw = set()
        for ht, dsz, csz, comp in itertools.product(range(4), (0, 135, 200), (0, 100), (0, 2)):
            D = text[:csz]
            cfg = {"comp": comp, "manual": True, "chunk_hash": 3, "full_hash": ht, "level": 1}
            data = basefiles.write_with_lib(ctx["zh_bundled"], os.path.join(self.work, "bw%d" % wi), D, cfg, [max(csz, 1), "e"], text[:dsz] if dsz else None)
            wi += 1
            if data is None:
                continue
            try:
                p = zckref.parse(data)
            except zckref.Invalid:
                continue
            hashed = p.header_len - zckref.DIGEST_SIZE[ht]
            bs = 64 if ht in (0, 1) else 128
            if abs(hashed - bs) <= 3 and (ht, hashed) not in seenw:
                seenw.add((ht, hashed))
                out.append({"base": "lib-bundled-h%d-len%d" % (ht, hashed), "data": core.b64(data), "bin": ctx["bin_bundled"],
                            "lines": [["X", 0, p.header_len], ["P", "p0", [], "control"]], "lines_id": "X0/bundled-lib"})
                self.count("bundled_backend_library_written_samples", 1)
        self.extra_cov["bundled_backend_library_written_hashed_lengths"] = set("h%d:%d" % k for k in seenw)
        # one header larger than 1 MiB (piece-wise hashing of large headers): sampled windows only, not part of the exhaustive claim
        nbig = 62000
        big = zckref.make_file([b"%c" % (i & 0xff) for i in range(nbig)], comp_type=0, hash_type=1, chunk_hash_type=3)
        pb = zckref.parse(big)
        self.count("big_header_bytes", pb.header_len)
        wins = [(pb.header_len - 3, pb.header_len), (pb.lead_len + (1 << 20) + 1000, pb.lead_len + (1 << 20) + 1002)]
        if not self.quick:
            wins += [(pb.lead_len + k * 200000, pb.lead_len + k * 200000 + 2) for k in range(1, 5)]
        for lo, hi in wins:
            out.append({"base": "ref-bigheader", "data": core.b64(big), "bin": ctx["bin"], "lines": [["X", lo, hi]], "lines_id": "X%d" % lo})
        out.append({"base": "ref-bigheader", "data": core.b64(big), "bin": ctx["bin"], "lines": [["P", "p0", [], "control"]], "lines_id": "P"})
        for s in samples:
            data = s["data"]
            p = zckref.parse(data)
            hl = p.header_len
            self.count("sample_files", 1)
            self.count("header_bytes", hl)
            step = max(8, hl // 12)
            for lo in range(0, hl, step):
                out.append({"base": s["name"], "data": core.b64(data), "bin": ctx["bin"], "lines": [["X", lo, min(hl, lo + step)]], "lines_id": "X%d" % lo})
            # the other two ways of opening (lead + header step by step; header pinned to the genuine checksum): the lead of every sample,
            # the whole header of the first few (quick) / of all (thorough)
            full = (not self.quick) or self.counters.get("sample_files", 0) <= 3
            for mode in (1, 2, 3, 4, 5):
                if full:
                    for lo in range(0, hl, step):
                        out.append({"base": s["name"], "data": core.b64(data), "bin": ctx["bin"], "lines": [["X", lo, min(hl, lo + step), mode]], "lines_id": "X%d/m%d" % (lo, mode)})
                else:
                    out.append({"base": s["name"], "data": core.b64(data), "bin": ctx["bin"], "lines": [["X", 0, p.lead_len, mode]], "lines_id": "X0/m%d" % mode})
            # patched images
            lines = []
            k = 0

            def P(patches, kind):
                nonlocal k
                lines.append(["P", "p%d" % k, patches, kind])
                k += 1
            P([], "control")
            swap = zckref.MAGIC_HDR if data[:5] == zckref.MAGIC_FULL else zckref.MAGIC_FULL
            P([("s", 0, swap)], "magic-swap")
            hs_off, hs_n = p.off["header_size"]
            for _ in range(40 if self.quick else 300):
                pos = r.randrange(p.lead_len, hl)
                if r.random() < 0.5:
                    new = p.header_size - 1
                    pt = [("d", pos, 1)]
                    kind = "delete+size"
                else:
                    new = p.header_size + 1
                    pt = [("i", pos, bytes([r.randrange(256)]))]
                    kind = "insert+size"
                enc = zckref.ci_encode(new)
                if len(enc) > hs_n:
                    continue
                enc = zckref.ci_encode(new, pad=hs_n - len(enc))
                P(pt + [("s", hs_off, enc)], kind)
                if r.random() < 0.3:
                    P(pt, kind.split("+")[0])
            for _ in range(10 if self.quick else 60):
                P([("t", r.randrange(5, hl))], "truncate")
            # the same VALUES in other BYTES: every integer field re-encoded one and three bytes longer (non-minimal form);
            # fields behind the lead grow the header, so the header-size field follows
            for fname, (fo, fn_) in sorted(p.off.items()):
                if fname in ("header_digest", "data_digest"):
                    continue
                try:
                    val, used = zckref.ci_decode(data, fo)
                except zckref.Invalid:
                    continue
                for pad in (1, 3):
                    if used + pad > 10:
                        continue
                    pt = [("d", fo, used), ("i", fo, zckref.ci_encode(val, pad=pad))]
                    P(pt, "reencode-int")
                    if fo >= p.lead_len and fname != "header_size":
                        enc = zckref.ci_encode(p.header_size + pad)
                        if len(enc) <= hs_n:
                            P(pt + [("s", hs_off, zckref.ci_encode(p.header_size + pad, pad=hs_n - len(enc)))], "reencode-int+size")
            # checksum transplant from another sample with the same lead checksum type
            for o in samples:
                if o is s:
                    continue
                q = zckref.parse(o["data"])
                if q.hash_type == p.hash_type:
                    P([("s", p.hdr_digest_loc, q.header_digest)], "digest-transplant")
            # zeroed / all-ones checksum, digest of empty input
            ds = zckref.DIGEST_SIZE[p.hash_type]
            P([("s", p.hdr_digest_loc, bytes(ds))], "digest-zero")
            P([("s", p.hdr_digest_loc, zckref.H(p.hash_type, b"")[:ds])], "digest-of-empty")
            # checksum over the header WITHOUT the fixed identifier / with the detached identifier (wrong recipes)
            h = zckref.hnew(p.hash_type)
            h.update(zckref.MAGIC_HDR + data[5:p.hdr_digest_loc] + data[p.lead_len:hl])
            P([("s", p.hdr_digest_loc, h.digest()[:ds])], "digest-wrong-recipe")
            h = zckref.hnew(p.hash_type)
            h.update(data[5:p.hdr_digest_loc] + data[p.lead_len:hl])
            P([("s", p.hdr_digest_loc, h.digest()[:ds])], "digest-wrong-recipe")
            h = zckref.hnew(p.hash_type)
            h.update(zckref.MAGIC_FULL + data[5:p.hdr_digest_loc] + data[p.lead_len:hl - 1])
            P([("s", p.hdr_digest_loc, h.digest()[:ds])], "digest-wrong-recipe")
            # ... over the header only "until the end of the signatures" (a tempting reading of the format text): the unused bytes behind
            # them would be covered by nothing
            if s.get("tail"):
                q0 = zckref.parse(data)
                tl_ = len(data[:hl]) - (q0.off["sig_count"][0] + q0.off["sig_count"][1]) if "sig_count" in q0.off else 0
                if tl_ > 0 and q0.sig_count == 0:
                    h = zckref.hnew(p.hash_type)
                    h.update(zckref.MAGIC_FULL + data[5:p.hdr_digest_loc] + data[p.lead_len:hl - tl_])
                    P([("s", p.hdr_digest_loc, h.digest()[:ds])], "digest-until-signatures")
                    for k_ in range(min(tl_, 6)):
                        P([("s", p.hdr_digest_loc, h.digest()[:ds]), ("s", hl - 1 - k_, bytes([data[hl - 1 - k_] ^ 0x5A]))], "digest-until-signatures+tail-byte")
            out.append({"base": s["name"], "data": core.b64(data), "bin": ctx["bin"], "lines": lines, "lines_id": "P"})
        return out
