"""C12 - I/O failures are reported, never turned into success.
Fault enumeration: per scenario one fault-free run counts the calls per
(system call, descriptor class); then EVERY call k is re-run under each fault
kind {EIO, ENOSPC (writes), EINTR, short count with a real partial transfer,
read returning 0} through the link-time interposer (library scenarios) or the
LD_PRELOAD shim (real tools).  Oracle: a result reported as success must have
been achieved - the writer's successful close / tool exit 0 implies the bytes
that reached the output descriptor decode (reference decoder) to the input;
the reader's success implies the content equals the file's; validation
returning 1 implies no read it depended on failed; a chunk flagged valid after
copy / download hashes correctly on disk; a successful update equals B."""
import json
import os
import sys

sys.path.insert(0, os.path.join(os.path.dirname(os.path.abspath(__file__)), "..", "lib"))
import basefiles
import build
import core
import gen
import zckref

READ_KINDS = [(1, 0), (3, 0), (4, 1), (4, -7), (5, 0)]      # (kind, arg); arg -7 = "half" resolved per call? (interposer: arg bytes) -> use fixed small counts
WRITE_KINDS = [(1, 0), (2, 0), (3, 0), (4, 0), (4, 1), (4, 5)]
SEEK_KINDS = [(1, 0)]
KN = {1: "EIO", 2: "ENOSPC", 3: "EINTR", 4: "short", 5: "zero"}


def kinds_for(sys_):
    if sys_ == "read":
        return [(1, 0), (3, 0), (4, 1), (4, 3), (5, 0)]
    if sys_ == "write":
        return WRITE_KINDS
    return SEEK_KINDS   # lseek, ftruncate


# ------------------------------------------------------------ library scenarios
def lib_script(sc, fault=None):
    L = []
    if fault:
        L.append("fault %s %s %d %d %d" % tuple(fault[:5]))
        if len(fault) > 6 and fault[6]:
            k2, kind2, arg2 = fault[6]
            L.append("fault %s %s %d %d %d" % (fault[0], fault[1], k2, kind2, arg2))
    k = sc["kind"]
    if k == "write":
        return "\n".join(L) + "\n" + gen.writer_script(sc["cfg"], seg=sc["seg"]) + "iocounts\n"
    if k == "write-retry":
        # a caller that does not give up at the first error: after every call it clears the error (if the library lets it) and calls
        # again; whatever that achieves, a close that reports success must have produced the complete file
        ws = gen.writer_script(sc["cfg"], seg=sc["seg"]).split("\n")
        out = []
        for ln in ws:
            if ln.startswith("writeseq "):
                pos = 0
                n = len(sc["_D"])
                toks = [t for t in sc["seg"]]
                ti = 0
                while pos < n:
                    t = toks[ti % len(toks)]
                    ti += 1
                    if t == "e":
                        out += ["end_chunk 0", "clear_error 0", "end_chunk 0", "clear_error 0"]
                        continue
                    ln_ = min(int(t), n - pos)
                    out += ["write 0 f:in.dat:%d:%d" % (pos, ln_), "clear_error 0"]
                    pos += ln_
                out += ["end_chunk 0", "clear_error 0", "end_chunk 0", "clear_error 0"]
            else:
                out.append(ln)
        return "\n".join(L) + "\n" + "\n".join(out) + "iocounts\n"
    if k == "read":
        return "\n".join(L) + "\n" + gen.reader_script("f.zck", sizes=sc["sizes"]) + "iocounts\n"
    if k == "read-retry":
        # a reader that clears a failed call's error and calls again; whatever that achieves, reads that all succeed down to the end of
        # data followed by a successful close must have delivered the file's content
        L += ["fopen 1 f.zck r input", "create 1", "init_read 1 1", "readretry 1 3 %s" % " ".join(str(x) for x in sc["sizes"]), "close 1", "iocounts"]
        return "\n".join(L) + "\n"
    if k == "open-steps":
        # the step-by-step way of opening: each step's verdict is its own
        L += ["fopen 1 f.zck r input", "create 1", "init_adv_read 1 1", "read_lead 1", "read_header 1", "iocounts"]
        return "\n".join(L) + "\n"
    if k in ("vc", "vd", "fv"):
        L += ["fopen 1 f.zck r input", "create 1", "init_read 1 1", "%s 1" % k, "flags 1", "iocounts"]
    elif k == "chunkdata":
        L += ["fopen 1 f.zck r input", "create 1", "init_read 1 1"] + ["chunkdata 1 %d" % c for c in sc["chunks"]] + ["iocounts"]
    elif k == "copy":
        L += ["fopen 2 src.zck r source", "create 2", "init_read 2 2", "fopen 1 tgt.zck rw target", "create 1", "init_read 1 1", "fv 1", "copy 2 1", "flags 1", "iocounts"]
    elif k == "copy-retry":
        # a caller that clears the error and copies again on the same contexts (twice): whatever ends up flagged valid must be on disk
        L += ["fopen 2 src.zck r source", "create 2", "init_read 2 2", "fopen 1 tgt.zck rw target", "create 1", "init_read 1 1", "fv 1", "copy 2 1", "flags 1",
              "clear_error 1", "clear_error 2", "copy 2 1", "clear_error 1", "clear_error 2", "reset_failed 1", "copy 2 1", "flags 1", "iocounts"]
    elif k == "update":
        if sc.get("chain"):
            L.append("chain 1")   # the application's own callbacks hung behind the library's: they accept everything
        L += ["fopen 2 src.zck r source", "create 2", "init_read 2 2", "fopen 1 tgt.zck rwc target", "create 1",
              "update 1 1 2 B.zck %d %d %s zckverifBOUNDARY" % (sc["limit"], sc["style"], sc["frag"]), "flags 1", "iocounts"]
    return "\n".join(L) + "\n"


def fired_during(r, opname):
    """Was the injected fault raised between the call and the return of op `opname`?"""
    inside = False
    for e in r.events:
        if "call" in e:
            inside = e["call"].split()[0] == opname
        if e.get("INJECTED") and inside:
            return True
    return False


def judge_lib(sc, r, cdir, fault):
    """(sig, detail) or None.  r: run result with the fault injected."""
    k = sc["kind"]
    tag = "%s:%s.%s:%s%s" % (k, fault[0], fault[1], KN[fault[3]], "+" + KN[fault[6][1]] if len(fault) > 6 and fault[6] else "")
    if k in ("write", "write-retry"):
        cl = r.first(op="close")
        if cl and cl["rc"] == 1:
            try:
                out = open(os.path.join(cdir, "out.zck"), "rb").read()
            except FileNotFoundError:
                out = b""
            v = zckref.decode(out)
            D = sc["_D"]
            if not v.valid:
                return ("c12:writer-success-but-file-invalid:" + tag, "zck_close reported success; bytes on the output descriptor: %s" % v.reason)
            if v.content != D:
                return ("c12:writer-success-but-content-differs:" + tag, "decoded %d bytes, wrote %d" % (len(v.content), len(D)))
        return None
    if k == "read":
        reads = r.ev(ev="read")
        cl = r.first(op="close")
        ok = r.first(op="init_read") and r.first(op="init_read")["rc"] == 1 and reads and all(e["rc"] >= 0 for e in reads) and reads[-1]["rc"] == 0 and cl and cl["rc"] == 1
        if ok and r.out != sc["_D"]:
            return ("c12:reader-success-with-different-content:" + tag, "read %d bytes, file holds %d" % (len(r.out), len(sc["_D"])))
        return None
    if k == "read-retry":
        rr = r.first(op="readretry")
        cl = r.first(op="close")
        reads = r.ev(ev="read")
        if rr and not rr["gave_up"] and reads and reads[-1]["rc"] == 0 and cl and cl["rc"] == 1 and r.out != sc["_D"]:
            return ("c12:reader-success-with-different-content:" + tag, "after %d cleared error(s) the reads reached the end of data and zck_close reported success with %d bytes, the file holds %d"
                    % (rr["errors"], len(r.out), len(sc["_D"])))
        return None
    if k == "open-steps":
        for opn in ("read_lead", "read_header"):
            e = r.first(op=opn)
            if e and e["rc"] == 1 and fault[3] in (1, 3, 5) and not (len(fault) > 6 and fault[6]) and fired_during(r, opn):
                return ("c12:open-step-success-despite-failed-%s:%s:%s" % (fault[1], opn, tag), "%s returned true although %s #%d on the file failed (%s) during the call" % (opn, fault[1], fault[2], KN[fault[3]]))
        return None
    if k in ("vc", "vd", "fv"):
        e = r.first(op=k)
        if e and e["rc"] == 1 and fault[3] in (1, 3, 5) and fired_during(r, k):
            return ("c12:validation-success-despite-failed-%s:%s" % (fault[1], tag), "%s returned 1 although %s #%d on the file failed (%s) during the scan" % (k, fault[1], fault[2], KN[fault[3]]))
        return None
    if k == "chunkdata":
        for e, c in zip(r.ev(op="chunkdata"), sc["chunks"]):
            want = sc["_pieces"][c]
            if e["rc"] >= 0:
                got = r.out[e["off"]:e["off"] + e["rc"]]
                if e["rc"] != len(want) or got != want:
                    return ("c12:chunkdata-success-with-wrong-bytes:" + tag, "chunk %d: rc=%d expected %d bytes" % (c, e["rc"], len(want)))
        return None
    if k in ("copy", "copy-retry", "update"):
        B = sc["_B"]
        p = zckref.parse(B)
        fl = [e["valid"] for e in r.events if e.get("op") == "flags"]
        try:
            disk = open(os.path.join(cdir, "tgt.zck"), "rb").read()
        except FileNotFoundError:
            disk = b""
        if fl:
            for c, f in zip(p.chunks, fl[-1]):
                a = p.header_len + c["start"]
                if f == 1 and c["comp_len"] and zckref.H(p.chunk_hash_type, disk[a:a + c["comp_len"]]) != c["digest"]:
                    return ("c12:chunk-valid-but-bytes-not-written:" + tag, "chunk %d flagged valid; its bytes on disk do not hash to the checksum" % c["number"])
        if k == "update":
            up = r.first(op="update")
            if up and up["rc"] == 1 and up["stage"] == "done" and disk != B:
                return ("c12:update-success-but-target-differs:" + tag, "update reported success, target != B")
        return None
    return None


# ------------------------------------------------------------------- tools
def tool_cmd(sc, tools):
    k = sc["kind"]
    if k == "t-zck":
        return [tools["zck"], "-o", "out.zck"] + sc["args"] + ["in.dat"], "input=in.dat;output=out.zck", {}
    if k == "t-unzck":
        return [tools["unzck"], "arch.zck"], "input=arch.zck;output=arch", {}
    if k == "t-unzck-c":
        return [tools["unzck"], "-c", "arch.zck"], "input=arch.zck", {"ZCKV_STDOUT": "1"}
    if k == "t-unzck-dict":
        return [tools["unzck"], "--dict", "arch.zck"], "input=arch.zck;output=arch.zdict", {}
    if k == "t-read_header-f":
        return [tools["zck_read_header"], "-f", "arch.zck"], "input=arch.zck", {}
    if k == "t-unzck-header":
        return [tools["unzck"], "--header", "arch.zck"], "input=arch.zck;output=arch.zhr", {}
    if k == "t-zckdl":
        return [tools["zckdl"], "-s", "A.zck", sc["url"]], "target=tgt.zck;source=A.zck", {"no_proxy": "*", "NO_PROXY": "*"}
    raise ValueError(k)


CLASS_PATHS = {"t-zck": {"input": "in.dat", "output": "out.zck"}, "t-unzck": {"input": "arch.zck", "output": "arch"},
               "t-unzck-c": {"input": "arch.zck", "stdout": "stdout.bin"}, "t-unzck-dict": {"input": "arch.zck", "output": "arch.zdict"},
               "t-read_header-f": {"input": "arch.zck"}, "t-unzck-header": {"input": "arch.zck", "output": "arch.zhr"}, "t-zckdl": {"target": "tgt.zck", "source": "A.zck"}}
ST_TRACE = "trace=read,write,lseek,pread64,pwrite64,readv,writev,ftruncate"
ST_RE = None


def run_tool(sc, tools, cdir, fault, preload, probe_strace_cls=None):
    """fault: (cls, sys, k, kind, arg, via, second).  via 'S' = strace syscall injection on the class's path (independent of
    which libc entry point the tool uses), 'P' = LD_PRELOAD shim (short counts with real partial transfer, temp files, double faults)."""
    import re
    os.makedirs(cdir, exist_ok=True)
    for fn in ("out.zck", "arch", "arch.zdict", "arch.zhr", "stdout.bin", "pl.log", "st.log", "tgt.zck"):
        try:
            os.unlink(os.path.join(cdir, fn))
        except FileNotFoundError:
            pass
    if sc["kind"] == "t-zck":
        open(os.path.join(cdir, "in.dat"), "wb").write(sc["_D"])
    elif sc["kind"] == "t-zckdl":
        open(os.path.join(cdir, "A.zck"), "wb").write(sc["_A"])
        open(os.path.join(cdir, "tgt.zck"), "wb").write(sc["_T"])
    else:
        open(os.path.join(cdir, "arch.zck"), "wb").write(sc["_B"])
    argv, classes, extra = tool_cmd(sc, tools)
    env = {"PATH": os.environ.get("PATH", "/usr/bin:/bin"), "LC_ALL": "C", "TMPDIR": cdir}
    via = fault[5] if fault and len(fault) > 5 else "P"
    st_cls = probe_strace_cls or (fault[0] if fault and via == "S" else None)
    if st_cls:
        path = os.path.join(os.path.realpath(cdir), CLASS_PATHS[sc["kind"]][st_cls])
        pre = ["strace", "-f", "-o", os.path.join(cdir, "st.log"), "-P", path, "-e", ST_TRACE]
        if fault:
            sysn = {"read": "read", "write": "write", "lseek": "lseek", "ftruncate": "ftruncate"}[fault[1]]
            what = {1: "error=EIO", 2: "error=ENOSPC", 3: "error=EINTR", 5: "retval=0"}[fault[3]]
            pre += ["-e", "inject=%s:%s:when=%d" % (sysn, what, fault[2])]
        argv = pre + argv
    else:
        env.update({"LD_PRELOAD": preload, "ZCKV_CLASSES": classes, "ZCKV_LOG": os.path.join(cdir, "pl.log")})
        if fault:
            env["ZCKV_FAULT"] = "%s:%s:%d:%d:%d" % tuple(fault[:5])
            if len(fault) > 6 and fault[6]:
                env["ZCKV_FAULT2"] = "%s:%s:%d:%d:%d" % ((fault[0], fault[1]) + tuple(fault[6]))
    env.update(extra)
    r = core.run_proc(argv, cdir, env=env, stdout_path=os.path.join(cdir, "stdout.bin"))
    if st_cls:
        evs = []
        counts = {}
        try:
            for ln in open(os.path.join(cdir, "st.log"), errors="replace"):
                m = re.match(r"^\d+\s+(\w+)\(", ln)
                if not m:
                    continue
                sy = {"pread64": "read", "readv": "read", "pwrite64": "write", "writev": "write", "ftruncate64": "ftruncate"}.get(m.group(1), m.group(1))
                counts[sy] = counts.get(sy, 0) + 1
                if "(INJECTED)" in ln:
                    evs.append({"ev": "io", "INJECTED": fault[3] if fault else 0, "sys": sy, "cls": st_cls, "via": "strace", "line": ln.strip()[:160]})
        except FileNotFoundError:
            pass
        for sy, n in counts.items():
            evs.append({"ev": "iocount", "cls": st_cls, "sys": sy, "n": n, "via": "strace"})
        r.events = evs
    else:
        r.events = core.parse_log(os.path.join(cdir, "pl.log"))
    return r


def judge_tool(sc, r, cdir, fault):
    k = sc["kind"]
    tag = "%s:%s.%s:%s%s" % (k, fault[0], fault[1], KN[fault[3]], "+" + KN[fault[6][1]] if len(fault) > 6 and fault[6] else "")
    if r.rc != 0:
        return None

    def rd(fn):
        try:
            return open(os.path.join(cdir, fn), "rb").read()
        except FileNotFoundError:
            return None
    if k == "t-zck":
        out = rd("out.zck") or b""
        v = zckref.decode(out)
        if not v.valid:
            return ("c12:tool-exit0-but-output-invalid:" + tag, "zck exit 0; out.zck: %s" % v.reason)
        if v.content != sc["_D"]:
            return ("c12:tool-exit0-but-output-incomplete:" + tag, "zck exit 0; archive holds %d of %d input bytes" % (len(v.content), len(sc["_D"])))
    elif k in ("t-unzck", "t-unzck-c"):
        out = rd("arch" if k == "t-unzck" else "stdout.bin")
        if out != sc["_D"]:
            return ("c12:tool-exit0-but-output-incomplete:" + tag, "unzck exit 0; output %s bytes, content %d" % (None if out is None else len(out), len(sc["_D"])))
    elif k == "t-unzck-dict":
        out = rd("arch.zdict")
        if out != sc["_dict"]:
            return ("c12:tool-exit0-but-output-incomplete:" + tag, "unzck --dict exit 0; dictionary %s bytes of %d" % (None if out is None else len(out), len(sc["_dict"])))
    elif k == "t-unzck-header":
        out = rd("arch.zhr")
        pb = zckref.parse(sc["_B"])
        want = zckref.MAGIC_HDR + sc["_B"][5:pb.header_len + pb.chunks[0]["comp_len"]]
        if out != want:
            return ("c12:tool-exit0-but-output-incomplete:" + tag, "unzck --header exit 0; detached header %s bytes, expected %d" % (None if out is None else len(out), len(want)))
    elif k == "t-zckdl":
        out = rd("tgt.zck")
        if out != sc["_B"]:
            return ("c12:tool-exit0-but-output-incomplete:" + tag, "zckdl exit 0; target %s bytes differs from the served file (%d bytes)" % (None if out is None else len(out), len(sc["_B"])))
    elif k == "t-read_header-f":
        if fault[3] in (1, 3, 5) and fault[0] == "input" and fault[1] == "read":
            return ("c12:tool-exit0-despite-failed-read:" + tag, "zck_read_header -f exit 0 although read #%d failed" % fault[2])
    return None


def worker(case):
    cdir = case["dir"]
    keep = False
    sc = case["sc"]
    cid = core.h8([sc["name"], case["faults"]])
    stats = {"evaluations": 0}
    # decode shared blobs once
    for key in ("D", "B", "dict", "A", "T"):
        if sc.get(key) is not None and "_" + key not in sc:
            sc["_" + key] = core.unb64(sc[key])
    if sc.get("pieces") and "_pieces" not in sc:
        sc["_pieces"] = [core.unb64(x) for x in sc["pieces"]]
    try:
        nontriv = set()
        for fault in case["faults"]:
            fault = tuple(fault)
            fd = os.path.join(cdir, "f")
            core.cleanup_case(fd, False)
            if sc["kind"].startswith("t-"):
                r = run_tool(sc, case["tools"], fd, fault, case["preload"])
                crash = core.crash_signatures(r, where="tool:" + sc["kind"])
            else:
                files = {}
                if sc["kind"] in ("write", "write-retry"):
                    files["in.dat"] = sc["_D"]
                    if sc.get("_dict"):
                        files["dict.bin"] = sc["_dict"]
                elif sc["kind"] in ("copy", "copy-retry", "update"):
                    files["src.zck"] = sc["_A"]
                    files["B.zck"] = sc["_B"]
                    if sc.get("_T") is not None:
                        files["tgt.zck"] = sc["_T"]
                else:
                    files["f.zck"] = sc["_B"]
                r = core.run_zh(case["zh"], fd, lib_script(sc, fault), files, name="flt")
                crash = core.crash_signatures(r)
            stats["evaluations"] += 1
            if r.timed_out and not r.cpu_exceeded:
                return core.verdict(cid, "inconclusive", detail="watchdog", case=case)
            inj = [e for e in r.events if e.get("INJECTED")]
            need = 2 if len(fault) > 6 and fault[6] else 1
            if len(inj) < need:
                stats["fault_points_not_reached"] = stats.get("fault_points_not_reached", 0) + 1
                continue
            stats["faults_fired"] = stats.get("faults_fired", 0) + 1
            stats["fired_%s.%s" % (fault[0], fault[1])] = stats.get("fired_%s.%s" % (fault[0], fault[1]), 0) + 1
            viol = None
            if crash:
                viol = (crash[0], "crash under fault %s: %s" % (fault, crash))
            else:
                viol = judge_tool(sc, r, fd, fault) if sc["kind"].startswith("t-") else judge_lib(sc, r, fd, fault)
                succ = (r.rc == 0) if sc["kind"].startswith("t-") else None
                if succ:
                    stats["tool_exit0_under_fault"] = stats.get("tool_exit0_under_fault", 0) + 1
            if viol:
                keep = True
                return core.verdict(cid, "violated", [viol[0]], stats, detail=viol[1] + " scenario=%s fault=%s" % (sc["name"], fault), cdir=fd, case=case)
            nontriv.add(core.h8([sc["name"], fault]))
        return core.verdict(cid, "held", stats=stats, nontrivial=nontriv,
                            sample={"scenario": sc["name"], "faults": [list(f) for f in case["faults"][:5]], "fault_free_counts": case["counts"]})
    finally:
        core.cleanup_case(cdir, keep)


class C12(core.Check):
    prop = "C12"
    level = "fault_enumeration"
    flavours = ["asan", "plain"]
    rule = ("scenarios: library write (none / zstd / zstd+dict, auto and manual chunking), read, validate-all, validate-data, find-valid, chunk data, copy_chunks (also with the caller clearing the error and copying again on the same contexts), "
            "update procedure; tools zck (plain, -m -s, -u), unzck, unzck -c, unzck --dict, unzck --header, zck_read_header -f, zckdl -s (against the loopback range server).  Per scenario the fault-free run counts calls per "
            "(descriptor class in {input, output, temp, source, target, stdout} x {read, write, lseek, ftruncate}); EVERY k-th call x every fault kind "
            "{EIO, ENOSPC, EINTR, short with real partial transfer of 0/1/3/5 bytes, read()=0} is executed (exhaustive per scenario). distinct = (scenario, fault)")
    assumptions = ["every byte moves through read/write/lseek/ftruncate on classified descriptors (grep over src/)", "(INJECTED) log lines prove each fault fired",
                   "reference decoder defines 'complete, correct output'"]
    worker = staticmethod(worker)

    def prepare(self, fl):
        a = fl["asan"]
        pl = fl["plain"]
        so = os.path.join(pl.dir, "preload_io.so")
        build._run(["gcc", "-O1", "-g", "-shared", "-fPIC", "-o", so, os.path.join(core.VERIF, "harness", "preload_io.c"), "-ldl"], what="preload_io.so")
        import rangesrv
        self.srv = rangesrv.Server(self.work)
        return {"zh": build.zh(a), "preload": so, "tools": {t: pl.tool(t) for t in ("zck", "unzck", "zck_read_header", "zckdl")}, "www": self.srv.www, "port": self.srv.port}

    def post(self, verdicts, ctx):
        self.srv.stop()
        return []

    def cases(self, ctx):
        r = core.rng(self.seed, "C12", "gen")
        q = self.quick
        scs = []
        D = gen.content("text", 70000, 1) + gen.content("random", 20000, 2)
        Dsmall = gen.content("license", 9000, 3)
        dict_b = gen.content("license", 500, 4)
        # library writer
        scs.append({"name": "write-none-auto", "kind": "write", "cfg": {"comp": 0}, "seg": [30000], "D": core.b64(D)})
        scs.append({"name": "write-zstd-manual", "kind": "write", "cfg": {"comp": 2, "manual": True, "level": 1}, "seg": [4000, "e", 3000, "e"], "D": core.b64(Dsmall)})
        scs.append({"name": "write-zstd-dict", "kind": "write", "cfg": {"comp": 2, "dict": "dict.bin", "level": 1, "manual": True}, "seg": [5000, "e"], "D": core.b64(Dsmall),
                    "dict": core.b64(dict_b)})
        scs.append({"name": "write-retry-zstd", "kind": "write-retry", "cfg": {"comp": 2, "manual": True, "level": 1}, "seg": [2500, "e", 3000, "e"], "D": core.b64(Dsmall)})
        scs.append({"name": "write-retry-none", "kind": "write-retry", "cfg": {"comp": 0, "manual": True}, "seg": [4000, "e"], "D": core.b64(Dsmall)})
        if not q:
            scs.append({"name": "write-zstd-auto-big", "kind": "write", "cfg": {"comp": 2, "level": 1}, "seg": [65536], "D": core.b64(D * 4)})
            scs.append({"name": "write-none-uncomp", "kind": "write", "cfg": {"comp": 0, "uncomp": True, "chunk_hash": 1}, "seg": [1000, "e"], "D": core.b64(Dsmall)})
        # files for the reader-side scenarios
        # "-dup": a run of byte-identical chunks (zeroed blocks of an image, repeated records), shared with the source
        # "-zeros": content with whole 32 KiB blocks of zeros (disk images): tools that treat such blocks specially do so here
        variants = [([3000, 40000, 100, 7000], 3, False, ""), ([1500, 2000, 2000, 2000, 2000, 700], 3, False, "-dup"), ([3000, 100000, 500], 1, False, "-zeros")]
        if not q:
            # thorough: the same scenario families over differently shaped files (more / larger / single chunks, other checksum types,
            # uncompressed-source flag, no dictionary), so that every fault point exists at other buffer and chunk alignments too
            variants += [([32768, 32769, 1, 65536, 5], 1, False, "-v1"), ([200000], 2, False, "-v2"), ([900, 1000, 1100, 1200, 1300, 1400, 1500, 1600], 0, False, "-v3"),
                         ([5000, 33000, 70], 1, True, "-v4")]
        for sizes_, cht_, uncomp_, vtag in variants:
          pieces = [gen.content("text", n, i) for i, n in enumerate(sizes_)]
          if vtag == "-dup":
              pieces[2] = pieces[3] = pieces[4] = pieces[1]
          if vtag == "-zeros":
              pieces[1] = bytes(len(pieces[1]))
          nbefore = len(scs)
          for comp in ((0, 2) if not q else (2,)):
            vdict = b"" if (uncomp_ or vtag == "-v3") else dict_b
            B = zckref.make_file(pieces, comp_type=comp, dict_bytes=vdict, chunk_hash_type=cht_, uncomp=uncomp_)
            v = zckref.decode(B)
            base = {"B": core.b64(B), "D": core.b64(v.content), "dict": core.b64(vdict), "pieces": [core.b64(x) for x in v.pieces]}
            comp = "%d%s" % (comp, vtag)
            scs.append(dict(base, name="read-c%s" % comp, kind="read", sizes=[4096]))
            scs.append(dict(base, name="read1-c%s" % comp, kind="read", sizes=[1, 70000]))
            scs.append(dict(base, name="read-retry-c%s" % comp, kind="read-retry", sizes=[4096]))
            scs.append(dict(base, name="read-retry32k-c%s" % comp, kind="read-retry", sizes=[32768, 1000]))
            scs.append(dict(base, name="open-steps-c%s" % comp, kind="open-steps"))
            for k in ("vc", "vd", "fv"):
                scs.append(dict(base, name="%s-c%s" % (k, comp), kind=k))
            scs.append(dict(base, name="chunkdata-c%s" % comp, kind="chunkdata", chunks=[x % (len(pieces) + 1) for x in [2, 0, 4, 1, 2]]))
            # copy / update: A shares pieces 0 and 2
            A = zckref.make_file([pieces[0], b"other" * 50] + (pieces[1:5] if vtag == "-dup" else [pieces[min(2, len(pieces) - 1)]]), comp_type=int(comp[0]), dict_bytes=vdict,
                                 chunk_hash_type=cht_, uncomp=uncomp_)
            p = zckref.parse(B)
            T = bytearray(B)
            for c in p.chunks[1:]:
                a = p.header_len + c["start"]
                T[a:a + c["comp_len"]] = bytes(c["comp_len"])
            scs.append(dict(base, name="copy-c%s" % comp, kind="copy", A=core.b64(A), T=core.b64(bytes(T))))
            scs.append(dict(base, name="copy-retry-c%s" % comp, kind="copy-retry", A=core.b64(A), T=core.b64(bytes(T))))
            scs.append(dict(base, name="update-c%s" % comp, kind="update", A=core.b64(A), T=None, limit=2, style=0, frag="n:16384"))
            scs.append(dict(base, name="update-chained-c%s" % comp, kind="update", chain=1, A=core.b64(A), T=None, limit=2, style=0, frag="n:16384"))
            if not q:
                scs.append(dict(base, name="update-mp-c%s" % comp, kind="update", A=core.b64(A), T=core.b64(bytes(T[: len(T) // 2])), limit=-1, style=4, frag="rand:7:5000"))
            # tools
            scs.append(dict(base, name="t-unzck-c%s" % comp, kind="t-unzck"))
            scs.append(dict(base, name="t-unzck-c-c%s" % comp, kind="t-unzck-c"))
            if vdict:
                scs.append(dict(base, name="t-unzck-dict-c%s" % comp, kind="t-unzck-dict"))
            scs.append(dict(base, name="t-read_header-f-c%s" % comp, kind="t-read_header-f"))
            scs.append(dict(base, name="t-unzck-header-c%s" % comp, kind="t-unzck-header"))
            wd = os.path.join(ctx["www"], "c12-c%s" % comp)
            os.makedirs(wd, exist_ok=True)
            open(os.path.join(wd, "tgt.zck"), "wb").write(B)
            scs.append(dict(base, name="t-zckdl-c%s" % comp, kind="t-zckdl", A=core.b64(A), T=core.b64(bytes(T[: len(T) * 2 // 3])),
                            url="http://127.0.0.1:%d/~maxr=2/c12-c%s/tgt.zck" % (ctx["port"], comp)))
          if vtag == "-zeros":
              scs[nbefore:] = [x for x in scs[nbefore:] if x["kind"] in ("t-unzck", "t-unzck-c", "copy", "read")]
          if vtag == "-dup":
              # only the scenarios in which chunks are copied / scanned / read (the tools were enumerated on the first shape)
              scs[nbefore:] = [x for x in scs[nbefore:] if x["kind"] in ("copy", "copy-retry", "update", "fv", "vc", "read", "read-retry")]
        scs.append({"name": "t-zck-default", "kind": "t-zck", "args": [], "D": core.b64(D)})
        scs.append({"name": "t-zck-split", "kind": "t-zck", "args": ["-m", "-s", "</text:p>"], "D": core.b64(D)})
        if not q:
            scs.append({"name": "t-zck-none-u", "kind": "t-zck", "args": ["--compression-format", "none", "-u", "-h", "sha256"], "D": core.b64(D)})
        out = []
        for sc in scs:
            # fault-free run -> counts
            w = {"dir": os.path.join(self.work, "probe_" + sc["name"]), "sc": dict(sc), "faults": [], "zh": ctx["zh"], "tools": ctx["tools"], "preload": ctx["preload"], "counts": {}}
            counts, pcounts, bypass = self.probe(w)
            if not counts:
                raise RuntimeError("fault-free run of %s observed no I/O" % sc["name"])
            for b_ in bypass:
                self.extra_cov.setdefault("io_not_visible_to_preload_shim(strace used)", set()).add("%s:%s.%s" % (sc["name"], b_[0], b_[1]))
            faults = []
            for (cls, sys_), n in sorted(counts.items()):
                if sys_ not in ("read", "write", "lseek", "ftrunc", "ftruncate"):
                    continue
                if sys_.startswith("ftrunc") and not sc["kind"].startswith("t-"):
                    # the harness's own ftruncate in the update analogue is not library I/O
                    continue
                ks = list(range(1, n + 1))
                cap = 60 if q else 400
                if len(ks) > cap:
                    ks = sorted(set(ks[:cap // 2] + ks[-cap // 4:] + r.sample(ks, cap // 4)))
                    self.exhaustive = False
                is_tool = sc["kind"].startswith("t-")
                for k in ks:
                    for kind, arg in kinds_for(sys_):
                        if sc["kind"] == "t-zck" and cls == "input" and kind == 5:
                            continue  # read()==0 on the file to be compressed IS end of input, not a failure the tool could notice
                        via = "P"
                        if is_tool and cls in CLASS_PATHS[sc["kind"]] and kind != 4:
                            via = "S"   # syscall-level injection: sees the I/O whatever libc entry point the tool uses
                        if via == "P" and (cls, sys_) not in pcounts:
                            continue
                        if via == "P" and k > pcounts[(cls, sys_)]:
                            continue
                        faults.append((cls, sys_, k, kind, arg, via, None))
                    # two consecutive short transfers on the same descriptor (the retry is short as well)
                    if sys_ == "write" and (cls, sys_) in pcounts and k < pcounts[(cls, sys_)] + 1:
                        for a1, a2 in ((1, 1), (0, 0), (3, 2)):
                            faults.append((cls, sys_, k, 4, a1, "P", (k + 1, 4, a2)))
                    # a short transfer followed by a failing call (interrupted while blocked on a slow descriptor)
                    if sys_ == "write" and (cls, sys_) in pcounts and k < pcounts[(cls, sys_)] + 1:
                        for a1, k2 in ((1, 3), (4096, 3), (1000, 1)):
                            faults.append((cls, sys_, k, 4, a1, "P", (k + 1, k2, 0)))
                    if sys_ == "read" and (cls, sys_) in pcounts and k < pcounts[(cls, sys_)]:
                        faults.append((cls, sys_, k, 4, 1, "P", (k + 1, 1, 0)))
            self.count("fault_points_enumerated", len(faults))
            self.count("scenarios", 1)
            cnt = {"%s.%s" % k: v for k, v in counts.items()}
            for i in range(0, len(faults), 25):
                out.append({"sc": {k_: v_ for k_, v_ in sc.items() if not k_.startswith("_")}, "faults": faults[i:i + 25], "zh": ctx["zh"], "tools": ctx["tools"], "preload": ctx["preload"], "counts": cnt})
        if self.exhaustive is None:
            self.exhaustive = True
        return out

    def probe(self, w):
        """Fault-free run(s).  Returns (counts per (class, syscall), counts seen by the in-process/preload interposer, bypassed keys)."""
        sc = w["sc"]
        for key in ("D", "B", "dict", "A", "T"):
            if sc.get(key) is not None:
                sc["_" + key] = core.unb64(sc[key])
        d = w["dir"]
        if sc["kind"].startswith("t-"):
            r = run_tool(sc, w["tools"], d, None, w["preload"])
            if r.rc != 0:
                raise RuntimeError("fault-free tool run %s failed: rc=%s %r" % (sc["name"], r.rc, r.stderr[-300:]))
            pcounts = {(e["cls"], e["sys"]): e["n"] for e in r.events if e.get("ev") == "iocount"}
            counts = dict(pcounts)
            bypass = []
            for cls in CLASS_PATHS[sc["kind"]]:
                rs = run_tool(sc, w["tools"], d, None, w["preload"], probe_strace_cls=cls)
                if rs.rc != 0:
                    raise RuntimeError("fault-free strace run %s failed: rc=%s %r" % (sc["name"], rs.rc, rs.stderr[-300:]))
                for e in rs.events:
                    if e.get("ev") == "iocount" and e["sys"] in ("read", "write", "lseek", "ftruncate"):
                        key = (cls, e["sys"])
                        if pcounts.get(key, 0) == 0 and e["n"] > 0:
                            bypass.append(key)
                        counts[key] = max(counts.get(key, 0), e["n"])
            return counts, pcounts, bypass
        files = {}
        if sc["kind"] in ("write", "write-retry"):
            files["in.dat"] = sc["_D"]
            if sc.get("_dict"):
                files["dict.bin"] = sc["_dict"]
        elif sc["kind"] in ("copy", "copy-retry", "update"):
            files["src.zck"] = sc["_A"]
            files["B.zck"] = sc["_B"]
            if sc.get("_T") is not None:
                files["tgt.zck"] = sc["_T"]
        else:
            files["f.zck"] = sc["_B"]
        r = core.run_zh(w["zh"], d, lib_script(sc), files, name="probe")
        if not r.ended:
            raise RuntimeError("fault-free run %s did not finish: %s" % (sc["name"], r.harness_error))
        counts = {}
        for e in r.events:
            if e.get("ev") == "iocount":
                counts[(e["cls"], e["sys"])] = e["n"]
        return counts, dict(counts), []
