"""C03 - memory safety and termination on arbitrary file input.
Monitor: ASan + UBSan (fatal), signals and a CPU-time bound on (a) the op
interpreter running fixed and random programs of public API calls over the
hostile file (as file, as detached header, as delta source and as target) and
(b) every command-line tool given that file.  Inputs: re-sealed boundary grid
from the reference writer, headers cut at every byte, raw and structure-aware
mutations of valid files, the C13 header generator, plus (stage 2) libFuzzer
over a re-sealing target with the same sanitizers."""
import glob
import os
import re
import shutil
import sys

sys.path.insert(0, os.path.join(os.path.dirname(os.path.abspath(__file__)), "..", "lib"))
sys.path.insert(0, os.path.dirname(os.path.abspath(__file__)))
import basefiles
import build
import core
import gen
import hostile
import zckref

API_OPS = ["meta 1", "flags 1", "vc 1", "vd 1", "fv 1", "missing 1", "failed 1", "reset_failed 1", "hashdb 1", "is_error 1", "clear_error 1",
           "read 1 1", "read 1 100", "read 1 40000", "readall 1 1 4096", "readall 1 0 1 7 100000",
           "chunkdata 1 0", "chunkdata 1 1", "chunkdata 1 2", "chunkdata 1 9", "chunkcomp 1 0", "chunkcomp 1 1", "chunkcomp 1 3",
           "chunkdata 1 1 5", "chunkcomp 1 1 5", "chunkdata 1 2 0",
           "range 2 1 -1", "range 3 1 2", "range 4 1 0", "range_free 2", "copy 5 1", "copy 1 5", "match 5 1", "match 1 5", "close 1",
           "cmpchunk 1 0 5 0", "cmpchunk 5 1 1 1", "cmpchunk 1 1 5 1", "cmpchunk 6 1 1 1", "cmpchunk 1 1 6 1", "copy 6 1", "match 1 6",
           "read_header 1", "read_lead 1", "validate_lead 1", "seek 1 0", "read_header 1", "chunkdata 1 1", "readall 1 1 4096"]


def fixed_programs(nchunks_hint):
    last = max(1, nchunks_hint - 1)
    progs = []
    # 1: inspection + every getter, ranges before any validation
    progs.append(["meta 1", "missing 1", "failed 1", "range 2 1 -1", "range_free 2", "range 2 1 1", "range_free 2", "hashdb 1", "flags 1", "close 1"])
    # 2: random access incl. dictionary, last chunk, out-of-range numbers
    progs.append(["chunkdata 1 0", "chunkdata 1 1", "chunkcomp 1 1", "chunkdata 1 %d" % last, "chunkcomp 1 %d" % last, "chunkdata 1 %d" % (last + 1),
                  "chunkdata 1 1 3", "chunkdata 1 0", "close 1"])
    # 3: validations then streaming read
    progs.append(["vc 1", "flags 1", "vd 1", "fv 1", "flags 1", "range 2 1 -1", "range_free 2", "readall 1 2 4096", "close 1"])
    # 4: plain streaming read with small buffers
    progs.append(["readall 1 1 1 7 100", "close 1"])
    # 5: as delta source for a valid target, as target of a valid source, uncompressed matching
    progs.append(["copy 1 5", "flags 5", "copy 5 1", "flags 1", "match 1 5", "match 5 1",
                  "cmpchunk 1 1 5 1", "cmpchunk 5 1 1 1", "cmpchunk 1 1 6 1", "cmpchunk 6 1 1 1", "cmpchunk 1 0 6 0", "match 1 6", "match 6 1", "close 1"])
    # 6: data-length / first-chunk getters and reads after a failed validation with the error cleared
    progs.append(["vc 1", "clear_error 1", "meta 1", "chunkdata 1 1", "clear_error 1", "readall 1 1 512", "clear_error 1", "range 2 1 -1", "close 1"])
    # 7: the header parsed a second time on the same context (zckdl's no-range fallback does exactly this), from the current position and
    #    after rewinding, then everything that uses what the parser left behind
    progs.append(["read_header 1", "meta 1", "seek 1 0", "read_lead 1", "read_header 1", "meta 1", "chunkdata 1 1", "vc 1", "readall 1 1 4096", "validate_lead 1", "close 1"])
    return progs


def script_for(prog, mode):
    L = ["noout 1", "fopen 5 good.zck rw target", "create 5", "init_read 5 5", "fv 5", "reset_failed 5",
         "fopen 6 good2.zck rw target", "create 6", "init_read 6 6"]
    if mode == "adv":
        L += ["fopen 1 f.zck rw input", "create 1", "init_adv_read 1 1", "read_lead 1", "read_header 1"]
    else:
        L += ["fopen 1 f.zck rw input", "create 1", "init_read 1 1"]
    L += prog
    L += ["free 1", "free 5", "free 6"]
    return "\n".join(L) + "\n"


ASSERT_RE = re.compile(rb"Assertion `[^']*' failed")


def tool_runs(tools, cdir):
    """(name, argv, needs) for every tool invocation."""
    f = "f.zck"
    return [
        ("unzck", [tools["unzck"], f]),
        ("unzck-c", [tools["unzck"], "-c", f]),
        ("unzck-dict", [tools["unzck"], "--dict", f]),
        ("unzck-header", [tools["unzck"], "--header", f]),
        ("read_header", [tools["zck_read_header"], f]),
        ("read_header-c", [tools["zck_read_header"], "-c", f]),
        ("read_header-f", [tools["zck_read_header"], "-f", f]),
        ("read_header-cfq", [tools["zck_read_header"], "-c", "-f", "-q", f]),
        ("delta_size-1", [tools["zck_delta_size"], f, "good.zck"]),
        ("delta_size-2", [tools["zck_delta_size"], "good.zck", f]),
        ("delta_size-both", [tools["zck_delta_size"], f, f]),
        ("gen_zdict", [tools["zck_gen_zdict"], "--dir", "zd", f]),
        ("zckdl-source", [tools["zckdl"], "-s", f, "http://127.0.0.1:9/none.zck"]),
    ]


def worker(case):
    cdir = case["dir"]
    keep = False
    data = core.unb64(case["data"])
    cid = core.h8([case["desc"], gen.sha(data)[:16], case["progs"], bool(case.get("tools"))])
    stats = {"evaluations": 0}
    viols = []
    try:
        os.makedirs(cdir, exist_ok=True)
        good = core.unb64(case["good"])
        gate = False
        for pi, (mode, prog) in enumerate(case["progs"]):
            files = {"f.zck": data, "good.zck": good, "good2.zck": core.unb64(case["good2"])}
            r = core.run_zh(case["zh"], cdir, script_for(prog, mode), files, name="p%d" % pi)
            stats["evaluations"] += 1
            stats["api_calls"] = stats.get("api_calls", 0) + len([e for e in r.events if "op" in e])
            if r.timed_out and not r.cpu_exceeded:
                return core.verdict(cid, "inconclusive", detail="watchdog in program %d" % pi, case=case)
            calls = {e["i"]: e["call"] for e in r.events if "call" in e}
            for e in r.events:
                if e.get("op") in ("init_read", "read_header") and e.get("rc") == 1 and calls.get(e.get("i"), "") in ("init_read 1 1", "read_header 1"):
                    gate = True   # the hostile input itself passed the header checksum gate
            cs = core.crash_signatures(r)
            if cs:
                viols.append((cs[0], "program %d (%s) op '%s': %s" % (pi, mode, r.open_call, cs)))
                break
            if r.harness_error:
                return core.verdict(cid, "inconclusive", detail="harness: %s" % r.harness_error, case=case)
        if case.get("mc_zh") and not viols:
            # second monitor: the uninstrumented build under valgrind memcheck (sees accesses made inside libzstd/libcrypto)
            for pi, (mode, prog) in enumerate(case["progs"]):
                if pi not in case["mc_progs"]:
                    continue
                files = {"f.zck": data, "good.zck": good, "good2.zck": core.unb64(case["good2"])}
                r = core.run_zh(case["mc_zh"], cdir, script_for(prog, mode), files, name="m%d" % pi, cpu=core.MEMCHECK_CPU,
                                prefix=core.memcheck_prefix(cdir, "vg%d" % pi))
                stats["evaluations"] += 1
                stats["memcheck_runs"] = stats.get("memcheck_runs", 0) + 1
                if r.timed_out or r.cpu_exceeded:
                    stats["memcheck_timeouts(inconclusive)"] = stats.get("memcheck_timeouts(inconclusive)", 0) + 1
                    continue
                ms, unin = core.memcheck_report(cdir, "vg%d" % pi)
                stats["memcheck_uninitialised_observations(not counted)"] = stats.get("memcheck_uninitialised_observations(not counted)", 0) + unin
                if not ms and r.sig is not None:
                    ms = core.crash_signatures(r)
                if ms:
                    viols.append((ms[0], "memcheck, program %d (%s): %s" % (pi, mode, ms)))
                    break
        if case.get("tools") and not viols:
            os.makedirs(os.path.join(cdir, "zd"), exist_ok=True)
            for name, argv in tool_runs(case["tools"], cdir):
                if case["tool_subset"] and name not in case["tool_subset"]:
                    continue
                for fn, b in (("f.zck", data), ("good.zck", good)):
                    open(os.path.join(cdir, fn), "wb").write(b)
                for junk in glob.glob(os.path.join(cdir, "san.*")):
                    os.unlink(junk)
                r = core.run_proc(argv, cdir, stdout_path=os.path.join(cdir, "tool.out"))
                stats["evaluations"] += 1
                stats["tool_runs"] = stats.get("tool_runs", 0) + 1
                if r.timed_out and not r.cpu_exceeded:
                    return core.verdict(cid, "inconclusive", detail="watchdog in tool %s" % name, case=case)
                if r.rc == 0:
                    stats["tool_exit0"] = stats.get("tool_exit0", 0) + 1
                    gate = True
                cs = core.crash_signatures(r, where="tool:" + name)
                if cs and ASSERT_RE.search(r.stderr) and all("ABRT" in s or "SIGABRT" in s for s in cs):
                    stats["tool_assert_aborts(not counted)"] = stats.get("tool_assert_aborts(not counted)", 0) + 1
                    cs = []
                if cs:
                    viols.append((cs[0] if not cs[0].startswith("hang") else "hang:cpu>%ds:tool:%s" % (core.CPU_LIMIT, name), "tool %s: %s stderr=%r" % (name, cs, r.stderr[-300:])))
                    open(os.path.join(cdir, "tool.cmd"), "w").write(" ".join(argv))
                    break
        if viols:
            keep = True
            return core.verdict(cid, "violated", sorted(set(v[0] for v in viols)), stats, detail="; ".join(v[1] for v in viols)[:900] + " input=%s" % case["desc"], cdir=cdir, case=case)
        return core.verdict(cid, "held", stats=stats, nontrivial=gate, sample={"input": case["desc"], "bytes": len(data), "programs": [p[1][:4] for p in case["progs"][:2]],
                                                                              "passed_header_gate": gate})
    finally:
        core.cleanup_case(cdir, keep)


class C03(core.Check):
    prop = "C03"
    flavours = ["asan", "fuzz", "plain"]
    rule = ("inputs: reference-writer boundary grid (every numeric field x {0,1,127,128,2^31-1,2^31,2^32,2^63,2^64-1, 10/11/16-byte, unterminated, missing}), "
            "headers cut at every byte with the declared size following the cut, length fields +-1/2 around their buffer end, flag-4 short indexes, "
            "sealed zstd files with hostile dictionaries (zstd dictionary magic + garbage, empty, not a frame), C13's header generator, raw + re-sealed structural mutations of valid files - all with a correct header checksum unless raw; each run through "
            "7 fixed API programs (inspection, random access, validation+read, streaming, copy/match as source and as target, error-clear-continue, header parsed twice) in "
            "init_read and init_adv_read modes, 2 random programs, and (sampled) all tool invocations; a sample of inputs again on the uninstrumented build under "
            "valgrind memcheck (invalid accesses counted, uninitialised-value messages only recorded); stage 2: libFuzzer (re-sealing target) with ASan+UBSan. "
            "non-trivial = input that passed the header checksum gate in at least one consumer; distinct = (input bytes, programs)")
    assumptions = ["counted: ASan/UBSan reports, SIGSEGV/BUS/FPE/ILL/ABRT, CPU time > 20 s per process; not counted: leaks, nonnull-attribute, tool assert() on absurd allocation"]
    worker = staticmethod(worker)

    def prepare(self, fl):
        a = fl["asan"]
        tools = {t: a.tool(t) for t in ("unzck", "zck_read_header", "zck_delta_size", "zck_gen_zdict", "zckdl")}
        ctx = {"zh": build.zh(a), "tools": tools, "mc_zh": build.zh(fl["plain"])}
        try:
            ctx["fz"] = self.build_fuzzer(fl["fuzz"])
        except build.BuildError as e:
            raise
        return ctx

    def build_fuzzer(self, f):
        return f.harness("fz_file", ["fz_file.c"], extra_cflags=["-fsanitize=fuzzer"], extra_ld=["-fsanitize=fuzzer"])

    def inputs(self, ctx):
        r = core.rng(self.seed, "C03", "inputs")
        q = self.quick
        out = []
        out += hostile.grid_cases(r, q)
        out += hostile.cut_cases(r, q)
        out += hostile.length_edge_cases(r, q)
        out += hostile.dict_cases(r, q)
        # scale: indexes far beyond the few thousand entries of any fixture (tables that are grown in steps only grow then)
        for nbig in ([20000] if q else [16385, 20000, 70000]):
            out.append(("scale:%d-chunks" % nbig, zckref.make_file([b"%c" % (65 + (k % 26)) * (1 + k % 3) for k in range(nbig)], comp_type=0, chunk_hash_type=3, hash_type=1)))
        # C13's header generator (valid + mutated headers), with some body bytes appended
        import c13

        class _C:
            pass
        cc = _C()
        cc.seed = self.seed + 3
        cc.quick = True
        specs = c13.gen_cases(cc)
        r.shuffle(specs)
        for s in specs[:300 if q else 2400]:
            try:
                img = zckref.build(**c13._deser(s["spec"]))
            except Exception:
                continue
            out.append(("c13:" + s.get("desc", s["kind"]), img + r.randbytes(r.choice([0, 0, 64, 3000]))))
        # mutations of valid files
        import c02
        bases = basefiles.small_set(ctx["zh"], self.work, self.seed + 3, count=6 if q else None)
        bases += basefiles.ref_set(self.seed + 3, 2 if q else 8)
        for b in bases:
            ms = c02.raw_mutants(r, b, True) + c02.struct_mutants(r, b, q)
            if q:
                r.shuffle(ms)
                ms = ms[:60]
            for name, desc, d in ms:
                out.append(("%s:%s:%s" % (b["name"], name, desc), d))
        # the suite's own malformed fixtures and valid files
        for fn in sorted(glob.glob(os.path.join(build.REPO, "test/files/*.zck"))):
            d = open(fn, "rb").read()
            if len(d) < (1 << 20):
                out.append(("suite:" + os.path.basename(fn), d))
        self.good = bases[0]["data"]
        # a second well-formed partner whose chunk checksums are the LONGEST type (64 bytes): comparisons against shorter ones must not over-read
        self.good2 = zckref.make_file([b"partner-%d" % k * 9 for k in range(3)], comp_type=0, chunk_hash_type=2, hash_type=2)
        return out

    def cases(self, ctx):
        r = core.rng(self.seed, "C03", "progs")
        ins = self.inputs(ctx)
        self.count("inputs", len(ins))
        out = []
        for i, (desc, data) in enumerate(ins):
            try:
                nch = len(zckref.parse(data).chunks)
            except zckref.Invalid:
                nch = 3
            progs = [(("adv" if (i + k) % 4 == 3 else "std"), p) for k, p in enumerate(fixed_programs(nch))]
            for _ in range(2):
                progs.append((r.choice(["std", "std", "adv"]), [r.choice(API_OPS) for _ in range(r.randrange(3, 13))]))
            tools = None
            subset = None
            if (i % (8 if self.quick else 3)) == 0 or desc.startswith(("grid:chunk", "edge:", "c13:valid", "dict:", "scale:")):
                tools = ctx["tools"]
            out.append({"desc": desc, "data": core.b64(data), "good": core.b64(self.good), "good2": core.b64(self.good2), "progs": progs, "zh": ctx["zh"], "tools": tools, "tool_subset": subset})
        # memcheck sample: half from mutants of valid files (they get past the gate and into the decompressor), half from anywhere
        rm = core.rng(self.seed, "C03", "memcheck")
        deep = [c for c in out if not c["desc"].startswith(("grid:", "cut:", "edge:", "suite:"))]
        deep += [c for c in out if c["desc"].startswith("dict:")] * 3
        n = 24 if self.quick else 1500
        pick = rm.sample(deep, min(len(deep), n // 2)) + rm.sample(out, min(len(out), n - n // 2))
        for c in pick:
            c["mc_zh"] = ctx["mc_zh"]
            c["mc_progs"] = sorted(rm.sample(range(len(c["progs"])), 3)) if self.quick else list(range(len(c["progs"])))
        return out

    def post(self, verdicts, ctx):
        """Stage 2: libFuzzer over the re-sealing target."""
        runs = 100000 if self.quick else 3000000
        jobs = 16
        corpus = os.path.join(self.work, "corpus")
        os.makedirs(corpus, exist_ok=True)
        for fn in glob.glob(os.path.join(build.REPO, "test/files/*.zck")):
            d = open(fn, "rb").read()
            if len(d) <= 65536:
                open(os.path.join(corpus, os.path.basename(fn)), "wb").write(b"\x00\x00" + d)
        r = core.rng(self.seed, "C03", "corpus")
        for k, (desc, img) in enumerate(hostile.grid_cases(r, True)[:200]):
            open(os.path.join(corpus, "g%d" % k), "wb").write(bytes([1, k & 0xff]) + img[:65000])
        import subprocess
        procs = []
        for j in range(jobs):
            jd = os.path.join(self.work, "fz%d" % j)
            os.makedirs(jd, exist_ok=True)
            env = core.san_env(jd)
            env["ASAN_OPTIONS"] = core.ASAN_OPTS.replace("detect_stack_use_after_return=1", "detect_stack_use_after_return=0") + ":quarantine_size_mb=8"
            env["UBSAN_OPTIONS"] = "print_stacktrace=1:halt_on_error=1"
            if j % 4 == 3:
                env["FZ_DEBUG_LOG"] = "1"     # a quarter of the jobs with the library logging at DEBUG level (to /dev/null)
            cmd = [ctx["fz"], "-runs=%d" % runs, "-seed=%d" % (self.seed * 100 + j + 1), "-max_len=65536", "-timeout=25", "-rss_limit_mb=4096",
                   "-artifact_prefix=" + jd + "/", "-print_final_stats=1", "-close_fd_mask=0", "-max_total_time=%d" % (150 if self.quick else 3000), corpus]
            lf = open(os.path.join(jd, "log"), "wb")
            procs.append((j, jd, subprocess.Popen(cmd, cwd=jd, env=env, stdout=lf, stderr=subprocess.STDOUT), lf))
        out = []
        total_execs = 0
        for j, jd, p, lf in procs:
            try:
                p.wait(timeout=300 if self.quick else 4000)
            except subprocess.TimeoutExpired:
                p.kill()
                p.wait()
                out.append(core.verdict("fuzz-job%d" % j, "inconclusive", detail="fuzzer job watchdog"))
                continue
            lf.close()
            log = open(os.path.join(jd, "log"), errors="replace").read()
            m = re.search(r"stat::number_of_executed_units:\s*(\d+)", log)
            ex = int(m.group(1)) if m else 0
            total_execs += ex
            arts = [a for a in glob.glob(os.path.join(jd, "*")) if os.path.basename(a).startswith(("crash-", "timeout-", "oom-", "leak-"))]
            cov = re.findall(r"cov: (\d+)", log)
            st = {"evaluations": ex, "fuzz_execs": ex, "fuzz_edges_max": [int(cov[-1])] if cov else []}
            if arts:
                sigs = core.san_signatures(log)
                kind = os.path.basename(arts[0]).split("-")[0]
                if not sigs:
                    sigs = ["fuzz:%s" % ("hang:cpu>25s:fz_file" if kind == "timeout" else kind)]
                cdir = os.path.join(self.work, "fzart%d" % j)
                os.makedirs(cdir, exist_ok=True)
                shutil.copy(arts[0], os.path.join(cdir, "artifact"))
                open(os.path.join(cdir, "fuzz.log"), "w").write(log[-20000:])
                out.append(core.verdict("fuzz-job%d" % j, "violated", [sigs[0]], st, detail="libFuzzer artifact %s (replay: fz_file <artifact>): %s" % (os.path.basename(arts[0]), sigs),
                                        cdir=cdir, case={"fuzz_artifact": True}))
            elif p.returncode != 0:
                out.append(core.verdict("fuzz-job%d" % j, "inconclusive", stats=st, detail="fuzzer exited %s without artifact: %s" % (p.returncode, log[-300:])))
            else:
                out.append(core.verdict("fuzz-job%d" % j, "held", stats=st, nontrivial=["fuzz-job%d" % j] if ex > 1000 else False,
                                        sample={"libfuzzer_job": j, "execs": ex, "edges": st["fuzz_edges_max"]}))
        return out
