"""C15 - a unit-decoded (zstd) chunk is verified before any of its bytes are
released.  Monitor: every successful zck_read is attributed, by cumulative
uncompressed offset, to chunks of the index; a byte attributed to a chunk
whose stored bytes do not hash to its checksum is a violation."""
import os
import sys

sys.path.insert(0, os.path.join(os.path.dirname(os.path.abspath(__file__)), "..", "lib"))
import basefiles
import build
import core
import gen
import zckref


def worker(case):
    cdir = case["dir"]
    keep = False
    base = core.unb64(case["data"])
    pos, bit = case["pos"], case["bit"]
    data = base[:pos] + bytes([base[pos] ^ (1 << bit)]) + base[pos + 1:]
    cid = core.h8([case["base"], pos, bit, case["sizes"], case.get("mode"), case.get("pre")])
    case.setdefault("mode", "plain")
    stats = {"corrupted_files": 1}
    try:
        p = zckref.parse(base)
        k = None
        for c in p.chunks:
            a = p.header_len + c["start"]
            if a <= pos < a + c["comp_len"]:
                k = c["number"]
        assert k is not None
        # uncompressed extent of chunk k in the content stream
        u0 = sum(c["len"] for c in p.chunks[1:k]) if k >= 1 else 0
        u1 = u0 + p.chunks[k]["len"] if k >= 1 else 0
        # does the corrupted chunk still decompress?  (evidence only)
        a = p.header_len + p.chunks[k]["start"]
        raw = data[a:a + p.chunks[k]["comp_len"]]
        try:
            dict_raw = base[p.header_len:p.header_len + p.chunks[0]["comp_len"]]
            db = zckref.zstd_decompress(dict_raw) if (k != 0 and dict_raw) else b""
            dec = zckref.zstd_decompress(raw, db)
            stats["still_decompressible"] = 1
            if len(dec) == p.chunks[k]["len"]:
                stats["still_decompressible_same_size"] = 1
        except (zckref.Invalid, zckref.Inconclusive):
            dec = None
        mode = case.get("mode", "plain")
        if mode == "plain":
            rd = core.run_zh(case["zh"], cdir, gen.reader_script("f.zck", sizes=case["sizes"], extra=3), {"f.zck": data}, name="read", slow_retry=case.get("zh_plain"))
        elif mode == "clear":
            # the caller clears the (recoverable) error after the failing read and keeps reading with small buffers
            L = ["fopen 1 f.zck r input", "create 1", "init_read 1 1", "readall 1 0 %s" % " ".join(str(x) for x in case["sizes"])]
            for n in (1, 100, 1000, 4096, 7, 100000):
                L += ["clear_error 1", "read 1 %d" % n]
            L += ["close 1"]
            rd = core.run_zh(case["zh"], cdir, "\n".join(L) + "\n", {"f.zck": data}, name="read", slow_retry=case.get("zh_plain"))
        elif mode == "chunk":
            # the chunk is asked for by number (zck_get_chunk_data) instead of being reached by the stream: exact buffer, a larger one, a
            # 16-byte peek; a good neighbour before and after; optionally validated while intact and damaged afterwards
            kk = max(k, 0)
            others = [c["number"] for c in p.chunks if c["number"] not in (0, kk) and c["len"] > 0]
            L = ["fopen 1 f.zck rw input", "create 1", "init_read 1 1"]
            if case.get("pre"):
                L += ["%s 1" % case["pre"], "poke 1 %d x:%02x" % (pos, data[pos])]
            if others and k != 0:
                L.append("chunkdata 1 %d" % others[0])
            for b_ in case["sizes"]:
                L += ["chunkdata 1 %d %d" % (kk, b_), "clear_error 1"]
            if others and k != 0:
                L.append("chunkdata 1 %d" % others[-1])
            rd = core.run_zh(case["zh"], cdir, "\n".join(L) + "\n", {"f.zck": base if case.get("pre") else data}, name="read", slow_retry=case.get("zh_plain"))
        else:
            # validated while intact, then the stored bytes change on disk, then the stream is read
            L = ["fopen 1 f.zck rw input", "create 1", "init_read 1 1", "%s 1" % case.get("pre", "vc"), "poke 1 %d x:%02x" % (pos, data[pos]),
                 "readall 1 3 %s" % " ".join(str(x) for x in case["sizes"]), "close 1"]
            rd = core.run_zh(case["zh"], cdir, "\n".join(L) + "\n", {"f.zck": base}, name="read", slow_retry=case.get("zh_plain"))
        if rd.timed_out and not rd.cpu_exceeded:
            return core.verdict(cid, "inconclusive", detail="watchdog", case=case)
        cs = core.crash_signatures(rd)
        if cs:
            keep = True
            return core.verdict(cid, "violated", cs[:1], stats, detail="reader crashed %s" % cs, cdir=cdir, case=case)
        ir = rd.first(op="init_read")
        if not ir or ir["rc"] != 1:
            return core.verdict(cid, "inconclusive", detail="body flip made open fail?", case=case)
        off = 0
        seen_err = False
        viol = None
        nreads = 0
        orig_piece = None
        try:
            orig_piece = zckref.decode(base).pieces[k]
        except Exception:
            pass
        for e in [x for x in rd.events if x.get("op") == "chunkdata"]:
            nreads += 1
            stats["chunk_requests_judged"] = stats.get("chunk_requests_judged", 0) + 1
            if e["rc"] < 0:
                seen_err = True
            elif e["rc"] > 0 and int(e["k"]) == max(k, 0):
                bs = "small" if e["want"] < p.chunks[max(k, 0)]["len"] else ("exact" if e["want"] == p.chunks[max(k, 0)]["len"] else "larger")
                viol = ("c15:released-unverified:chunk-request:%s%s" % (bs, ":tamper" if case.get("pre") else ""),
                        "zck_get_chunk_data(chunk %d, buffer %d) returned %d bytes although the chunk's stored bytes fail its checksum (bit %d of file byte %d)" %
                        (k, e["want"], e["rc"], bit, pos))
                break
        for e in [x for x in rd.events if x.get("ev") == "read" or x.get("op") == "read"]:
            nreads += 1
            rc = e["rc"]
            if rc < 0:
                seen_err = True
                continue
            if rc == 0:
                continue
            lo, hi = off, off + rc
            off = hi
            bad = (k == 0) or (lo < u1 and hi > u0)
            if bad and seen_err and mode == "clear" and k != 0:
                # after an error the stream position is the library's business; what must not happen is that the
                # BAD CHUNK'S bytes come out: compare with what its stored bytes decode to / what the chunk originally held
                got = rd.out[e["off"]:e["off"] + rc]
                cands = [x for x in (dec, orig_piece) if x]
                bad = len(got) >= 4 and any(got in x for x in cands)
            if bad:
                where = "dict" if k == 0 else ("first" if k == 1 else ("last" if k == len(p.chunks) - 1 else "middle"))
                bs = "small" if e["n"] < p.chunks[max(k, 1)]["len"] else "ge-chunk"
                viol = ("c15:released-unverified:%s:%s%s" % ("after-error" if seen_err else "before-error", bs, "" if mode == "plain" else ":" + mode),
                        "zck_read(n=%d) returned %d bytes covering content [%d,%d) of chunk %d (%s) whose stored bytes fail its checksum (bit %d of file byte %d); "
                        "error seen before: %s" % (e["n"], rc, lo, hi, k, where, bit, pos, seen_err))
                break
        stats["reads_judged"] = nreads
        if seen_err:
            stats["error_reported"] = 1
        if viol:
            keep = True
            return core.verdict(cid, "violated", [viol[0]], stats, detail=viol[1] + " base=%s sizes=%s" % (case["base"], case["sizes"]), cdir=cdir, case=case)
        if not seen_err and mode != "chunk":
            # reached the end without an error and without handing out the chunk?  then the
            # stream must have stopped before the bad chunk (otherwise bytes were skipped)
            if off > u0 and k != 0:
                keep = True
                return core.verdict(cid, "violated", ["c15:no-error-reported"], stats, detail="read past a bad chunk without error", cdir=cdir, case=case)
        return core.verdict(cid, "held", stats=stats, nontrivial=dec is not None,
                            sample={"base": case["base"], "flip": [pos, bit], "bad_chunk": k, "sizes": case["sizes"],
                                    "still_decompressible": dec is not None, "reads": nreads})
    finally:
        core.cleanup_case(cdir, keep)


class C15(core.Check):
    prop = "C15"
    flavours = ["asan", "plain"]   # plain: only to confirm CPU-bound overruns seen under ASan
    rule = ("zstd files (3-6 small chunks; and manual chunks of 0.3-4 MB, beyond what the automatic chunker produces, with/without dictionary, with/without uncompressed-source flag) x single-bit flips of body bytes "
            "(40 per file in quick, 2 500 per file in thorough - every bit when the body is smaller than that) x read sizes {1,100,chunk-1,chunk,chunk+1,32768}; after the first "
            "error three more reads are issued; variants: the caller clears the error and keeps reading with small buffers; the file is validated while "
            "intact, then damaged on disk, then read; the chunk requested by number (zck_get_chunk_data: exact, larger and 16-byte buffers, good neighbours before and after, optionally validated first). non-trivial = the corrupted chunk still decompresses (so only the checksum can stop it)")
    assumptions = ["chunk table taken from the unmodified header (only body bytes are flipped)"]
    worker = staticmethod(worker)

    def prepare(self, fl):
        return {"zh": build.zh(fl["asan"]), "zh_plain": build.zh(fl["plain"])}

    def cases(self, ctx):
        r = core.rng(self.seed, "C15", "flip")
        bases = [b for b in basefiles.small_set(ctx["zh"], self.work, self.seed + 1000, n_chunks=(3, 6), piece=(150, 900)) if b["cfg"]["comp"] == 2]
        if len(bases) < 4:
            raise RuntimeError("no zstd base files")
        # another encoder's frames: several zstd frames per chunk, frames without the content-size field (the reference writer's files)
        for rb_ in basefiles.ref_set(self.seed + 1000, 14 if self.quick else 28):
            if ("-frames" in rb_["name"] or "-nocontentsize" in rb_["name"]) and zckref.parse(rb_["data"]).comp_type == 2:
                rb_["cfg"] = {"comp": 2}
                bases.append(rb_)
                self.count("base_files_with_foreign_zstd_frames", 1)
        self.count("base_files", len(bases))
        out = []
        # big chunks (manual chunking; the automatic chunker never exceeds 128 KiB): an implementation that treats large chunks
        # differently (streaming decompression, buffer reuse) must still verify before it releases
        bigspecs = [([50000, 1300000, 20000], False, "text"), ([2200000, 30000], True, "mixed"), ([300000, 600000, 100000], False, "license"),
                    # a chunk whose STORED size exceeds 4 MiB (incompressible content), and runs of byte-identical chunks
                    ([30000, 4600000, 20000], False, "random"), ([40000, 40000, 40000, 9000], False, "same-text"), ([70000, 70000, 70000], True, "same-text")]
        if not self.quick:
            bigspecs += [([1048576, 1048575, 1048577], False, "text"), ([4000000], True, "text"), ([140000, 131072, 70000, 262144], True, "mixed")]
        for bi, (sizes_, dct, kind) in enumerate(bigspecs):
            pieces = [gen.content(kind if kind != "same-text" else "text", n, 50 + bi * 7 + (j if kind != "same-text" else 0)) for j, n in enumerate(sizes_)]
            seg = []
            for pc in pieces:
                seg += [len(pc), "e"]
            cfg = {"comp": 2, "manual": True, "chunk_hash": r.choice([0, 1, 2, 3]), "full_hash": 1, "level": 1, "cmax": 10 << 20}
            db = gen.content("license", 2000, 3) if dct else None
            data = basefiles.write_with_lib(ctx["zh"], os.path.join(self.work, "big%d" % bi), b"".join(pieces), cfg, seg, db)
            if data is None:
                continue
            self.count("big_chunk_base_files", 1)
            p = zckref.parse(data)
            big = max(p.chunks[1:], key=lambda c: c["len"])
            if kind == "same-text":
                big = p.chunks[2]        # the second member of the run of identical chunks
            a0 = p.header_len + big["start"]
            spots = [a0 + 5, a0 + big["comp_len"] // 3, a0 + big["comp_len"] // 2, a0 + big["comp_len"] - 40, a0 + big["comp_len"] - 2]
            spots += [a0 + r.randrange(big["comp_len"]) for _ in range(3 if self.quick else 40)]
            if kind == "same-text":
                c3 = p.chunks[3]
                spots += [p.header_len + c3["start"] + r.randrange(c3["comp_len"]) for _ in range(3)]
            for pos in spots:
                bit = r.randrange(8)
                for sizes in r.sample([[4096], [32768], [100000], [big["len"] + 1], [big["len"] - 1], [7000, 1, 65536]] if big["comp_len"] < 3000000 else [[65536], [1000000], [big["len"] - 1]], 2 if self.quick else 3):
                    out.append({"base": "big%d" % bi, "data": core.b64(data), "pos": pos, "bit": bit, "sizes": sizes, "zh": ctx["zh"], "zh_plain": ctx.get("zh_plain")})
                out.append({"base": "big%d" % bi, "data": core.b64(data), "pos": pos, "bit": bit, "sizes": [32768], "zh": ctx["zh"], "zh_plain": ctx.get("zh_plain"), "mode": "clear"})
                out.append({"base": "big%d" % bi, "data": core.b64(data), "pos": pos, "bit": bit, "sizes": [big["len"], big["len"] + 1, 16], "zh": ctx["zh"], "zh_plain": ctx.get("zh_plain"),
                            "mode": "chunk", "pre": r.choice([None, None, "vc"])})
                out.append({"base": "big%d" % bi, "data": core.b64(data), "pos": pos, "bit": bit, "sizes": r.choice([[4096], [65536]]) if big["comp_len"] < 3000000 else [65536], "zh": ctx["zh"], "zh_plain": ctx.get("zh_plain"),
                            "mode": "tamper", "pre": r.choice(["vc", "fv"])})
        per = 40 if self.quick else None
        for b in bases:
            p = zckref.parse(b["data"])
            body = range(p.header_len, len(b["data"]))
            if per:
                flips = [(r.choice(body), r.randrange(8)) for _ in range(per)]
                # make sure first / middle / last chunks and the dictionary are all hit
                for c in (p.chunks[1], p.chunks[-1], p.chunks[len(p.chunks) // 2], p.chunks[0]):
                    if c["comp_len"]:
                        flips.append((p.header_len + c["start"] + r.randrange(c["comp_len"]), r.randrange(8)))
            else:
                # every bit of every body byte for small bodies, otherwise a 2 500-flip sample per file (about 150 000 reads in all)
                flips = [(x, bit) for x in body for bit in range(8)]
                if len(flips) > 2500:
                    flips = r.sample(flips, 2500)
            for pos, bit in flips:
                k = max([c["number"] for c in p.chunks if p.header_len + c["start"] <= pos] or [1])
                cl = max(1, p.chunks[max(k, 1)]["len"])
                szs = [[1], [100], [cl - 1 or 1], [cl], [cl + 1], [32768]]
                pick = r.sample(szs, 2 if self.quick else 3)
                for sizes in pick:
                    out.append({"base": b["name"], "data": core.b64(b["data"]), "pos": pos, "bit": bit, "sizes": sizes, "zh": ctx["zh"]})
                ck = p.chunks[max(k, 0)]["len"]
                if ck > 0:
                    out.append({"base": b["name"], "data": core.b64(b["data"]), "pos": pos, "bit": bit, "sizes": [ck, r.choice([ck + 1, 2 * ck, 32768 + ck]), r.choice([1, 16, max(ck - 1, 1)])],
                                "zh": ctx["zh"], "mode": "chunk", "pre": r.choice([None, None, None, "vc", "fv"]) if k >= 1 else None})
                if k >= 1 and (not self.quick or r.random() < 0.5):
                    out.append({"base": b["name"], "data": core.b64(b["data"]), "pos": pos, "bit": bit, "sizes": r.choice([[1000], [4096], [cl], [100]]), "zh": ctx["zh"], "mode": "clear"})
                    out.append({"base": b["name"], "data": core.b64(b["data"]), "pos": pos, "bit": bit, "sizes": r.choice(szs), "zh": ctx["zh"], "mode": "tamper",
                                "pre": r.choice(["vc", "vc", "fv", "vd"])})
        return out
