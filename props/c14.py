"""C14 - random access returns each chunk's exact data regardless of history.
Monitor: request sequences (chunk, kind) on one context; every returned
(rc, bytes) compared with the reference's slice of the content / the stored
bytes; history independence follows from every request being judged against
the same position-independent expectation."""
import itertools
import os
import sys

sys.path.insert(0, os.path.join(os.path.dirname(os.path.abspath(__file__)), "..", "lib"))
import basefiles
import build
import core
import zckref


def tool_worker(case):
    """unzck --dict and zck_gen_zdict are the tools' way of requesting one chunk's data."""
    cdir = case["dir"]
    os.makedirs(cdir, exist_ok=True)
    keep = False
    data = core.unb64(case["data"])
    cid = core.h8([case["base"], "tools"])
    stats = {"tool_runs": 0}
    try:
        ref = zckref.decode(data)
        p = ref.parsed
        comp = "zstd" if p.comp_type == 2 else "none"
        open(os.path.join(cdir, "arch.zck"), "wb").write(data)
        viol = None
        if p.chunks[0]["len"] > 0:
            r = core.run_proc([case["unzck"], "--dict", "arch.zck"], cdir)
            stats["tool_runs"] += 1
            cs = core.crash_signatures(r, where="tool:unzck--dict")
            out = None
            try:
                out = open(os.path.join(cdir, "arch.zdict"), "rb").read()
            except FileNotFoundError:
                pass
            if cs:
                viol = (cs[0], "unzck --dict crashed: %s" % cs)
            elif r.rc != 0 or out != ref.pieces[0]:
                viol = ("c14:tool:unzck-dict:%s:%s" % (comp, "fails-on-valid-file" if r.rc != 0 else "wrong-bytes"),
                        "unzck --dict exit %s, output %s bytes, dictionary is %d bytes; stderr=%r" % (r.rc, None if out is None else len(out), len(ref.pieces[0]), r.stderr[-200:]))
        if not viol and p.chunks[0]["len"] > 0:
            # the same request on a detached header (header + dictionary, the form unzck --header produces): supported, must give the same bytes
            det = zckref.MAGIC_HDR + data[5:p.header_len + p.chunks[0]["comp_len"]]
            open(os.path.join(cdir, "det.zck"), "wb").write(det)
            r = core.run_proc([case["unzck"], "--dict", "det.zck"], cdir)
            stats["tool_runs"] += 1
            stats["detached_header_dict_requests"] = 1
            cs = core.crash_signatures(r, where="tool:unzck--dict")
            out = None
            try:
                out = open(os.path.join(cdir, "det.zdict"), "rb").read()
            except FileNotFoundError:
                pass
            if cs:
                viol = (cs[0], "unzck --dict (detached header) crashed: %s" % cs)
            elif r.rc != 0 or out != ref.pieces[0]:
                viol = ("c14:tool:unzck-dict:detached-header:%s:%s" % (comp, "fails" if r.rc != 0 else "wrong-bytes"),
                        "unzck --dict on the detached header exit %s, output %s bytes, dictionary is %d bytes; stderr=%r" % (r.rc, None if out is None else len(out), len(ref.pieces[0]), r.stderr[-200:]))
        if not viol:
            os.makedirs(os.path.join(cdir, "zd"), exist_ok=True)
            r = core.run_proc([case["gen_zdict"], "--dir", "zd", "arch.zck"], cdir)
            stats["tool_runs"] += 1
            cs = core.crash_signatures(r, where="tool:zck_gen_zdict")
            if cs:
                viol = (cs[0], "zck_gen_zdict crashed: %s" % cs)
            else:
                # the tool writes every data chunk to zd/arch.<number> before it tries to run the (absent) zstd trainer
                for c in p.chunks[1:]:
                    fn = os.path.join(cdir, "zd", "arch.%d" % c["number"])
                    try:
                        got = open(fn, "rb").read()
                    except FileNotFoundError:
                        got = None
                    stats["chunk_files_compared"] = stats.get("chunk_files_compared", 0) + 1
                    if got != ref.pieces[c["number"]]:
                        viol = ("c14:tool:gen_zdict:%s:%s" % (comp, "chunk-missing" if got is None else "wrong-bytes"),
                                "zck_gen_zdict chunk file %d: %s bytes, expected %d; exit %s stderr=%r" % (c["number"], None if got is None else len(got), len(ref.pieces[c["number"]]), r.rc, r.stderr[-200:]))
                        break
        if viol:
            keep = True
            return core.verdict(cid, "violated", [viol[0]], stats, detail=viol[1] + " base=%s" % case["base"], cdir=cdir, case=case)
        return core.verdict(cid, "held", stats=stats, nontrivial=True, sample={"base": case["base"], "tools": ["unzck --dict", "zck_gen_zdict --dir"], "chunks": len(p.chunks)})
    finally:
        core.cleanup_case(cdir, keep)


def bufof(p, ref, k, kind, spec):
    """Buffer size offered for a request: None = the declared size; "s<n>" = n bytes (smaller), "s-1" = one byte less than the chunk,
    "+<n>" = n bytes more, "max" = the largest chunk of the file (one buffer for all chunks), "x2" = twice the size."""
    if not spec:
        return None
    size = len(ref.pieces[k]) if kind == "d" else p.chunks[k]["comp_len"]
    if spec == "s-1":
        return max(size - 1, 0)
    if spec.startswith("s"):
        return min(int(spec[1:]), size)
    if spec.startswith("+"):
        return size + int(spec[1:])
    if spec == "x2":
        return 2 * size + 1
    if spec == "max":
        return max([len(x) for x in ref.pieces] + [c["comp_len"] for c in p.chunks]) + 1
    raise ValueError(spec)


def worker(case):
    if case.get("tools"):
        return tool_worker(case)
    cdir = case["dir"]
    keep = False
    data = core.unb64(case["data"])
    cid = core.h8([case["base"], case["seq"], case.get("moves")])
    stats = {"sequences": 1}
    try:
        ref = zckref.decode(data)
        assert ref.valid, ref
        p = ref.parsed
        L = ["fopen 1 f.zck r input", "create 1", "init_read 1 1"]
        mv = core.rng(case.get("moves") or 0, "C14", "moves")
        for k, kind, *sp in case["seq"]:
            spec = sp[0] if sp else None
            if case.get("moves") and mv.random() < 0.6:
                # the application uses the descriptor itself between two requests (its own lseek on the shared offset)
                L.append("seek 1 %d" % mv.choice([0, 1, len(data), len(data) // 2, mv.randrange(len(data) + 1)]))
            L.append("%s 1 %d%s" % ("chunkdata" if kind == "d" else "chunkcomp", k, "" if bufof(p, ref, k, kind, spec) is None else " %d" % bufof(p, ref, k, kind, spec)))
        rd = core.run_zh(case["zh"], cdir, "\n".join(L) + "\n", {"f.zck": data}, name="seq")
        if rd.timed_out and not rd.cpu_exceeded:
            return core.verdict(cid, "inconclusive", detail="watchdog", case=case)
        cs = core.crash_signatures(rd)
        viol = None
        if cs:
            viol = (cs[0], "crash during request sequence: %s open=%s" % (cs, rd.open_call))
        evs = [e for e in rd.events if e.get("op") in ("chunkdata", "chunkcomp")]
        if not viol and len(evs) != len(case["seq"]):
            return core.verdict(cid, "inconclusive", detail="missing events", case=case)
        comp = "zstd" if p.comp_type == 2 else "none"
        for pos, (e, (k, kind, *sp)) in enumerate(zip(evs, case["seq"])):
            c = p.chunks[k]
            spec = sp[0] if sp else None
            stats["requests"] = stats.get("requests", 0) + 1
            if kind == "d":
                want = ref.pieces[k]
            else:
                a = p.header_len + c["start"]
                want = data[a:a + c["comp_len"]]
            buf = bufof(p, ref, k, kind, spec)
            got = rd.out[e["off"]:e["off"] + max(e["rc"], 0)] if e["rc"] > 0 else b""
            if buf is not None:
                stats["requests_with_%s_buffer" % ("larger" if buf > len(want) else ("smaller" if buf < len(want) else "exact"))] = \
                    stats.get("requests_with_%s_buffer" % ("larger" if buf > len(want) else ("smaller" if buf < len(want) else "exact")), 0) + 1
            if buf is not None and buf < len(want):
                # a buffer smaller than the chunk: the property promises nothing about this request itself except that it hands out no wrong
                # bytes (refusing is fine, a prefix is fine); the requests that FOLLOW are judged as always
                bad = e["rc"] > buf or (e["rc"] > 0 and got != want[:e["rc"]])
            else:
                bad = e["rc"] != len(want) or got != want
            if bad:
                prev = case["seq"][pos - 1] if pos else None
                what = "dict" if k == 0 else ("last" if k == len(p.chunks) - 1 else "mid")
                cls = "first-request" if pos == 0 else ("after-last" if prev and prev[0] == len(p.chunks) - 1 else ("after-dict" if prev and prev[0] == 0 else "after-other"))
                if prev and len(prev) > 2 and prev[2]:
                    cls = "after-%s-buffer" % ("smaller" if str(prev[2]).startswith("s") else "larger")
                if buf is not None and buf != len(want):
                    cls += ":%s-buffer" % ("smaller" if buf < len(want) else "larger")
                viol = ("c14:%s:%s:%s:rc=%s" % ("data" if kind == "d" else "comp", comp, cls, "short" if 0 <= e["rc"] < len(want) else ("neg" if e["rc"] < 0 else ("long" if e["rc"] > len(want) else "wrongbytes"))),
                        "request #%d (%s of chunk %d/%s, buffer %s) returned rc=%d, expected %d bytes; sequence=%s" % (pos, kind, k, what, "declared size" if buf is None else buf, e["rc"], len(want), case["seq"]))
                break
        if viol:
            keep = True
            return core.verdict(cid, "violated", [viol[0]], stats, detail=viol[1] + " base=%s" % case["base"], cdir=cdir, case=case)
        return core.verdict(cid, "held", stats=stats, nontrivial=len(case["seq"]) >= 2,
                            sample={"base": case["base"], "sequence": case["seq"], "chunks": len(p.chunks)})
    finally:
        core.cleanup_case(cdir, keep)


class C14(core.Check):
    prop = "C14"
    flavours = ["asan"]
    rule = ("files none/zstd x dict/no dict x uncompressed-source flag x chunk hash types, 2-8 chunks; request sequences over (chunk, data|comp): all "
            "sequences of length <= 2 (quick) / <= 3 (thorough) for the smallest files, random sequences of length 12/50 otherwise, always including "
            "repeats, last-then-anything and dictionary-in-the-middle; buffers larger than the chunk (one buffer of the largest chunk's size for every request, +1, +4096, x2) and "
            "smaller ones (1, 16, size-1 bytes) as history for the requests that follow. non-trivial = sequence of >= 2 requests")
    assumptions = ["contexts used for random access only (mixing with streaming zck_read is not promised)"]
    worker = staticmethod(worker)

    def prepare(self, fl):
        return {"zh": build.zh(fl["asan"]), "unzck": fl["asan"].tool("unzck"), "gen_zdict": fl["asan"].tool("zck_gen_zdict")}

    def cases(self, ctx):
        r = core.rng(self.seed, "C14", "seq")
        bases = basefiles.small_set(ctx["zh"], self.work, self.seed + 14, n_chunks=(2, 7), piece=(30, 700))
        bases += basefiles.ref_set(self.seed + 14, 8 if self.quick else 21)   # incl. another writer's layouts and zstd frame styles
        out = []
        for bi, b in enumerate(bases):
            v = zckref.decode(b["data"])
            if not v.valid:
                continue
            n = len(v.parsed.chunks)
            out.append({"base": b["name"], "data": core.b64(b["data"]), "tools": True, "unzck": ctx["unzck"], "gen_zdict": ctx["gen_zdict"]})
            reqs = [(k, kind) for k in range(n) for kind in ("d", "c")]
            seqs = []
            depth = 2 if self.quick else 3
            if n <= (4 if self.quick else 6) and bi % (3 if self.quick else 1) == 0:
                for d in range(1, depth + 1):
                    seqs += [list(s) for s in itertools.product(reqs, repeat=d)]
                self.count("exhaustive_files", 1)
            last = n - 1
            fixed = [[(last, "d"), (1, "d")], [(last, "d"), (last, "d")], [(1, "d"), (0, "d"), (1, "d")], [(last, "c"), (last, "d"), (0, "c"), (1, "d")],
                     [(0, "d"), (0, "d")], [(1, "d"), (1, "c"), (1, "d")]]
            seqs += fixed
            for _ in range(20 if self.quick else 600):
                ln = 12 if self.quick else 50
                seqs.append([r.choice(reqs) for _ in range(ln)])
            # buffers that are not exactly the declared size: one buffer as large as the largest chunk reused for every request, a few bytes
            # more, twice as much; and smaller ones (a 16-byte peek, one byte short) as HISTORY for the exact requests that follow
            SP = ["s1", "s16", "s-1", "+1", "+4096", "x2", "max"]
            seqs += [[(k, "d", "max") for k in range(n)] + [(k, "c", "max") for k in range(n)],
                     [(1, "d", "s16"), (1, "d")], [(1, "d", "s16"), (last, "d"), (0, "d")], [(last, "d", "s-1"), (1, "d"), (last, "d")],
                     [(0, "d", "s1"), (1, "d"), (0, "d")], [(1, "c", "s16"), (1, "d"), (1, "c")], [(1, "d", "+1"), (1, "d", "x2"), (last, "d", "+4096"), (last, "c", "+1")]]
            if n <= 6:
                for r1 in reqs:
                    for sp in SP:
                        seqs.append([r1 + (sp,), r.choice(reqs), r1])
            for _ in range(20 if self.quick else 600):
                seqs.append([r.choice(reqs) + ((r.choice(SP),) if r.random() < 0.4 else ()) for _ in range(12 if self.quick else 50)])
            for si, s in enumerate(seqs):
                out.append({"base": b["name"], "data": core.b64(b["data"]), "seq": [list(x) for x in s], "zh": ctx["zh"]})
                if si % 5 == 0 and len(s) >= 2:
                    out.append({"base": b["name"], "data": core.b64(b["data"]), "seq": [list(x) for x in s], "zh": ctx["zh"], "moves": 1 + si})
        # chunks beyond the default 10 MiB maximum (manual chunking with the maximum raised), with and without a dictionary
        import gen
        for bi, (sizes_, dct) in enumerate([([3000, 12600000, 5000], False), ([11000000, 70000], True)] if True else []):
            pieces = [gen.content("text", n_, 70 + bi * 5 + j) for j, n_ in enumerate(sizes_)]
            seg = []
            for pc in pieces:
                seg += [len(pc), "e"]
            data = basefiles.write_with_lib(ctx["zh"], os.path.join(self.work, "huge%d" % bi), b"".join(pieces), {"comp": 2, "manual": True, "level": 1, "cmax": 64 << 20, "chunk_hash": 1}, seg,
                                            gen.content("license", 2000, 3) if dct else None)
            if data is None:
                continue
            self.count("files_with_chunk_over_10MiB", 1)
            n = len(zckref.parse(data).chunks)
            bigk = 2 if bi == 0 else 1
            for s in ([(bigk, "d"), (1 if bigk != 1 else 2, "d"), (bigk, "d"), (0, "d")], [(bigk, "d"), (n - 1, "d"), (n - 1, "c")], [(n - 1, "d"), (bigk, "d"), (bigk, "c"), (n - 1, "d")]):
                out.append({"base": "huge%d" % bi, "data": core.b64(data), "seq": [list(x) for x in s], "zh": ctx["zh"]})
        return out
