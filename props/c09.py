"""C09 - validity scan classifies every chunk exactly and is side-effect free.
Monitor: flags / return values of zck_find_valid_chunks, zck_validate_checksums,
zck_validate_data_checksum compared with an independent recomputation
(hashlib over the bytes actually present); interposer log proves no write /
ftruncate reached the descriptor and, for detached headers, that nothing
beyond the dictionary was read; a read-to-end after each validation word is
compared with a read without validations."""
import hashlib
import itertools
import os
import sys

sys.path.insert(0, os.path.join(os.path.dirname(os.path.abspath(__file__)), "..", "lib"))
import basefiles
import build
import core
import zckref

WORDS1 = [["fv"], ["vc"], ["vd"]]


def all_words(maxlen):
    out = []
    for n in range(1, maxlen + 1):
        out += [list(w) for w in itertools.product(["vc", "vd", "fv"], repeat=n)]
    return out


def expected_flags(p, disk):
    """1 / -1 per chunk from the bytes present on disk."""
    fl = []
    for c in p.chunks:
        a = p.header_len + c["start"]
        b = a + c["comp_len"]
        if c["number"] == 0 and c["comp_len"] == 0:
            fl.append(1)  # no dictionary: nothing stored, nothing to check (a first entry WITH stored bytes - e.g. the zstd frame of nothing - is a chunk like any other)
            continue
        if b > len(disk):
            fl.append(-1)
            continue
        if c["comp_len"] == 0:
            # no stored bytes: the checksum of nothing (format document), or the all-zero convention used for "no dictionary"
            fl.append(1 if c["digest"] in (bytes(len(c["digest"])), zckref.H(p.chunk_hash_type, b"")) else -1)
            continue
        fl.append(1 if zckref.H(p.chunk_hash_type, disk[a:b]) == c["digest"] else -1)
    return fl


def data_ok(p, disk):
    if p.has_uncomp:
        return True
    if p.total_len > len(disk):
        return False
    return zckref.H(p.hash_type, disk[p.header_len:p.total_len]) == p.data_digest


def rescan_worker(case):
    """A scan (or a full read) marks chunks valid, the file then changes on disk, and the same context scans again:
    the second classification must describe the bytes that are on disk NOW."""
    cdir = case["dir"]
    keep = False
    disk = core.unb64(case["disk"])
    cid = core.h8([case["base"], "rescan", case["first"], case["pokes"], case["second"]])
    stats = {"disk_states": 1, "rescans": 1}
    try:
        p = zckref.parse(disk)
        after = bytearray(disk)
        for off, hx in case["pokes"]:
            b_ = bytes.fromhex(hx)
            after[off:off + len(b_)] = b_
        after = bytes(after)
        exp = expected_flags(p, after)
        dok = data_ok(p, after)
        all_good = all(f == 1 for f in exp)
        L = ["fopen 1 f.zck rw input", "create 1", "init_read 1 1"]
        L += ["readall 1 0 4096"] if case["first"] == "read" else ["%s 1" % case["first"]]
        L += ["flags 1"] + ["poke 1 %d x:%s" % (off, hx) for off, hx in case["pokes"]] + ["%s 1" % case["second"], "flags 1"]
        rd = core.run_zh(case["zh"], cdir, "\n".join(L) + "\n", {"f.zck": disk}, name="rescan")
        if rd.timed_out and not rd.cpu_exceeded:
            return core.verdict(cid, "inconclusive", detail="watchdog", case=case)
        cs = core.crash_signatures(rd)
        viol = None
        if cs:
            viol = (cs[0], "crash in %s: %s" % (rd.open_call, cs))
        else:
            fl = [e["valid"] for e in rd.events if e.get("op") == "flags"]
            ev2 = [e for e in rd.events if e.get("op") == case["second"]]
            if len(fl) < 2 or not ev2:
                return core.verdict(cid, "inconclusive", detail="missing events %s" % rd.harness_error, case=case)
            rc = ev2[-1]["rc"]
            scan = case["second"] in ("vc", "fv") or p.has_uncomp
            if scan:
                want_ok = all_good and dok
                want_flags = exp if not (all_good and not dok) else [-1] * len(exp)
                if (rc == 1) != want_ok:
                    viol = ("c09:rescan:%s-after-%s:verdict:%s" % (case["second"], case["first"], "success-on-damage" if rc == 1 else "failure-on-intact"),
                            "second scan returned %d; bytes now on disk: chunks %s data_ok=%s" % (rc, exp, dok))
                elif fl[-1] != want_flags and rc != 0:
                    viol = ("c09:rescan:%s-after-%s:flags" % (case["second"], case["first"]), "second scan flags %s, expected %s from the bytes now on disk" % (fl[-1], want_flags))
            else:
                if (rc == 1) != dok:
                    viol = ("c09:rescan:vd-after-%s:verdict" % case["first"], "vd returned %d, data_ok=%s" % (rc, dok))
        if viol:
            keep = True
            return core.verdict(cid, "violated", [viol[0]], stats, detail=viol[1] + " base=%s pokes=%s" % (case["base"], case["pokes"]), cdir=cdir, case=case)
        return core.verdict(cid, "held", stats=stats, nontrivial=True, sample={"base": case["base"], "first": case["first"], "damage": case["pokes"], "second": case["second"], "expected_flags": exp})
    finally:
        core.cleanup_case(cdir, keep)


def pipe_worker(case):
    """The file arrives through a pipe (not seekable).  Whatever the validation calls answer there, they must not consume the stream
    behind the caller's back: a read-to-end afterwards (error cleared) gives what the same read gives without them."""
    cdir = case["dir"]
    keep = False
    disk = core.unb64(case["disk"])
    cid = core.h8(["pipe", case["base"], case["words"], hashlib.sha256(disk).hexdigest()[:12]])
    stats = {"pipe_cases": 1}
    try:
        base_script = "fopen 1 f.zck pipe input\ncreate 1\ninit_read 1 1\nreadall 1 0 4096\nclose 1\n"
        b0 = core.run_zh(case["zh"], cdir, base_script, {"f.zck": disk}, name="plainread")
        if b0.harness_error or (b0.timed_out and not b0.cpu_exceeded):
            return core.verdict(cid, "inconclusive", detail="pipe baseline: %s" % (b0.harness_error,), case=case)
        base_sum = _read_summary(b0)
        viol = None
        for wi, word in enumerate(case["words"]):
            L = ["fopen 1 f.zck pipe input", "create 1", "init_read 1 1"]
            for w in word:
                L += ["%s 1" % w, "clear_error 1"]
            L += ["readall 1 0 4096", "close 1"]
            rd = core.run_zh(case["zh"], cdir, "\n".join(L) + "\n", {"f.zck": disk}, name="w%d" % wi)
            if rd.timed_out and not rd.cpu_exceeded:
                return core.verdict(cid, "inconclusive", detail="watchdog", case=case)
            cs = core.crash_signatures(rd)
            if cs:
                viol = (cs[0], "crash in %s on a pipe: %s" % (rd.open_call, cs))
                break
            stats["validations_on_a_pipe"] = stats.get("validations_on_a_pipe", 0) + len(word)
            s_ = _read_summary(rd)
            if s_ != base_sum:
                viol = ("c09:pipe:read-after-%s-differs" % "+".join(word), "through a pipe, after %s: %s ; without: %s (validation results %s)" %
                        (word, s_, base_sum, [e.get("rc") for e in rd.events if e.get("op") in ("vc", "vd", "fv")]))
                break
        if viol:
            keep = True
            return core.verdict(cid, "violated", [viol[0]], stats, detail=viol[1] + " base=%s" % case["base"], cdir=cdir, case=case)
        return core.verdict(cid, "held", stats=stats, nontrivial=True, sample={"base": case["base"], "through_a_pipe": True, "words": case["words"], "baseline": base_sum})
    finally:
        core.cleanup_case(cdir, keep)


def worker(case):
    if case.get("pipe"):
        return pipe_worker(case)
    if case.get("rescan"):
        return rescan_worker(case)
    cdir = case["dir"]
    keep = False
    disk = core.unb64(case["disk"])
    cid = core.h8([case["base"], case["state"], case["words"]])
    stats = {"disk_states": 1}
    try:
        p = zckref.parse(disk)  # header is intact in every state
        exp = expected_flags(p, disk)
        dok = data_ok(p, disk)
        all_good = all(f == 1 for f in exp)
        if p.detached:
            exp_det = [exp[0]] + [0] * (len(exp) - 1)
        # baseline: read without validations
        base_script = "fopen 1 f.zck rw input\ncreate 1\ninit_read 1 1\nreadall 1 0 4096\nclose 1\n"
        if case.get("sparse"):
            os.makedirs(cdir, exist_ok=True)
            core.write_sparse(os.path.join(cdir, "f.zck"), disk)
            stats["sparse_files"] = 1
            b0 = core.run_zh(case["zh"], cdir, base_script, None, name="plainread")
        else:
            b0 = core.run_zh(case["zh"], cdir, base_script, {"f.zck": disk}, name="plainread")
        if b0.timed_out and not b0.cpu_exceeded:
            return core.verdict(cid, "inconclusive", detail="watchdog", case=case)
        base_sum = _read_summary(b0)
        viol = None
        for wi, word in enumerate(case["words"]):
            L = ["fopen 1 f.zck rw input", "create 1", "init_read 1 1", "iolog 1"]
            for w in word:
                L += ["%s 1" % w, "flags 1"]
            L += ["iolog 0", "tell 1", "readall 1 0 4096", "close 1"]
            if case.get("sparse"):
                core.write_sparse(os.path.join(cdir, "f.zck"), disk)
            else:
                open(os.path.join(cdir, "f.zck"), "wb").write(disk)
            rd = core.run_zh(case["zh"], cdir, "\n".join(L) + "\n", name="w%d" % wi)
            if rd.timed_out and not rd.cpu_exceeded:
                return core.verdict(cid, "inconclusive", detail="watchdog", case=case)
            cs = core.crash_signatures(rd)
            if cs:
                viol = (cs[0] if not cs[0].startswith("hang") else "c09:hang:%s" % (rd.open_call or "?").split()[0], "crash/hang in %s: %s" % (rd.open_call, cs))
                break
            ir = rd.first(op="init_read")
            if not ir or ir["rc"] != 1:
                return core.verdict(cid, "inconclusive", detail="open failed on intact header", case=case)
            stats["validations"] = stats.get("validations", 0) + len(word)
            # walk ops in order
            evs = [e for e in rd.events if e.get("op") in ("vc", "vd", "fv", "flags")]
            i = 0
            cur = [0] * len(exp)
            while i < len(evs) and not viol:
                e = evs[i]
                fl = evs[i + 1]["valid"] if i + 1 < len(evs) and evs[i + 1]["op"] == "flags" else None
                op = e["op"]
                rc = e["rc"]
                scan = op in ("vc", "fv") or (op == "vd" and p.has_uncomp)
                if scan:
                    if p.detached:
                        want_rc_ok = exp[0] == 1
                        want_flags = exp_det
                    else:
                        want_rc_ok = all_good and dok
                        want_flags = exp if not (all_good and not dok) else [-1] * len(exp)
                    if (rc == 1) != want_rc_ok:
                        viol = ("c09:%s:verdict:%s" % (op, "success-on-damage" if rc == 1 else "failure-on-intact"),
                                "%s returned %d but chunks %s data_ok=%s" % (op, rc, exp, dok))
                    elif fl is not None and fl != want_flags and rc != 0:
                        d = [k for k in range(len(exp)) if fl[k] != want_flags[k]][0]
                        viol = ("c09:%s:flag:%s-marked-%d" % (op, _state_of(case["state"], d), fl[d]),
                                "%s flags %s, expected %s (chunk %d)" % (op, fl, want_flags, d))
                    cur = fl or cur
                else:  # vd without uncompressed-source flag: data checksum only
                    want = p.total_len <= len(disk) and dok
                    if p.detached:
                        want = None
                    if want is not None and (rc == 1) != want:
                        viol = ("c09:vd:verdict:%s" % ("success-on-damage" if rc == 1 else "failure-on-intact"), "vd returned %d, data_ok=%s" % (rc, dok))
                i += 2 if fl is not None else 1
            if viol:
                break
            # side effects
            wr = [e for e in rd.events if e.get("ev") == "io" and e.get("cls") == "input" and e.get("sys") in ("write", "ftruncate")]
            after = open(os.path.join(cdir, "f.zck"), "rb").read()
            stats["io_reads_observed"] = stats.get("io_reads_observed", 0) + len([e for e in rd.events if e.get("ev") == "io" and e.get("sys") == "read"])
            if wr or after != disk:
                viol = ("c09:modified-file", "validation wrote to the file: %s changed=%s" % (wr[:2], after != disk))
                break
            if p.detached:
                lim = p.header_len + p.chunks[0]["comp_len"]
                far = [e for e in rd.events if e.get("ev") == "io" and e.get("sys") == "read" and e.get("cls") == "input" and e.get("ret", 0) > 0 and e["off"] >= lim + 0]
                far = [e for e in far if e["off"] + 0 >= lim and e["off"] < len(disk) and e["off"] >= lim]
                if far and lim < len(disk):
                    viol = ("c09:detached-scanned-beyond-dictionary", "read at %s beyond dictionary end %d" % (far[0], lim))
                    break
            # read after validations == read without
            s = _read_summary(rd)
            if not p.detached and s != base_sum:
                viol = ("c09:read-after-%s-differs" % "+".join(word), "after %s: %s ; without: %s" % (word, s, base_sum))
                break
        if not viol and case.get("tools"):
            # the tools' view of the same state: zck_read_header -c -f (per-chunk marks + exit status) and unzck -c
            import re
            open(os.path.join(cdir, "f.zck"), "wb").write(disk)
            tr = core.run_proc([case["tools"]["zck_read_header"], "-c", "-f", "f.zck"], cdir, stdout_path=os.path.join(cdir, "rh.out"))
            stats["tool_runs"] = stats.get("tool_runs", 0) + 1
            cs = core.crash_signatures(tr, where="tool:zck_read_header")
            if cs:
                viol = (cs[0], "zck_read_header -c -f crashed: %s" % cs)
            else:
                txt = open(os.path.join(cdir, "rh.out"), errors="replace").read()
                marks = []
                for ln in txt.split("\n"):
                    m = re.match(r"^\s*(\d+) [0-9a-f]+ [0-9a-f]*\s+\d+\s+\d+\s+\d+(\s+([+!]))?\s*$", ln)
                    if m:
                        marks.append({"+": 1, "!": -1, None: 0}[m.group(3)])
                if p.detached:
                    want_ok = exp[0] == 1
                    want_marks = [exp[0]] + [0] * (len(exp) - 1)
                else:
                    want_ok = all_good and dok
                    want_marks = exp if not (all_good and not dok) else [-1] * len(exp)
                if (tr.rc == 0) != want_ok:
                    viol = ("c09:tool:read_header-f:verdict:%s" % ("success-on-damage" if tr.rc == 0 else "failure-on-intact"),
                            "zck_read_header -f exit %s but chunks %s data_ok=%s" % (tr.rc, exp, dok))
                elif marks and marks != want_marks and tr.rc in (0, 2):
                    viol = ("c09:tool:read_header-f:marks", "per-chunk marks %s, expected %s" % (marks, want_marks))
                elif open(os.path.join(cdir, "f.zck"), "rb").read() != disk:
                    viol = ("c09:tool:read_header-f:modified-file", "zck_read_header -f changed the file")
                else:
                    # the verdict must not depend on whether the chunk list is printed as well
                    for extra in (["-f"], ["-q", "-f"]):
                        t2 = core.run_proc([case["tools"]["zck_read_header"]] + extra + ["f.zck"], cdir, stdout_path=os.path.join(cdir, "rh2.out"))
                        stats["tool_runs"] = stats.get("tool_runs", 0) + 1
                        cs = core.crash_signatures(t2, where="tool:zck_read_header")
                        if cs:
                            viol = (cs[0], "zck_read_header %s crashed: %s" % (extra, cs))
                        elif (t2.rc == 0) != want_ok:
                            viol = ("c09:tool:read_header-f-without-c:verdict:%s" % ("success-on-damage" if t2.rc == 0 else "failure-on-intact"),
                                    "zck_read_header %s exit %s (with -c: %s) but chunks %s data_ok=%s detached=%s" % (" ".join(extra), t2.rc, tr.rc, exp, dok, p.detached))
                        if viol:
                            break
            if not viol and not p.detached:
                ur = core.run_proc([case["tools"]["unzck"], "-c", "f.zck"], cdir, stdout_path=os.path.join(cdir, "un.out"))
                stats["tool_runs"] = stats.get("tool_runs", 0) + 1
                cs = core.crash_signatures(ur, where="tool:unzck")
                lib_ok = (not base_sum["read_error"]) and base_sum["close"] == 1
                if cs:
                    viol = (cs[0], "unzck -c crashed: %s" % cs)
                elif ur.rc == 0 and not (all_good and dok):
                    viol = ("c09:tool:unzck:success-on-damage", "unzck -c exit 0 but chunks %s data_ok=%s" % (exp, dok))
                elif ur.rc != 0 and lib_ok and all_good and dok:
                    viol = ("c09:tool:unzck:failure-on-intact", "unzck -c exit %s on a file every checksum of which matches; stderr=%r" % (ur.rc, ur.stderr[-200:]))
                elif ur.rc == 0 and hashlib.sha256(open(os.path.join(cdir, "un.out"), "rb").read()).hexdigest()[:16] + ":%d" % os.path.getsize(os.path.join(cdir, "un.out")) != base_sum["bytes"]:
                    viol = ("c09:tool:unzck:content-differs-from-library-read", "unzck -c output differs from the library's read of the same file")
        if viol:
            keep = True
            return core.verdict(cid, "violated", [viol[0]], stats, detail=viol[1] + " base=%s state=%s" % (case["base"], case["state"]), cdir=cdir, case=case)
        return core.verdict(cid, "held", stats=stats, nontrivial=(not all(x == "ok" for x in case["state"]["chunks"])) or len(case["words"]) > 1,
                            sample={"base": case["base"], "state": case["state"], "words": case["words"], "expected_flags": exp, "data_ok": dok})
    finally:
        core.cleanup_case(cdir, keep)


def _state_of(state, k):
    try:
        return state["chunks"][k]
    except Exception:
        return "?"


def gen_content_rand(n, seed):
    import random
    return random.Random("c09/%s" % seed).randbytes(n)


def _read_summary(r):
    reads = r.ev(ev="read")
    cl = r.first(op="close")
    return {"bytes": hashlib.sha256(r.out).hexdigest()[:16] + ":%d" % len(r.out), "read_error": any(e["rc"] < 0 for e in reads), "close": cl["rc"] if cl else None}


def make_state(r, b, p, kinds):
    """Apply per-chunk states to a copy of the file."""
    d = bytearray(b["data"])
    cut = None
    for c, k in zip(p.chunks, kinds):
        a = p.header_len + c["start"]
        e = a + c["comp_len"]
        if k == "zero":
            d[a:e] = bytes(e - a)
        elif k == "garbage":
            d[a:e] = r.randbytes(e - a)
        elif k == "bit":
            if e > a:
                x = r.randrange(a, e)
                d[x] ^= 1 << r.randrange(8)
        elif k == "absent" and cut is None:
            cut = a
    d = bytes(d)
    if cut is not None:
        d = d[:cut]
    return d


class C09(core.Check):
    prop = "C09"
    flavours = ["asan"]
    rule = ("targets = valid files (none/zstd, dict/no dict, uncompressed-source flag, detached headers, all-zero chunk contents) with each chunk "
            "region set to one of {ok, zeroed, garbage, one bit, absent(truncated from there)} - all 4^n combinations for the smallest files, random for "
            "larger - plus truncation at arbitrary lengths, over-long files and a re-sealed wrong data checksum; validation words over {validate-all, "
            "validate-data, find-valid} (all words of length <= 2 quick / <= 3 thorough on a rotating subset, length 1 always) followed by read-to-end. "
            "non-trivial = at least one chunk damaged or a word of length >= 2")
    assumptions = ["expected classification recomputed with hashlib over the bytes present on disk"]
    worker = staticmethod(worker)

    def prepare(self, fl):
        return {"zh": build.zh(fl["asan"]), "tools": {t: fl["asan"].tool(t) for t in ("zck_read_header", "unzck")}}

    def cases(self, ctx):
        out = self._cases(ctx)
        for i, c in enumerate(out):
            if i % (3 if self.quick else 2) == 0 or c.get("always_tools"):
                c["tools"] = ctx["tools"]
        return out

    def _cases(self, ctx):
        r = core.rng(self.seed, "C09", "state")
        bases = basefiles.small_set(ctx["zh"], self.work, self.seed + 9, n_chunks=(2, 4), piece=(50, 600))
        # uncompressed files whose chunks are all zeros (stale-buffer trap) and a larger file (> one 32 KiB scan block per chunk)
        for comp in (0, 2):
            D = bytes(5000) * 3
            data = basefiles.write_with_lib(ctx["zh"], os.path.join(self.work, "zeros%d" % comp), D, {"comp": comp, "manual": True}, [5000, "e", 5000, "e", 5000, "e"])
            if data:
                bases.append({"name": "zeros-c%d" % comp, "data": data, "content": D})
            import gen
            D2 = gen.content("random", 150000, 5)
            data = basefiles.write_with_lib(ctx["zh"], os.path.join(self.work, "big%d" % comp), D2, {"comp": comp, "manual": True}, [70000, "e", 40000, "e", 40000, "e"])
            if data:
                bases.append({"name": "big-c%d" % comp, "data": data, "content": D2})
        # uncompressed files with long runs of zero bytes as stored chunk content, kept as SPARSE files (holes where the zeros are)
        for k_, sizes_ in enumerate([[20000, 9000, 30000], [70000, 100, 40000, 40000]]):
            pieces_ = [bytes(n_) if j_ % 2 == 0 else gen_content_rand(n_, k_ * 10 + j_) for j_, n_ in enumerate(sizes_)]
            seg_ = []
            for pc_ in pieces_:
                seg_ += [len(pc_), "e"]
            data = basefiles.write_with_lib(ctx["zh"], os.path.join(self.work, "sparse%d" % k_), b"".join(pieces_), {"comp": 0, "manual": True}, seg_)
            if data:
                bases.append({"name": "zero-chunks-sparse%d" % k_, "data": data, "content": b"".join(pieces_), "sparse": True})
        # a chunk without any bytes in the middle of the index, as another writer may emit it (checksum = the checksum of nothing, per the
        # format document; the library's own convention for "no bytes" is an all-zero checksum - both describe the same, present, chunk)
        for k_, cht_ in enumerate((1, 3)):
            d_ = zckref.make_file([b"abcd" * 30, b"", b"xyz" * 50, b"", b"tail" * 9], comp_type=0, chunk_hash_type=cht_)
            bases.append({"name": "empty-chunk-h%d" % cht_, "data": d_, "content": zckref.decode(d_).content})
            p_ = zckref.parse(d_)
            ch_ = [(c["digest"] if c["comp_len"] else bytes(len(c["digest"])), c["udigest"], c["comp_len"], c["len"]) for c in p_.chunks]
            bases.append({"name": "empty-chunk-zero-digest-h%d" % cht_, "data": basefiles.rebuild(p_, d_, chunks=ch_, data_digest=p_.data_digest), "content": zckref.decode(d_).content})
        # the same chunk at several places of the index (same checksum, same sizes): every occurrence has bytes of its own on disk
        for comp_ in (0, 2):
            X_ = gen_content_rand(300, 77 + comp_)
            pcs_ = [X_, gen_content_rand(120, 5), X_, gen_content_rand(90, 6), X_]
            d_ = zckref.make_file(pcs_, comp_type=comp_, chunk_hash_type=1)
            bases.append({"name": "repeated-chunk-c%d" % comp_, "data": d_, "content": b"".join(pcs_), "repeats": [1, 3, 5]})
        # files of another writer (reference writer): unused bytes behind the signatures, optional header elements
        for rb_ in basefiles.ref_set(self.seed + 9, 6 if self.quick else 16):
            if "hdrtail" in rb_["name"] or "optelems" in rb_["name"] or "emptydictframe" in rb_["name"] or not self.quick:
                bases.append(rb_)
        words_long = all_words(2 if self.quick else 3)
        out = []
        for bi, b in enumerate(bases):
            p = zckref.parse(b["data"])
            n = len(p.chunks)
            states = []
            kinds = ["ok", "zero", "garbage", "absent"]
            if n <= 4 and (bi % 4 == 0 or not self.quick):
                for combo in itertools.product(kinds, repeat=n):
                    states.append(list(combo))
            else:
                states.append(["ok"] * n)
                for _ in range(14 if self.quick else 80):
                    states.append([r.choice(["ok", "ok", "zero", "garbage", "bit", "absent"]) for _ in range(n)])
            if b.get("repeats"):
                # first occurrence intact, a later one damaged (and the other way round), one kind at a time
                for bad_k in b["repeats"]:
                    for kind_ in ("zero", "garbage", "bit"):
                        st_ = ["ok"] * n
                        st_[bad_k] = kind_
                        states.append(st_)
                st_ = ["ok"] * n
                st_[b["repeats"][-1]] = "absent"
                states.append(st_)
            for si, st in enumerate(states):
                disk = make_state(r, b, p, st)
                words = list(WORDS1)
                if (si + bi) % (6 if self.quick else 2) == 0:
                    words = words + r.sample(words_long, 3 if self.quick else 8)
                out.append({"base": b["name"], "state": {"chunks": st}, "disk": core.b64(disk), "words": words, "zh": ctx["zh"], "sparse": b.get("sparse", False)})
            # the intact file (and one damaged state) through a pipe
            if len(b["data"]) < 900000:
                out.append({"pipe": True, "base": b["name"], "disk": core.b64(b["data"]), "words": [["vd"], ["vc"], ["fv"], ["vd", "vc"], ["fv", "fv"]], "zh": ctx["zh"]})
            # truncations at arbitrary lengths, over-long, wrong data digest, detached header
            full = b["data"]
            lens = sorted(set([p.header_len, p.header_len + 1, len(full) - 1] + [r.randrange(p.header_len, len(full)) for _ in range(6 if self.quick else 40)]))
            for Ln in lens:
                out.append({"base": b["name"], "state": {"chunks": ["truncate@%d" % Ln]}, "disk": core.b64(full[:Ln]), "words": WORDS1, "zh": ctx["zh"]})
            out.append({"base": b["name"], "state": {"chunks": ["overlong"]}, "disk": core.b64(full + r.randbytes(777)), "words": WORDS1 + [["fv", "vc"]], "zh": ctx["zh"]})
            if not p.has_uncomp:
                bad = basefiles.rebuild(p, full, data_digest=bytes([p.data_digest[0] ^ 1]) + p.data_digest[1:])
                out.append({"base": b["name"], "state": {"chunks": ["wrong-data-digest"]}, "disk": core.b64(bad), "words": WORDS1 + [["vd", "fv"], ["fv", "vd"]], "zh": ctx["zh"]})
                # an index digest that does not match intact stored bytes (data checksum still right): only the per-chunk comparison sees it
                ch = [(c["digest"], c["udigest"], c["comp_len"], c["len"]) for c in p.chunks]
                k = r.randrange(1, len(ch)) if len(ch) > 1 else 0
                if ch[k][2]:
                    ch[k] = (bytes([ch[k][0][0] ^ 4]) + ch[k][0][1:],) + ch[k][1:]
                    bad = basefiles.rebuild(p, full, chunks=ch)
                    out.append({"base": b["name"], "state": {"chunks": ["wrong-chunk-digest-%d" % k]}, "disk": core.b64(bad), "words": WORDS1 + [["vd", "fv"], ["vd", "vc"]], "zh": ctx["zh"],
                                "always_tools": True})
            # detached header: header + dictionary, with intact / corrupt / absent dictionary, followed by foreign bytes
            dl = p.chunks[0]["comp_len"]
            det = zckref.MAGIC_HDR + full[5:p.header_len + dl]
            for name, dd in (("detached-ok", det), ("detached-tail", det + r.randbytes(300)),
                             ("detached-dict-corrupt", det[:p.header_len] + bytes(x ^ 0x55 for x in det[p.header_len:])),
                             ("detached-dict-absent", det[:p.header_len + dl // 2])):
                if dl == 0 and name in ("detached-dict-corrupt", "detached-dict-absent"):
                    continue
                out.append({"base": b["name"], "state": {"chunks": [name]}, "disk": core.b64(dd), "words": [["fv"], ["vc"], ["fv", "fv"]], "zh": ctx["zh"],
                            "always_tools": bi % 3 == 0})
            # marked valid first (scan or full read), damaged afterwards, scanned again on the same context
            for _ in range(3 if self.quick else 12):
                cs_ = [c for c in p.chunks if c["comp_len"]]
                if not cs_:
                    break
                pk = []
                for c in r.sample(cs_, r.randrange(1, min(3, len(cs_)) + 1)):
                    off = p.header_len + c["start"] + r.randrange(c["comp_len"])
                    pk.append([off, bytes([full[off] ^ (1 << r.randrange(8))]).hex()])
                out.append({"rescan": True, "base": b["name"], "disk": core.b64(full), "first": r.choice(["fv", "vc", "vd", "read"]), "pokes": pk,
                            "second": r.choice(["fv", "vc", "vd"]), "zh": ctx["zh"]})
        return out
