"""C16 - chunking is deterministic, content-defined and local.
Monitor: byte equality of the files produced from the same content through
different write-call segmentations (each in a fresh process); chunk tables of
an input and an edited copy compared through the reference parser (prefix
chunks identical, suffix resynchronisation sticks); size bounds of automatic
chunks against the effective limits read from the writer context."""
import os
import sys

sys.path.insert(0, os.path.join(os.path.dirname(os.path.abspath(__file__)), "..", "lib"))
import build
import core
import gen
import zckref


def chunk_table(Z):
    p = zckref.parse(Z)
    tab = []
    u = 0
    for c in p.chunks[1:]:
        a = p.header_len + c["start"]
        tab.append({"u0": u, "u1": u + c["len"], "digest": c["digest"], "stored": Z[a:a + c["comp_len"]]})
        u += c["len"]
    return p, tab


def write(case, cdir, D, seg, name):
    cfg = dict(case["cfg"])
    files = {"in.dat": D}
    if case.get("dict"):
        files["dict.bin"] = gen.content("license", case["dict"], 11)
        cfg["dict"] = "dict.bin"
    w = core.run_zh(case["zh"], cdir, gen.writer_script(cfg, seg=seg), files, name=name)
    cs = core.crash_signatures(w)
    cl = w.first(op="close")
    if cs:
        return None, w, cs
    if not cl or cl["rc"] != 1:
        return None, w, None
    return open(os.path.join(cdir, "out.zck"), "rb").read(), w, None


def edit(r, X, spec):
    kind, where, n = spec
    pos = {"start": 0, "middle": len(X) // 2, "end": max(0, len(X) - n)}.get(where)
    if pos is None:
        pos = where
    pos = max(0, min(len(X), pos))
    if kind == "insert":
        return X[:pos] + r.randbytes(n) + X[pos:]
    if kind == "delete":
        return X[:pos] + X[pos + n:]
    b = bytearray(X)
    for i in range(pos, min(len(X), pos + n)):
        b[i] ^= 0xA5
    return bytes(b)


def common_prefix(a, b):
    n = min(len(a), len(b))
    lo, hi = 0, n
    # binary search on equality of prefixes (cheap via slicing compare)
    while lo < hi:
        mid = (lo + hi + 1) // 2
        if a[:mid] == b[:mid]:
            lo = mid
        else:
            hi = mid - 1
    return lo


def common_suffix(a, b):
    n = min(len(a), len(b))
    lo, hi = 0, n
    while lo < hi:
        mid = (lo + hi + 1) // 2
        if a[len(a) - mid:] == b[len(b) - mid:]:
            lo = mid
        else:
            hi = mid - 1
    return lo


def worker(case):
    cdir = case["dir"]
    keep = False
    r = core.rng(case["i"], "C16", "edit")
    X = gen.content(*case["content"])
    cid = core.h8([case["content"], case["cfg"], case["segs"], case["edit"], case.get("dict")])
    stats = {"contents": 1}
    viol = None
    try:
        Z0, w0, cs = write(case, cdir, X, [1 << 30], "w_one")
        if cs:
            keep = True
            return core.verdict(cid, "violated", cs[:1], stats, detail="writer crashed %s" % cs, cdir=cdir, case=case)
        if Z0 is None:
            return core.verdict(cid, "unsupported", stats=stats)
        p0, t0 = chunk_table(Z0)
        ws = w0.first(op="wstate") or {}
        stats["chunks"] = len(t0)
        # (a) same bytes whatever the segmentation, and on a repeated run
        segs = [[1 << 30]] + case["segs"]
        if case.get("boundary_segs") and t0:
            # calls ending exactly at / one before / one after each chunk boundary of the first run
            for d in (0, -1, 1):
                s = []
                last = 0
                for c in t0[:-1]:
                    e = c["u1"] + d
                    if e > last:
                        s.append(e - last)
                        last = e
                s.append(1 << 30)
                segs.append(s)
        for si, seg in enumerate(segs):
            Z, w, cs = write(case, cdir, X, seg, "w_seg%d" % si)
            stats["writes"] = stats.get("writes", 0) + 1
            if cs:
                viol = (cs[0], "writer crashed with segmentation %d: %s" % (si, cs))
                break
            if Z is None:
                viol = ("c16:segmentation-changes-outcome", "write/close failed under segmentation %d but succeeded in one call" % si)
                break
            if Z != Z0:
                _, t = chunk_table(Z)
                kind = "boundaries" if [c["u1"] for c in t] != [c["u1"] for c in t0] else "bytes"
                sk = "repeat" if si == 0 else ("bytes1" if seg == [1] else ("at-boundary" if si >= 1 + len(case["segs"]) else "random"))
                viol = ("c16:nondeterministic:%s:%s" % (kind, sk), "file differs between one-call write and segmentation %s (%d vs %d chunks)" % (seg[:8], len(t), len(t0)))
                break
        # (c) size bounds of automatic chunks
        if not viol and not case["cfg"].get("manual") and ws:
            amin, amax = ws["auto_min"], ws["auto_max"]
            if not (ws["min"] <= amin <= amax <= ws["max"]):
                viol = ("c16:effective-bounds-outside-configured", "effective [%d,%d] configured [%d,%d]" % (amin, amax, ws["min"], ws["max"]))
            for c in t0[:-1]:
                n = c["u1"] - c["u0"]
                if n < amin or n > amax:
                    viol = ("c16:auto-chunk-size-%s" % ("below-min" if n < amin else "above-max"), "chunk of %d bytes outside [%d,%d]" % (n, amin, amax))
                    break
        # (b) locality
        if not viol and case["edit"]:
            Y = edit(r, X, case["edit"])
            ZY, wy, cs = write(case, cdir, Y, [1 << 30], "w_edit")
            if cs:
                viol = (cs[0], "writer crashed on edited content")
            elif ZY is not None:
                _, ty = chunk_table(ZY)
                pfx = common_prefix(X, Y)
                sfx = common_suffix(X, Y)
                sfx = min(sfx, len(X) - pfx, len(Y) - pfx) if pfx < min(len(X), len(Y)) else sfx
                ymap = {(c["u0"], c["u1"]): c for c in ty}
                nchk = 0
                for c in t0:
                    if c["u1"] < pfx:  # ends strictly before the first differing byte; following byte still shared
                        nchk += 1
                        o = ymap.get((c["u0"], c["u1"]))
                        if o is None or o["digest"] != c["digest"] or o["stored"] != c["stored"]:
                            viol = ("c16:prefix-chunk-changed:%s" % case["edit"][0], "chunk [%d,%d) of X (common prefix %d) has no identical chunk in Y; edit=%s" % (c["u0"], c["u1"], pfx, case["edit"]))
                            break
                stats["prefix_chunks_compared"] = nchk
                if not viol and sfx > 0:
                    # positions measured from the end
                    xs = {len(X) - c["u0"]: i for i, c in enumerate(t0) if len(X) - c["u0"] <= sfx}
                    ysx = {len(Y) - c["u0"]: i for i, c in enumerate(ty) if len(Y) - c["u0"] <= sfx}
                    commons = sorted(set(xs) & set(ysx), reverse=True)
                    if commons:
                        k = commons[0]
                        ta, tb = t0[xs[k]:], ty[ysx[k]:]
                        stats["suffix_chunks_compared"] = len(ta)
                        same = len(ta) == len(tb) and all(a["u1"] - a["u0"] == b["u1"] - b["u0"] and a["digest"] == b["digest"] and a["stored"] == b["stored"] for a, b in zip(ta, tb))
                        if not same:
                            viol = ("c16:suffix-diverges-after-resync:%s" % case["edit"][0], "both outputs start a chunk %d bytes before the end, later chunks differ; edit=%s" % (k, case["edit"]))
        if viol:
            keep = True
            return core.verdict(cid, "violated", [viol[0]], stats, detail=viol[1] + " cfg=%s content=%s" % (case["cfg"], case["content"]), cdir=cdir, case=case)
        return core.verdict(cid, "held", stats=stats, nontrivial=len(t0) >= 4,
                            sample={"content": case["content"], "cfg": case["cfg"], "dict": case.get("dict"), "chunks": len(t0), "segmentations": len(segs),
                                    "edit": case["edit"], "effective_bounds": [ws.get("auto_min"), ws.get("auto_max")]})
    finally:
        core.cleanup_case(cdir, keep)


class C16(core.Check):
    prop = "C16"
    flavours = ["asan"]
    rule = ("contents (text, license, random, periodic 47/48/49, mixed; 200-900 KB so that >= 4 chunks form) x automatic chunking with default and custom "
            "min/max x none/zstd x dictionary; each written in one call, repeated, in 1-byte calls (smaller inputs), random call sizes, and calls ending "
            "at / one before / one after every chunk boundary of the first run; plus one edit (insert/delete/replace of 1,47,48,49,4096 bytes at start / "
            "middle / end / chunk seams +-1) for the locality clauses. non-trivial = >= 4 data chunks")
    assumptions = ["chunk tables read through lib/zckref.py"]
    worker = staticmethod(worker)

    def prepare(self, fl):
        return {"zh": build.zh(fl["asan"])}

    def cases(self, ctx):
        r = core.rng(self.seed, "C16", "gen")
        n = 120 if self.quick else 4000
        kinds = ["text", "license", "random", "periodic:48", "periodic:47", "periodic:49", "mixed", "license", "mixed"]
        out = []
        for i in range(n):
            kind = kinds[i % len(kinds)]
            size = r.choice([200000, 300000, 500000, 900000]) if not self.quick else r.choice([150000, 250000, 400000])
            cfg = {"comp": r.choice([0, 2]), "level": r.choice([1, 3]) if True else None, "manual": False}
            bounds = r.choice([None, None, (None, 16384), (8192, 16384), (1, 131072), (20000, 65536), (None, 4096), (200000, 10 << 20), (100, 8192)])
            if bounds:
                if bounds[1] is not None:
                    cfg["cmax"] = bounds[1]
                if bounds[0] is not None:
                    cfg["cmax"] = cfg.get("cmax", 10 << 20)
                    cfg["cmin"] = bounds[0]
            segs = []
            # 1-byte calls: zstd mode reallocs its buffer per call, which is quadratic under
            # ASan's allocator (no in-place growth) - keep those inputs small
            if r.random() < 0.5:
                if cfg["comp"] == 0 and size <= 250000:
                    segs.append([1])
                elif cfg["comp"] == 2:
                    size = r.choice([40000, 60000])
                    segs.append([1])
            segs.append([r.choice([1, 2, 3, 47, 48, 49, 100, 4095, 4096, 8191, 8192, 8193, 32768, 70000]) for _ in range(10)])
            segs.append([r.randrange(1, 20000) for _ in range(16)])
            ek = r.choice(["insert", "delete", "replace"])
            en = r.choice([1, 47, 48, 49, 4096])
            ew = r.choice(["start", "middle", "end", r.randrange(0, size), 8192 + r.choice([-1, 0, 1]), 32768 + r.choice([-1, 0, 1])])
            out.append({"i": i, "content": [kind, size, i], "cfg": cfg, "segs": segs, "boundary_segs": r.random() < (0.5 if self.quick else 0.8),
                        "edit": [ek, ew, en], "dict": r.choice([None, None, 2000]) if cfg["comp"] == 2 else None, "zh": ctx["zh"]})
        return out
