"""C16 - chunking is deterministic, content-defined and local.
Monitor: byte equality of the files produced from the same content through
different write-call segmentations (each in a fresh process); chunk tables of
an input and an edited copy compared through the reference parser (prefix
chunks identical, suffix resynchronisation sticks); size bounds of automatic
chunks against the effective limits read from the writer context."""
import os
import sys

sys.path.insert(0, os.path.join(os.path.dirname(os.path.abspath(__file__)), "..", "lib"))
import base64
import subprocess
import threading
import time

import build
import buz
import core
import gen
import zckref


def chunk_table(Z):
    p = zckref.parse(Z)
    tab = []
    u = 0
    for c in p.chunks[1:]:
        a = p.header_len + c["start"]
        tab.append({"u0": u, "u1": u + c["len"], "digest": c["digest"], "stored": Z[a:a + c["comp_len"]]})
        u += c["len"]
    return p, tab


def write(case, cdir, D, seg, name, companion=None):
    cfg = dict(case["cfg"])
    files = {"in.dat": D}
    if case.get("dict"):
        files["dict.bin"] = gen.content("license", case["dict"], 11)
        cfg["dict"] = "dict.bin"
    if companion:
        files["other.dat"] = gen.content(*companion["content"])
        cfg["companion"] = {"file": "other.dat", "piece": companion["piece"], "comp": companion.get("comp", cfg.get("comp", 2)), "cmin": cfg.get("cmin"), "cmax": cfg.get("cmax")}
    w = core.run_zh(case["zh"], cdir, gen.writer_script(cfg, seg=seg), files, name=name)
    cs = core.crash_signatures(w)
    cl = w.first(op="close")
    if cs:
        return None, w, cs
    if not cl or cl["rc"] != 1:
        return None, w, None
    return open(os.path.join(cdir, "out.zck"), "rb").read(), w, None


def edit(r, X, spec):
    kind, where, n = spec
    pos = {"start": 0, "middle": len(X) // 2, "end": max(0, len(X) - n)}.get(where)
    if pos is None:
        pos = where
    pos = max(0, min(len(X), pos))
    if kind == "insert":
        return X[:pos] + r.randbytes(n) + X[pos:]
    if kind == "delete":
        return X[:pos] + X[pos + n:]
    b = bytearray(X)
    for i in range(pos, min(len(X), pos + n)):
        b[i] ^= 0xA5
    return bytes(b)


def common_prefix(a, b):
    n = min(len(a), len(b))
    lo, hi = 0, n
    # binary search on equality of prefixes (cheap via slicing compare)
    while lo < hi:
        mid = (lo + hi + 1) // 2
        if a[:mid] == b[:mid]:
            lo = mid
        else:
            hi = mid - 1
    return lo


def common_suffix(a, b):
    n = min(len(a), len(b))
    lo, hi = 0, n
    while lo < hi:
        mid = (lo + hi + 1) // 2
        if a[len(a) - mid:] == b[len(b) - mid:]:
            lo = mid
        else:
            hi = mid - 1
    return lo


def locality(X, t0, Y, ty, label, stats, what):
    """Prefix and suffix clauses of the property over two chunk tables; returns a violation tuple or None."""
    pfx = common_prefix(X, Y)
    sfx = common_suffix(X, Y)
    sfx = min(sfx, len(X) - pfx, len(Y) - pfx) if pfx < min(len(X), len(Y)) else sfx
    ymap = {(c["u0"], c["u1"]): c for c in ty}
    nchk = 0
    for c in t0:
        if c["u1"] < pfx:  # ends strictly before the first differing byte; following byte still shared
            nchk += 1
            o = ymap.get((c["u0"], c["u1"]))
            if o is None or o["digest"] != c["digest"] or o["stored"] != c["stored"]:
                return ("c16:prefix-chunk-changed:%s" % label, "chunk [%d,%d) of X (common prefix %d) has no identical chunk in Y; %s" % (c["u0"], c["u1"], pfx, what))
    stats["prefix_chunks_compared"] = stats.get("prefix_chunks_compared", 0) + nchk
    if sfx > 0:
        # positions measured from the end
        xs = {len(X) - c["u0"]: i for i, c in enumerate(t0) if len(X) - c["u0"] <= sfx}
        ysx = {len(Y) - c["u0"]: i for i, c in enumerate(ty) if len(Y) - c["u0"] <= sfx}
        commons = sorted(set(xs) & set(ysx), reverse=True)
        if commons:
            k = commons[0]
            ta, tb = t0[xs[k]:], ty[ysx[k]:]
            stats["suffix_chunks_compared"] = stats.get("suffix_chunks_compared", 0) + len(ta)
            same = len(ta) == len(tb) and all(a["u1"] - a["u0"] == b["u1"] - b["u0"] and a["digest"] == b["digest"] and a["stored"] == b["stored"] for a, b in zip(ta, tb))
            if not same:
                return ("c16:suffix-diverges-after-resync:%s" % label, "both outputs start a chunk %d bytes before the end, later chunks differ; %s" % (k, what))
    return None


def dense_input(case, cdir, stats):
    """Content with crafted rolling-hash hits (lib/buz.py), aimed with the effective bounds of this configuration."""
    d = case["dense"]
    Zp, wp, cs = write(case, cdir, b"x", [1 << 30], "w_probe")
    ws = (wp.first(op="wstate") or {}) if wp else {}
    amin, amax = ws.get("auto_min") or 8192, ws.get("auto_max") or 131072
    model = buz.Model(d["table"])
    X, notes = buz.dense_content(model, core.rng(case["i"], "C16", "dense"), d["layout"], amin, amax, d["size"])
    if X is None:
        return None, None
    for k in ("crafted", "shadow_clean", "shadow_disturbed"):
        stats["dense_" + k + "_hits"] = notes[k]
    stats["dense_contents"] = 1
    return X, notes


def affinity_worker(case):
    """Same content, same configuration, two processes that differ only in how many CPUs they may use: the file must not differ
    (chunks beyond 1 MiB included, where a compressor could decide to split the work)."""
    cdir = case["dir"]
    keep = False
    os.makedirs(cdir, exist_ok=True)
    X = gen.content(*case["content"])
    cid = core.h8(["affinity", case["content"], case["cfg"], case["seg"]])
    stats = {"affinity_pairs": 1}
    try:
        outs = {}
        for tag, prefix in (("all", []), ("one", ["taskset", "-c", str(case["cpu"])])):
            files = {"in.dat": X}
            w = core.run_zh(case["zh"], os.path.join(cdir, tag), gen.writer_script(case["cfg"], seg=case["seg"]), files, name="w", prefix=prefix, cpu=120)
            cs = core.crash_signatures(w)
            if cs:
                keep = True
                return core.verdict(cid, "violated", cs[:1], stats, detail="writer crashed (%s): %s" % (tag, cs), cdir=cdir, case=case)
            cl = w.first(op="close")
            if not cl or cl["rc"] != 1:
                return core.verdict(cid, "inconclusive", detail="writer failed (%s): rc=%s %r" % (tag, w.rc, w.stderr[-200:]), case=case)
            outs[tag] = open(os.path.join(cdir, tag, "out.zck"), "rb").read()
        _, t = chunk_table(outs["all"])
        stats["affinity_largest_chunk"] = [max([c["u1"] - c["u0"] for c in t] or [0])]
        if outs["all"] != outs["one"]:
            keep = True
            _, t1 = chunk_table(outs["one"])
            kind = "boundaries" if [c["u1"] for c in t] != [c["u1"] for c in t1] else "stored-bytes"
            return core.verdict(cid, "violated", ["c16:nondeterministic:%s:cpu-affinity" % kind], stats,
                                detail="file written with all CPUs differs from the file written pinned to CPU %d (%d vs %d bytes) cfg=%s" % (case["cpu"], len(outs["all"]), len(outs["one"]), case["cfg"]),
                                cdir=cdir, case=case)
        return core.verdict(cid, "held", stats=stats, nontrivial=True, sample={"affinity": True, "cfg": case["cfg"], "content": case["content"], "largest_chunk": stats["affinity_largest_chunk"]})
    finally:
        core.cleanup_case(cdir, keep)


def worker(case):
    if case.get("kind") == "cli":
        return cli_worker(case)
    if case.get("kind") == "affinity":
        return affinity_worker(case)
    cdir = case["dir"]
    keep = False
    r = core.rng(case["i"], "C16", "edit")
    stats = {"contents": 1}
    marks = []
    if case.get("dense"):
        os.makedirs(cdir, exist_ok=True)
        X, notes = dense_input(case, cdir, stats)
        if X is None:
            return core.verdict("dense%d" % case["i"], "inconclusive", detail="could not build dense content", case=case)
        marks = notes["marks"]
    else:
        X = gen.content(*case["content"])
    cid = core.h8([case["content"], case["cfg"], case["segs"], case["edit"], case.get("dict"), (case.get("dense") or {}).get("layout"), case.get("companions")])
    viol = None
    try:
        Z0, w0, cs = write(case, cdir, X, [1 << 30], "w_one")
        if cs:
            keep = True
            return core.verdict(cid, "violated", cs[:1], stats, detail="writer crashed %s" % cs, cdir=cdir, case=case)
        if Z0 is None:
            return core.verdict(cid, "unsupported", stats=stats)
        p0, t0 = chunk_table(Z0)
        ws = w0.first(op="wstate") or {}
        stats["chunks"] = len(t0)
        # (a) same bytes whatever the segmentation, and on a repeated run
        segs = [[1 << 30]] + case["segs"]
        if case.get("boundary_segs") and t0:
            # calls ending exactly at / one before / one after each chunk boundary of the first run
            for d in (0, -1, 1):
                s = []
                last = 0
                for c in t0[:-1]:
                    e = c["u1"] + d
                    if e > last:
                        s.append(e - last)
                        last = e
                s.append(1 << 30)
                segs.append(s)
        nb = len(segs)
        if marks:
            # calls whose last byte / whose first byte is a crafted hit byte
            stats["dense_boundaries_on_crafted_hits"] = len(set(c["u1"] for c in t0[:-1]) & set(marks))
            for d in (1, 0):
                s = []
                last = 0
                for m_ in marks:
                    e = m_ + d
                    if e > last:
                        s.append(e - last)
                        last = e
                s.append(1 << 30)
                segs.append(s)
        for si, seg in enumerate(segs):
            Z, w, cs = write(case, cdir, X, seg, "w_seg%d" % si)
            stats["writes"] = stats.get("writes", 0) + 1
            if cs:
                viol = (cs[0], "writer crashed with segmentation %d: %s" % (si, cs))
                break
            if Z is None:
                viol = ("c16:segmentation-changes-outcome", "write/close failed under segmentation %d but succeeded in one call" % si)
                break
            if Z != Z0:
                _, t = chunk_table(Z)
                kind = "boundaries" if [c["u1"] for c in t] != [c["u1"] for c in t0] else "bytes"
                sk = "repeat" if si == 0 else ("bytes1" if seg == [1] else ("at-crafted-hit" if si >= nb else ("at-boundary" if si >= 1 + len(case["segs"]) else "random")))
                viol = ("c16:nondeterministic:%s:%s" % (kind, sk), "file differs between one-call write and segmentation %s (%d vs %d chunks)" % (seg[:8], len(t), len(t0)))
                break
        # (a') ... and whatever ELSE the same thread writes meanwhile: a second archive fed between the calls (the file is a function
        # of content and configuration only)
        if not viol and case.get("companions"):
            for ci, cpn in enumerate(case["companions"]):
                Z, w, cs = write(case, cdir, X, cpn["seg"], "w_side%d" % ci, companion=cpn)
                stats["writes_beside_a_second_archive"] = stats.get("writes_beside_a_second_archive", 0) + 1
                st = w.first(op="companion_stat") or {}
                stats["second_archive_write_calls"] = stats.get("second_archive_write_calls", 0) + st.get("calls", 0)
                if cs:
                    viol = (cs[0], "writer crashed beside a second archive: %s" % cs)
                elif Z is None:
                    viol = ("c16:second-archive-changes-outcome", "write/close failed while a second archive was written in the same thread")
                elif Z != Z0:
                    _, t = chunk_table(Z)
                    kind = "boundaries" if [c["u1"] for c in t] != [c["u1"] for c in t0] else "bytes"
                    viol = ("c16:nondeterministic:%s:second-archive-in-same-thread" % kind,
                            "file differs when a second archive (%s, pieces of %d) is written between the calls (%d vs %d chunks)" % (cpn["content"], cpn["piece"], len(t), len(t0)))
                if viol:
                    break
        # (c) size bounds of automatic chunks
        if not viol and not case["cfg"].get("manual") and ws:
            amin, amax = ws["auto_min"], ws["auto_max"]
            if not (ws["min"] <= amin <= amax <= ws["max"]):
                viol = ("c16:effective-bounds-outside-configured", "effective [%d,%d] configured [%d,%d]" % (amin, amax, ws["min"], ws["max"]))
            for c in t0[:-1]:
                n = c["u1"] - c["u0"]
                if n < amin or n > amax:
                    viol = ("c16:auto-chunk-size-%s" % ("below-min" if n < amin else "above-max"), "chunk of %d bytes outside [%d,%d]" % (n, amin, amax))
                    break
        # (b) locality
        if not viol and case["edit"]:
            especs = [case["edit"]]
            if case.get("dense") and t0:
                # additionally edit right at / around a chunk seam and a crafted hit of this content
                seam = t0[len(t0) // 2]["u0"]
                especs.append([r.choice(["insert", "delete", "replace"]), seam + r.choice([-49, -48, -47, -2, -1, 0, 1, 2, 47, 48]), r.choice([1, 2, 48])])
            for es in especs:
                Y = edit(r, X, es)
                ZY, wy, cs = write(case, cdir, Y, [1 << 30], "w_edit")
                if cs:
                    viol = (cs[0], "writer crashed on edited content")
                elif ZY is not None:
                    _, ty = chunk_table(ZY)
                    viol = locality(X, t0, Y, ty, es[0], stats, "edit=%s" % es)
                if viol:
                    break
        if viol:
            keep = True
            return core.verdict(cid, "violated", [viol[0]], stats, detail=viol[1] + " cfg=%s content=%s" % (case["cfg"], case["content"]), cdir=cdir, case=case)
        return core.verdict(cid, "held", stats=stats, nontrivial=len(t0) >= 4,
                            sample={"content": case["content"], "cfg": case["cfg"], "dict": case.get("dict"), "chunks": len(t0), "segmentations": len(segs),
                                    "edit": case["edit"], "effective_bounds": [ws.get("auto_min"), ws.get("auto_max")]})
    finally:
        core.cleanup_case(cdir, keep)


# ---------------------------------------------------------------- zck tool tier
def feed_fifo(path, data, pieces):
    """Deliver `data` through a FIFO in pieces; the next piece is written only once the reader has drained the
    previous one, so the tool's read() calls return exactly these sizes (each <= 32768)."""
    import fcntl
    import struct
    import termios
    try:
        fd = os.open(path, os.O_WRONLY)
    except OSError:
        return
    try:
        pos = 0
        k = 0
        while pos < len(data):
            n = pieces[k % len(pieces)]
            k += 1
            os.write(fd, data[pos:pos + n])
            pos += n
            t0 = time.time()
            while time.time() - t0 < 20:
                q = struct.unpack("i", fcntl.ioctl(fd, termios.FIONREAD, b"\0\0\0\0"))[0]
                if q == 0:
                    break
                time.sleep(0.0002)
            time.sleep(0.0005)   # let the reader finish the read() that emptied the pipe before more arrives
    except OSError:
        pass
    finally:
        os.close(fd)


def run_zck(case, cdir, X, name, pieces=None):
    """zck (ASan build) on content X; through a regular file, or through a FIFO delivering `pieces`."""
    out = os.path.join(cdir, name + ".zck")
    inp = os.path.join(cdir, name + ".in")
    if os.path.exists(out):
        os.unlink(out)
    th = None
    if pieces:
        if os.path.exists(inp):
            os.unlink(inp)
        os.mkfifo(inp)
        th = threading.Thread(target=feed_fifo, args=(inp, X, pieces), daemon=True)
        th.start()
    else:
        open(inp, "wb").write(X)
    argv = [case["zck"]] + case["args"] + ["-o", out, inp]
    r = core.run_proc(argv, cdir)
    if th:
        th.join(timeout=30)
    cs = core.crash_signatures(r, where="tool:zck")
    if cs:
        return None, cs
    if r.rc != 0 or not os.path.exists(out):
        return None, None
    return open(out, "rb").read(), None


def cli_content(r, spec):
    """Text in which the split string starts at every alignment relative to the tool's 32 KiB read blocks
    (incl. straddling them), appears back to back, and leaves partial matches around block ends."""
    S = spec["split"].encode()
    size = spec["size"]
    base = bytearray(gen.content("text", size, spec["i"]).replace(S, b"#" * len(S)))
    j = 0
    m = 1
    while 32768 * m + len(S) + 4 < size:
        pos = 32768 * m - (j % (len(S) + 3)) + 1
        base[pos:pos + len(S)] = S
        if j % 4 == 1:
            base[pos + len(S):pos + 2 * len(S)] = S                       # back to back
        if j % 4 == 2 and len(S) > 1:
            q = 32768 * m + 16384
            base[q - len(S) + 1:q] = S[:-1]                                # partial match, then a mismatch
        j += 1
        m += 1 if spec.get("every_block") else r.choice([1, 1, 2])
    for _ in range(spec.get("extra", 8)):
        pos = r.randrange(0, max(1, size - len(S)))
        base[pos:pos + len(S)] = S
    return bytes(base[:size])


def cli_worker(case):
    cdir = case["dir"]
    keep = False
    os.makedirs(cdir, exist_ok=True)
    r = core.rng(case["i"], "C16", "cli")
    X = cli_content(r, case["spec"])
    cid = core.h8(["cli", case["spec"], case["args"], case["pieces"], case["shifts"]])
    stats = {"cli_contents": 1}
    viol = None
    try:
        Z0, cs = run_zck(case, cdir, X, "x")
        stats["cli_runs"] = 1
        if cs:
            keep = True
            return core.verdict(cid, "violated", cs[:1], stats, detail="zck crashed: %s" % cs, cdir=cdir, case=case)
        if Z0 is None:
            return core.verdict(cid, "inconclusive", detail="zck failed on a plain input", case=case)
        _, t0 = chunk_table(Z0)
        stats["cli_chunks"] = len(t0)
        # same content, same options, different read() sizes
        for pi, pieces in enumerate(case["pieces"]):
            Z, cs = run_zck(case, cdir, X, "p%d" % pi, pieces=pieces)
            stats["cli_runs"] += 1
            stats["cli_fifo_runs"] = stats.get("cli_fifo_runs", 0) + 1
            if cs:
                viol = (cs[0], "zck crashed reading pieces %s: %s" % (pieces[:6], cs))
                break
            if Z is None:
                viol = ("c16:cli:read-sizes-change-outcome", "zck failed when its input arrived in pieces %s" % pieces[:6])
                break
            if Z != Z0:
                _, t = chunk_table(Z)
                kind = "boundaries" if [c["u1"] for c in t] != [c["u1"] for c in t0] else "bytes"
                viol = ("c16:cli:nondeterministic:%s:read-sizes" % kind, "zck output differs between a regular file and the same bytes arriving in read() pieces %s (%d vs %d chunks)"
                        % (pieces[:6], len(t0), len(t)))
                break
        # locality: bytes inserted near the start move every later byte to another place in the tool's read blocks
        if not viol:
            for k in case["shifts"]:
                Y = X[:7] + bytes((65 + (i % 23)) for i in range(k)) + X[7:]
                ZY, cs = run_zck(case, cdir, Y, "s%d" % k)
                stats["cli_runs"] += 1
                if cs:
                    viol = (cs[0], "zck crashed on shifted content: %s" % cs)
                    break
                if ZY is None:
                    viol = ("c16:cli:shift-changes-outcome", "zck failed on the content shifted by %d bytes" % k)
                    break
                _, ty = chunk_table(ZY)
                viol = locality(X, t0, Y, ty, "cli-shift", stats, "%d bytes inserted at offset 7, args=%s" % (k, case["args"]))
                if viol:
                    viol = (viol[0].replace("c16:", "c16:cli:"), viol[1])
                    break
        if viol:
            keep = True
            return core.verdict(cid, "violated", [viol[0]], stats, detail=viol[1] + " spec=%s args=%s" % (case["spec"], case["args"]), cdir=cdir, case=case)
        return core.verdict(cid, "held", stats=stats, nontrivial=len(t0) >= 4,
                            sample={"tool": "zck", "args": case["args"], "spec": case["spec"], "chunks": len(t0), "fifo_piece_lists": len(case["pieces"]), "shifts": case["shifts"]})
    finally:
        core.cleanup_case(cdir, keep)


class C16(core.Check):
    prop = "C16"
    flavours = ["asan"]
    rule = ("four families.  (1) contents (text, license, random, periodic 47/48/49, mixed; 200-900 KB so that >= 4 chunks form) x automatic chunking with default and custom "
            "min/max (incl. minimum == maximum: 512, 4096, 8192, 16384, 131072) x none/zstd x dictionary; every third content also with a second archive written in the same thread between the calls; each written in one call, repeated, in 1-byte calls (smaller inputs), random call sizes, and calls ending "
            "at / one before / one after every chunk boundary of the first run; plus one edit (insert/delete/replace of 1,47,48,49,4096 bytes at start / "
            "middle / end / chunk seams +-1) for the locality clauses.  (2) hit-dense contents built with the tree's own buzhash table (lib/buz.py): refused hits 1..60 bytes "
            "below the effective minimum, second hits inside the 48-byte shadow of a refused one, hits at max-2..max+2, a hit every 48..400 bytes; same oracles, plus "
            "write calls that end on / start with every crafted hit byte and edits around chunk seams.  (3) the same writer run with all CPUs and pinned to one CPU (chunks of several MiB included).  (4) the zck tool with -s / -m -s / automatic chunking: split strings "
            "at every alignment to its 32 KiB read blocks (straddling, back to back, partial matches), same bytes through a FIFO in controlled read() sizes, and the "
            "content shifted by k bytes (locality clauses over the chunk tables).  non-trivial = >= 4 data chunks")
    assumptions = ["chunk tables read through lib/zckref.py"]
    worker = staticmethod(worker)

    def prepare(self, fl):
        ctx = {"zh": build.zh(fl["asan"]), "zck": fl["asan"].tool("zck"), "table": buz.load_table(build.REPO)}
        self.count("buzhash_table_read_from_tree", 1 if ctx["table"] else 0)
        if ctx["table"]:
            # calibration (information only): does the aiming model predict the real boundaries of a hit-dense content?
            m = buz.Model(ctx["table"])
            X, notes = buz.dense_content(m, core.rng(self.seed, "C16", "calib"), "mixed", 8192, 131072, 400000)
            cd = os.path.join(self.work, "calib")
            Z, w, cs = write({"cfg": {"comp": 0, "manual": False}, "zh": ctx["zh"]}, cd, X, [1 << 30], "calib")
            ok = False
            if Z is not None:
                _, t = chunk_table(Z)
                ok = [c["u1"] for c in t[:-1]] == m.chunks(X, 8192, 131072)
            self.count("aiming_model_matches_library_on_calibration_content", 1 if ok else 0)
        return ctx

    def cases(self, ctx):
        r = core.rng(self.seed, "C16", "gen")
        n = 120 if self.quick else 4000
        kinds = ["text", "license", "random", "periodic:48", "periodic:47", "periodic:49", "mixed", "license", "mixed"]
        out = []
        for i in range(n):
            kind = kinds[i % len(kinds)]
            size = r.choice([200000, 300000, 500000, 900000]) if not self.quick else r.choice([150000, 250000, 400000])
            cfg = {"comp": r.choice([0, 2]), "level": r.choice([1, 3]) if True else None, "manual": False}
            bounds = r.choice([None, None, (None, 16384), (8192, 16384), (1, 131072), (20000, 65536), (None, 4096), (200000, 10 << 20), (100, 8192),
                               (4096, 4096), (512, 512), (8192, 8192), (16384, 16384), (131072, 131072), (8191, 8192), (300, 301)])
            if bounds:
                if bounds[1] is not None:
                    cfg["cmax"] = bounds[1]
                if bounds[0] is not None:
                    cfg["cmax"] = cfg.get("cmax", 10 << 20)
                    cfg["cmin"] = bounds[0]
            segs = []
            # 1-byte calls: zstd mode reallocs its buffer per call, which is quadratic under
            # ASan's allocator (no in-place growth) - keep those inputs small
            if r.random() < 0.5:
                if cfg["comp"] == 0 and size <= 250000:
                    segs.append([1])
                elif cfg["comp"] == 2:
                    size = r.choice([40000, 60000])
                    segs.append([1])
            segs.append([r.choice([1, 2, 3, 47, 48, 49, 100, 4095, 4096, 8191, 8192, 8193, 32768, 70000]) for _ in range(10)])
            segs.append([r.randrange(1, 20000) for _ in range(16)])
            ek = r.choice(["insert", "delete", "replace"])
            en = r.choice([1, 47, 48, 49, 4096])
            ew = r.choice(["start", "middle", "end", r.randrange(0, size), 8192 + r.choice([-1, 0, 1]), 32768 + r.choice([-1, 0, 1])])
            companions = []
            if i % 3 == 0:
                companions = [{"content": [r.choice(kinds), r.choice([60000, 150000]), 700000 + i], "piece": r.choice([1, 48, 4096, 70000]), "comp": r.choice([0, 2]),
                               "seg": r.choice([[4096], [r.choice([1, 47, 48, 49, 100, 8192, 32768]) for _ in range(8)], [65536]])}]
                if cfg["comp"] == 2 and companions[0]["seg"] != [65536] and size > 100000:
                    companions[0]["seg"] = [r.choice([4096, 8192, 20000]) for _ in range(6)]   # (small calls on large zstd inputs: quadratic under ASan)
            out.append({"i": i, "content": [kind, size, i], "cfg": cfg, "segs": segs, "boundary_segs": r.random() < (0.5 if self.quick else 0.8), "companions": companions,
                        "edit": [ek, ew, en], "dict": r.choice([None, None, 2000]) if cfg["comp"] == 2 else r.choice([None, None, None, 3000]), "zh": ctx["zh"]})
        # hit-dense contents: crafted rolling-hash hits around the minimum / maximum size and in each other's shadow
        if ctx.get("table"):
            nd = 48 if self.quick else 1500
            for j in range(nd):
                i = 100000 + j
                layout = ["minedge", "minedge", "tight", "maxedge", "mixed", "minedge"][j % 6]
                cfg = {"comp": r.choice([0, 0, 2]), "level": 1, "manual": False}
                bounds = r.choice([None, (8192, 16384), (None, 16384), (20000, 65536), (100, 8192), (12000, 40000)]) if layout != "maxedge" else r.choice([(8192, 16384), (None, 16384), (9000, 20000)])
                if bounds:
                    cfg["cmax"] = bounds[1]
                    if bounds[0] is not None:
                        cfg["cmin"] = bounds[0]
                size = r.choice([120000, 200000, 300000]) if cfg["comp"] == 0 else r.choice([60000, 120000])
                segs = [[r.choice([1, 2, 47, 48, 49, 4096, 8191, 8192, 8193, 32768]) for _ in range(10)], [r.randrange(1, 20000) for _ in range(16)]]
                if cfg["comp"] == 0 and size <= 120000:
                    segs.append([1])
                out.append({"i": i, "content": ["dense:" + layout, size, i], "dense": {"layout": layout, "size": size, "table": ctx["table"]}, "cfg": cfg, "segs": segs,
                            "boundary_segs": True, "edit": [r.choice(["insert", "delete", "replace"]), r.randrange(0, size), r.choice([1, 47, 48, 49])],
                            "dict": r.choice([None, None, 4096, 300]), "zh": ctx["zh"]})
        # the machine the writer runs on: one usable CPU versus all of them (chunks of several MiB included)
        import shutil
        if shutil.which("taskset") and len(os.sched_getaffinity(0)) >= 2:
            specs = [({"comp": 2, "level": 3, "manual": True, "cmax": 64 << 20}, [3000000, "e", 1200000, "e"], 4400000),
                     ({"comp": 2, "level": 1, "manual": False, "cmax": 8 << 20, "cmin": 1500000}, [1 << 20], 5000000),
                     ({"comp": 2, "level": 3, "manual": False}, [65536], 600000)]
            if not self.quick:
                specs += [({"comp": 2, "level": 19, "manual": True, "cmax": 64 << 20}, [2500000, "e"], 2500000), ({"comp": 0, "manual": True, "cmax": 64 << 20}, [3000000, "e"], 3500000),
                          ({"comp": 2, "level": 9, "manual": True, "cmax": 64 << 20, "dict": None}, [9000000, "e"], 9000000)]
            for j, (cfg, seg, size) in enumerate(specs):
                out.append({"kind": "affinity", "content": [r.choice(["text", "license", "mixed"]), size, 300000 + j], "cfg": cfg, "seg": seg, "cpu": sorted(os.sched_getaffinity(0))[j % 2], "zh": ctx["zh"]})
            self.count("affinity_cases", len(specs))
        # the zck tool: split strings against its 32 KiB read blocks, read() sizes, shifted contents
        nc = 24 if self.quick else 600
        for j in range(nc):
            i = 200000 + j
            split = r.choice(["<text:", "@@", "\n\n", "SPLIT-HERE-0123456789", "ab", "x"])
            args = r.choice([["-m", "-s", split], ["-s", split], ["-m", "-s", split, "--compression-format", "none"], ["-s", split, "--compression-format", "none"], []])
            spec = {"split": split, "size": r.choice([140000, 200000, 330000]), "i": i, "every_block": r.random() < 0.5, "extra": r.choice([0, 8, 40])}
            pieces = [[32768], [r.choice([1000, 4096, 32767, 32768, 100, 20000]) for _ in range(7)], [32768, 1, 32767, 2, 32766, len(split)]]
            if spec["size"] <= 140000:
                pieces.append([97])
            shifts = sorted(set([1, len(split), r.randrange(1, 40), r.choice([32767, 32768, 32769, 16384])]))
            out.append({"kind": "cli", "i": i, "spec": spec, "args": args, "pieces": pieces, "shifts": shifts, "zck": ctx["zck"]})
        return out
