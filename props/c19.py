"""C19 - independent contexts do not interfere when used from different threads.
Monitor: ThreadSanitizer (happens-before race detection) on a multi-threaded
harness in which every thread works on its own contexts and files (write,
read, validate, random access, copy_chunks, find_matching_chunks,
missing-range + download callbacks, opening malformed files that reach the
"Unknown(...)" name buffers); reports are kept only if a stack contains a
frame of the tree's src/lib, and are deduplicated by the pair of innermost
library functions.  Second monitor: the per-thread return-value/fingerprint
logs of the parallel run must equal those of the same programs run serially.
Both the OpenSSL and the bundled-SHA builds are exercised."""
import os
import re
import sys

sys.path.insert(0, os.path.join(os.path.dirname(os.path.abspath(__file__)), "..", "lib"))
import build
import core
import zckref

RACE_SPLIT = re.compile(r"(?=^WARNING: ThreadSanitizer: )", re.M)
FRAME = re.compile(r"#\d+ (\S+) (\S+?):(\d+)")


def tsan_reports(text):
    """[(kind, [lib function per stack], summary)] for reports touching src/lib."""
    out = []
    for blk in RACE_SPLIT.split(text or ""):
        m = re.match(r"WARNING: ThreadSanitizer: ([^\(\n]+)", blk)
        if not m:
            continue
        kind = m.group(1).strip()
        stacks = re.split(r"\n\s*\n", blk)
        libfuncs = []
        for st in stacks:
            if not re.search(r"^\s+(Write|Read|Previous|Atomic|Location|Mutex)", st, re.M) and "of size" not in st:
                continue
            for fm in FRAME.finditer(st):
                fn, path = fm.group(1), fm.group(2)
                if "/src/lib/" in path and "/harness/" not in path:
                    libfuncs.append(fn)
                    break
        if libfuncs:
            out.append((kind, libfuncs[:2], blk[:1500]))
    return out


def overlaps(workdir, n):
    ev = []
    for k in range(n):
        try:
            for ln in open(os.path.join(workdir, "t%d.times" % k)):
                op, a, b = ln.split()
                ev.append((float(a), float(b), op, k))
        except FileNotFoundError:
            pass
    pairs = set()
    ev.sort()
    for i, (a, b, op, k) in enumerate(ev):
        j = i + 1
        while j < len(ev) and ev[j][0] < b:
            if ev[j][3] != k:
                pairs.add("+".join(sorted([op, ev[j][2]])))
            j += 1
    return pairs


def worker(case):
    cdir = case["dir"]
    os.makedirs(cdir, exist_ok=True)
    keep = False
    cid = core.h8([case["flavour"], case["n"], case["rounds"], case["hseed"], case.get("log")])
    stats = {"evaluations": 1}
    try:
        fx = os.path.join(cdir, "fx")
        os.makedirs(fx, exist_ok=True)
        for k in range(16):
            pieces = [bytes([65 + k]) * 50, b"xyz" * 30]
            open(os.path.join(fx, "hash%d.zck" % k), "wb").write(zckref.build(**_kw(pieces, chunk_hash_type=40 + k)))
            open(os.path.join(fx, "comp%d.zck" % k), "wb").write(zckref.build(**_kw(pieces, comp_type=50 + k)))
        res = {}
        for mode in ("par", "ser"):
            wd = os.path.join(cdir, mode)
            os.makedirs(wd, exist_ok=True)
            env = core.san_env(wd)
            env["TSAN_OPTIONS"] = core.TSAN_OPTS + ":log_path=" + os.path.join(wd, "san")
            r = core.run_proc([case["bin"], str(case["n"]), str(case["rounds"]), str(case["hseed"]), wd, mode, fx] + (["log"] if case.get("log") else []), wd, env=env, cpu=600, wall=3000)
            if r.timed_out:
                return core.verdict(cid, "inconclusive", detail="watchdog (%s)" % mode, case=case)
            if r.rc not in (0, 66):
                if r.sig or r.rc not in (0, 66):
                    keep = True
                    return core.verdict(cid, "violated", ["c19:harness-crashed:%s:%s" % (mode, r.sig or r.rc)], stats,
                                        detail="h_mt %s run ended rc=%s sig=%s stderr=%r" % (mode, r.rc, r.sig, r.stderr[-400:]), cdir=cdir, case=case)
            res[mode] = r
        viols = []
        reps = tsan_reports(res["par"].san)
        stats["tsan_reports_in_library"] = len(reps)
        seen = set()
        for kind, funcs, blk in reps:
            key = "c19:tsan:%s:%s" % (kind.replace(" ", "-"), "<->".join(sorted(set(funcs))))
            if key not in seen:
                seen.add(key)
                viols.append((key, blk))
        # serial equality
        ndiff = 0
        for k in range(case["n"]):
            a = open(os.path.join(cdir, "par", "t%d.log" % k)).read().split("\n")
            b = open(os.path.join(cdir, "ser", "t%d.log" % k)).read().split("\n")
            stats["log_lines_compared"] = stats.get("log_lines_compared", 0) + len(b)
            if a != b:
                ndiff += 1
                d = next((i for i in range(min(len(a), len(b))) if a[i] != b[i]), min(len(a), len(b)))
                la = a[d] if d < len(a) else "<missing>"
                lb = b[d] if d < len(b) else "<missing>"
                what = (lb.split()[1] if len(lb.split()) > 1 else "?")
                viols.append(("c19:parallel-differs-from-serial:%s" % what, "thread %d line %d: parallel %r vs serial %r" % (k, d, la[:200], lb[:200])))
        # sanity of the serial baseline itself (otherwise equality proves nothing)
        hand = [ln for k in range(case["n"]) for ln in open(os.path.join(cdir, "ser", "t%d.log" % k)) if " handoff " in ln]
        stats["contexts_opened_by_main_thread_and_read_by_a_worker"] = len([ln for ln in hand if " ok=1 " in ln])
        if len(hand) != case["n"] or any(" ok=1 " not in ln for ln in hand):
            return core.verdict(cid, "inconclusive", detail="handoff contexts did not read back in the serial run: %s" % hand[:2], case=case)
        bad = [ln for k in range(case["n"]) for ln in open(os.path.join(cdir, "ser", "t%d.log" % k)) if " rc=-" in ln and "write" in ln]
        if bad:
            return core.verdict(cid, "inconclusive", detail="serial baseline has failing writes: %s" % bad[:2], case=case)
        ser_all = "".join(open(os.path.join(cdir, "ser", "t%d.log" % k)).read() for k in range(case["n"]))
        need = {"multipart download completed": r" mp-download ok=1 rounds=\d+ failed_seen=\d+ missing=0 vd=1 ", "multipart responses were used": r" mp-round \d+ ranges=[2-9]",
                "a corrupted part was refused": r" corrupt=1 cbfail=1 ", "pinned open accepted": r" pinned v0 .* validate_lead=1 read_lead=1 read_header=1",
                "wrong pin refused": r" pinned v2 .* read_lead=0 ", "header arrived through the header-write callback": r" header-download ok=1 read_lead=1 read_header=1 "}
        missing = [k for k, pat in need.items() if not re.search(pat, ser_all)]
        if missing:
            return core.verdict(cid, "inconclusive", detail="serial baseline did not exercise: %s" % missing, case=case)
        for k_ in need:
            stats["baseline:" + k_] = 1
        stats["overlapping_op_pairs"] = sorted(overlaps(os.path.join(cdir, "par"), case["n"]))
        stats["threads"] = [case["n"]]
        if viols:
            keep = True
            return core.verdict(cid, "violated", sorted(set(v[0] for v in viols)), stats, detail=" ;; ".join(v[1][:700] for v in viols[:2]), cdir=cdir, case=case)
        return core.verdict(cid, "held", stats=stats, nontrivial=True,
                            sample={"flavour": case["flavour"], "threads": case["n"], "rounds": case["rounds"], "seed": case["hseed"],
                                    "overlapping_op_pairs": stats["overlapping_op_pairs"][:12], "log_lines": stats.get("log_lines_compared")})
    finally:
        core.cleanup_case(cdir, keep)


def _kw(pieces, **ov):
    cds = 32
    chunks = [(bytes(cds), None, 0, 0)] + [(zckref.H(1, p), None, len(p), len(p)) for p in pieces]
    kw = dict(hash_type=1, flags=0, comp_type=0, chunk_hash_type=1, chunks=chunks, body=b"".join(pieces))
    kw.update(ov)
    return kw


class C19(core.Check):
    prop = "C19"
    flavours = ["tsan", "bundled-tsan"]
    rule = ("runs of the multi-threaded harness: threads in {2,4,8,16}, 2-3 rounds each of write(none/zstd/dict; all four checksum types, small chunk maxima) + read + "
            "validate + random access (content and stored bytes) + copy_chunks + find_matching_chunks + hash table + digest comparison + every getter + step-by-step opens "
            "with genuine and wrong pins (zck_validate_lead, zck_read_lead, zck_read_header) + single-range downloads + multipart downloads through zck_header_cb / "
            "zck_write_chunk_cb with per-thread boundaries incl. one corrupted part + header download through zck_write_zck_header_cb + malformed opens + name lookups; "
            "half of the runs with a process-wide log callback at DEBUG level set once before the threads start (messages delivered per thread are part of the "
            "serial-equality log); every thread on its own contexts and files, random yields "
            "between API calls; OpenSSL and bundled-SHA builds under ThreadSanitizer; each parallel run paired with a serial run of the same programs. "
            "distinct = (build, threads, rounds, seed)")
    assumptions = ["TSan sees only instrumented code (libzck + harness); libzstd/libcrypto internals are not instrumented",
                   "logging configuration set once before the threads start", "process umask not judged (get_tmp_fd changes it briefly)"]
    worker = staticmethod(worker)

    def prepare(self, fl):
        return {"bins": {n: f.harness("h_mt", ["h_mt.c"]) for n, f in fl.items()}}

    def cases(self, ctx):
        r = core.rng(self.seed, "C19", "gen")
        out = []
        reps = 48 if self.quick else 600
        for i in range(reps):
            fl = "tsan" if i % 3 else "bundled-tsan"
            out.append({"flavour": fl, "bin": ctx["bins"][fl], "n": [2, 4, 8, 16][i % 4], "rounds": 2 if i % 2 else 3, "hseed": r.randrange(1, 1 << 30), "log": (i // 4) % 2 == 1})
        return out
