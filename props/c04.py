"""C04 - delta update reconstructs B exactly, fetching only what is missing.
Monitor: the documented update procedure (harness op `update`, a line-for-line
analogue of zck_dl.c:main with curl replaced by an in-process server holding
B) is run for (A, B, initial target, range limit, response style,
fragmentation); its request/response/valid-flag history is logged.  Offline
checker: final target == B byte for byte, whole-data validation == 1, rounds
bounded, and the multiset of requested body bytes == exactly the stored
extents of E, where E is computed by the reference parser from A, B and the
initial target only.  Thorough tier: the real zckdl binary against a loopback
HTTP range server, judged by the same checker over the server's request log."""
import atexit
import os
import shutil
import subprocess
import sys

sys.path.insert(0, os.path.join(os.path.dirname(os.path.abspath(__file__)), "..", "lib"))
import basefiles
import build
import core
import gen
import zckref


def expected_fetch(pB, B, pA, T_init, A=None):
    """Chunks of B (numbers) that must be fetched: not valid in the initial target and not obtainable from A.
    A chunk is obtainable from A only if A's index lists an equal (checksum, stored size, size) AND the bytes at that
    place in A are really there and hash to it (a truncated or damaged A is only a partial source).  The copy uses the
    FIRST entry with that checksum (hash-table lookup), so that is the one whose bytes count."""
    have = set()
    if pA is not None and pA.chunk_hash_type == pB.chunk_hash_type:
        seen = set()
        for c in pA.chunks:
            if c["digest"] in seen:
                continue
            seen.add(c["digest"])
            if A is not None and c["comp_len"]:
                a = pA.header_len + c["start"]
                if a + c["comp_len"] > len(A) or zckref.H(pA.chunk_hash_type, A[a:a + c["comp_len"]]) != c["digest"]:
                    continue
            have.add((c["digest"], c["comp_len"], c["len"]))
    E = []
    copied = []
    already = []
    for c in pB.chunks:
        a = pB.header_len + c["start"]
        b = a + c["comp_len"]
        if c["number"] == 0 and c["len"] == 0:
            continue  # empty dictionary: nothing stored
        if c["comp_len"] == 0:
            continue
        ok_in_target = b <= len(T_init) and zckref.H(pB.chunk_hash_type, T_init[a:b]) == c["digest"]
        if ok_in_target:
            already.append(c["number"])
        elif (c["digest"], c["comp_len"], c["len"]) in have:
            copied.append(c["number"])
        else:
            E.append(c["number"])
    return E, copied, already


def judge_history(pB, B, E, requests, final, tag):
    """requests: list of range strings.  Returns (sig, detail) or None."""
    ext = {c["number"]: (pB.header_len + c["start"], pB.header_len + c["start"] + c["comp_len"] - 1) for c in pB.chunks}
    want = set()
    for k in E:
        a, b = ext[k]
        want.update(range(a, b + 1))
    seen = set()
    for ri, s in enumerate(requests):
        for piece in s.split(","):
            try:
                a, b = (int(x) for x in piece.split("-"))
            except ValueError:
                return ("c04:malformed-request:%s" % tag, "round %d: %r" % (ri + 1, s[:100]))
            if a > b:
                return ("c04:malformed-request:%s" % tag, "round %d: inverted %r" % (ri + 1, piece))
            if b - a > (64 << 20):
                return ("c04:absurd-request:%s" % tag, "round %d: %r" % (ri + 1, piece))
            rng = set(range(a, b + 1))
            dup = rng & seen
            if dup:
                return ("c04:byte-requested-twice:%s" % tag, "round %d requests offset %d again" % (ri + 1, min(dup)))
            seen |= rng
    extra = seen - want
    if extra:
        x = min(extra)
        if x < pB.header_len:
            what = "header-bytes-fetched-as-body"
        else:
            k = next((n for n, (a, b) in ext.items() if a <= x <= b), None)
            what = "chunk-not-in-E-fetched"
            return ("c04:%s:%s" % (what, tag), "offset %d (chunk %s) requested but it was valid in the target or available in A; E=%s" % (x, k, E[:20]))
        return ("c04:%s:%s" % (what, tag), "offset %d requested" % x)
    lack = want - seen
    if lack:
        return ("c04:needed-bytes-never-requested:%s" % tag, "offset %d of E never requested" % min(lack))
    if final != B:
        n = min(len(final), len(B))
        d = next((i for i in range(n) if final[i] != B[i]), n)
        return ("c04:final-differs-from-B:%s" % tag, "len %d vs %d, first difference at %d" % (len(final), len(B), d))
    return None


def real_worker(case):
    """The real zckdl binary (ASan build) against the loopback range server."""
    import json
    cdir = case["dir"]
    keep = False
    B = core.unb64(case["B"])
    A = core.unb64(case["A"]) if case["A"] else None
    T = core.unb64(case["T"]) if case["T"] is not None else None
    cid = core.h8(["real", case["name"], case["tkind"], case["maxr"], case["boundary"]])
    stats = {"evaluations": 1, "real_zckdl_runs": 1}
    try:
        os.makedirs(cdir, exist_ok=True)
        pB = zckref.parse(B)
        pA = zckref.parse(A) if A else None
        wdir = os.path.join(case["www"], cid)
        os.makedirs(wdir, exist_ok=True)
        open(os.path.join(wdir, "tgt.zck"), "wb").write(B)
        if T is not None:
            open(os.path.join(cdir, "tgt.zck"), "wb").write(T)
        argv = [case["zckdl"]]
        if A:
            open(os.path.join(cdir, "A.zck"), "wb").write(A)
            argv += ["-s", "A.zck"]
        opts = "~maxr=%d;b=%s%s" % (case["maxr"], case["boundary"], ";q=1" if case["quote"] else "")
        argv.append("http://127.0.0.1:%d/%s/%s/tgt.zck" % (case["port"], opts, cid))
        env = core.san_env(cdir, {"no_proxy": "*", "NO_PROXY": "*"})
        r = core.run_proc(argv, cdir, env=env, cpu=60)
        if r.timed_out and not r.cpu_exceeded:
            return core.verdict(cid, "inconclusive", detail="watchdog", case=case)
        tag = "real:%s:%s" % (case["akind"], case["tkind"])
        cs = core.crash_signatures(r, where="tool:zckdl")
        viol = None
        E, copied, already = expected_fetch(pB, B, pA, T if T is not None else b"", A)
        if cs:
            viol = (cs[0], "zckdl crashed: %s" % cs)
        elif r.rc != 0:
            if b"onnect" in r.stderr and b"refused" in r.stderr:
                return core.verdict(cid, "inconclusive", detail="server unreachable", case=case)
            viol = ("c04:zckdl-failed:exit%s" % r.rc, "zckdl exit %s stderr=%r" % (r.rc, r.stderr[-300:]))
        else:
            reqs = []
            n200 = 0
            with open(case["httplog"]) as f:
                for ln in f:
                    if "/" + cid + "/" not in ln:
                        continue
                    e = json.loads(ln)
                    if e["status"] == 200:
                        n200 += 1
                        continue
                    if e["status"] != 206:
                        continue
                    rs = e.get("ranges") or []
                    if rs and rs[0][0] < pB.header_len:
                        continue  # header download (its fixed minimum size may reach into the body of a tiny file)
                    reqs.append(",".join("%d-%d" % (a, b) for a, b in rs))
            final = open(os.path.join(cdir, "tgt.zck"), "rb").read()
            stats["rounds"] = len(reqs)
            stats["server_200_fallbacks"] = n200
            stats["chunks_fetched"] = len(E)
            stats["chunks_copied_from_A"] = len(copied)
            stats["chunks_already_valid"] = len(already)
            viol = judge_history(pB, B, E, reqs, final, tag)
        if viol:
            keep = True
            return core.verdict(cid, "violated", [viol[0]], stats, detail=viol[1] + " case=%s maxr=%d boundary=%s lead_hash=%d" % (case["name"], case["maxr"], case["boundary"], pB.hash_type),
                                cdir=cdir, case=case)
        return core.verdict(cid, "held", stats=stats, nontrivial=len(E) > 0,
                            sample={"real_zckdl": True, "pair": case["name"], "A": case["akind"], "initial_target": case["tkind"], "server_max_ranges": case["maxr"],
                                    "fetched": E[:12], "copied": copied[:12], "already_valid": already[:12], "rounds": stats.get("rounds")})
    finally:
        core.cleanup_case(cdir, keep)
        shutil.rmtree(os.path.join(case["www"], cid), ignore_errors=True)


def worker(case):
    if case.get("real"):
        return real_worker(case)
    cdir = case["dir"]
    keep = False
    B = core.unb64(case["B"])
    A = core.unb64(case["A"]) if case["A"] else None
    T = core.unb64(case["T"]) if case["T"] is not None else None
    cid = core.h8([case["name"], case["tkind"], case["limit"], case["style"], case["frag"], case["boundary"]])
    stats = {"evaluations": 1}
    try:
        pB = zckref.parse(B)
        pA = zckref.parse(A) if A else None
        files = {"B.zck": B}
        L = []
        # every third scenario with the application's own callbacks chained behind the library's (header download included)
        chained = int(core.h8([case["name"], case["tkind"], case["frag"]]), 16) % 3 == 0
        if chained:
            L.append("chain 1")
            stats["updates_with_application_callbacks_chained"] = 1
        if A:
            files["A.zck"] = A
            L += ["fopen 2 A.zck r source", "create 2", "init_read 2 2"]
        if T is not None:
            files["tgt.zck"] = T
        L += ["fopen 1 tgt.zck rwc target", "create 1",
              "update 1 1 %s B.zck %d %d %s %s" % ("2" if A else "-", case["limit"], case["style"], case["frag"], case["boundary"]),
              "flags 1", "fsize 1"]
        rd = core.run_zh(case["zh"], cdir, "\n".join(L) + "\n", files, cpu=60, name="upd")
        if rd.timed_out and not rd.cpu_exceeded:
            return core.verdict(cid, "inconclusive", detail="watchdog", case=case)
        if rd.harness_error:
            return core.verdict(cid, "inconclusive", detail=str(rd.harness_error), case=case)
        tag = "%s:%s" % (case["akind"], case["tkind"])
        cs = core.crash_signatures(rd)
        viol = None
        T_init = T if T is not None else b""
        # the header download overwrites the first header_len bytes; extents lie behind it
        E, copied, already = expected_fetch(pB, B, pA, T_init, A)
        if cs:
            viol = (cs[0], "crash/hang in update: %s" % cs)
        else:
            up = rd.first(op="update")
            if not up:
                return core.verdict(cid, "inconclusive", detail="no update event", case=case)
            final = open(os.path.join(cdir, "tgt.zck"), "rb").read()
            reqs = [e["ranges"] for e in rd.ev(ev="request")]
            stats["rounds"] = len(reqs)
            stats["chunks_fetched"] = len(E)
            stats["chunks_copied_from_A"] = len(copied)
            stats["chunks_already_valid"] = len(already)
            stats["bytes_requested"] = sum(int(b) - int(a) + 1 for s in reqs for a, b in (pc.split("-") for pc in s.split(",")))
            if up["stage"] == "too_many_rounds":
                viol = ("c04:too-many-rounds:%s" % tag, "more than chunks+8 request rounds")
            elif up["rc"] != 1 or up["stage"] != "done":
                viol = ("c04:update-failed:%s" % up["stage"], "update ended rc=%s stage=%s err=%r" % (up["rc"], up["stage"], up.get("err")))
            elif up["missing"] != 0:
                viol = ("c04:missing-after-update:%s" % tag, "%d chunks still missing" % up["missing"])
            else:
                v = judge_history(pB, B, E, reqs, final, tag)
                if v:
                    viol = v
        if viol:
            keep = True
            return core.verdict(cid, "violated", [viol[0]], stats, detail=viol[1] + " case=%s limit=%d style=%d frag=%s" % (case["name"], case["limit"], case["style"], case["frag"]),
                                cdir=cdir, case=case)
        nontriv = bool(E) and (bool(copied) or bool(already))
        return core.verdict(cid, "held", stats=stats, nontrivial=nontriv or len(E) > 1,
                            sample={"pair": case["name"], "A": case["akind"], "initial_target": case["tkind"], "limit": case["limit"], "style": case["style"],
                                    "frag": case["frag"], "chunks_in_B": len(pB.chunks), "fetched": E[:12], "copied": copied[:12], "already_valid": already[:12],
                                    "rounds": stats.get("rounds")})
    finally:
        core.cleanup_case(cdir, keep)


def edit_pieces(r, pieces, kind):
    p = list(pieces)
    if kind == "same":
        return p
    if kind == "unrelated":
        return [r.randbytes(len(x)) for x in p]
    n = max(1, len(p) // r.choice([2, 4, 8]))
    for _ in range(n):
        op = r.choice(["ins", "del", "rep", "dup"])
        k = r.randrange(len(p)) if p else 0
        if op == "ins":
            p.insert(k, r.randbytes(r.randrange(1, 300)))
        elif op == "del" and len(p) > 1:
            del p[k]
        elif op == "rep" and p:
            p[k] = r.randbytes(r.randrange(1, 300))
        elif op == "dup" and p:
            p.insert(r.randrange(len(p) + 1), p[k])
    return p


class C04(core.Check):
    prop = "C04"
    flavours = ["asan"]
    rule = ("(A, B) pairs: B = A with pieces inserted/deleted/replaced/duplicated, A unrelated, A == B, A absent, A with other dictionary / chunk checksum type / "
            "compression; files from the reference writer (manual pieces) and from the library writer with automatic chunking; initial target: absent, empty, "
            "partial B (truncated / damaged chunks), A's bytes, garbage longer than B; range limits {1,2,3,7,127,255,-1}; single-range and multipart responses with "
            "several styles/boundaries; fragmentation whole / 16 KiB / random / 1 byte. non-trivial = something fetched AND something reused (copied or already "
            "valid), or >1 chunk fetched; distinct = (pair, target kind, limit, style, fragmentation)")
    assumptions = ["expected fetch set E computed by the reference parser + hashlib from A, B and the initial target only",
                   "server = harness code answering the library's own range strings from B"]
    worker = staticmethod(worker)

    def prepare(self, fl):
        www = os.path.join(self.work, "www")
        os.makedirs(www, exist_ok=True)
        log = os.path.join(self.work, "http.log")
        open(log, "w").close()
        env = {k: v for k, v in os.environ.items() if k.lower() not in ("http_proxy", "https_proxy")}
        self.srv = subprocess.Popen([sys.executable, os.path.join(core.VERIF, "lib", "httpd_range.py"), www, log], stdout=subprocess.PIPE, env=env)
        atexit.register(self._stop_server)
        line = self.srv.stdout.readline().decode()
        if not line.startswith("PORT "):
            raise build.BuildError("range server did not start: %r" % line)
        return {"zh": build.zh(fl["asan"]), "zckdl": fl["asan"].tool("zckdl"), "www": www, "httplog": log, "port": int(line.split()[1])}

    def _stop_server(self):
        try:
            self.srv.kill()
        except Exception:
            pass

    def post(self, verdicts, ctx):
        self._stop_server()
        return []

    def cases(self, ctx):
        r = core.rng(self.seed, "C04", "gen")
        out = []
        npairs = 150 if self.quick else 5000
        for i in range(npairs):
            comp = r.choice([0, 2])
            n = r.choice([1, 3, 10, 40, 150])
            pieces = [gen.content(r.choice(["random", "text"]), r.randrange(1, r.choice([30, 400, 3000])), r.random()) for _ in range(n)]
            if i % 9 == 4:
                # stored sizes that are exact multiples of the library's 32 KiB copy / scan buffer, and one byte either side
                for k_ in r.sample(range(n), min(n, 3)):
                    pieces[k_] = gen.content("random", r.choice([32768, 65536, 98304, 32767, 32769, 131072]), r.random())
            db = r.randbytes(r.choice([0, 0, 40, 600]))
            cht = r.randrange(4)
            akind = r.choice(["edit", "edit", "edit", "same", "unrelated", "absent", "other-dict", "other-hash", "other-comp", "other-comp", "superset",
                              "edit-truncated", "edit-truncated", "edit-damaged"])
            bp = pieces
            if akind in ("edit", "other-dict", "other-hash", "other-comp", "edit-truncated", "edit-damaged"):
                ap = edit_pieces(r, pieces, "edit")
            elif akind == "same":
                ap = list(pieces)
            elif akind == "unrelated":
                ap = edit_pieces(r, pieces, "unrelated")
            elif akind == "superset":
                ap = pieces + [r.randbytes(50) for _ in range(5)]
                r.shuffle(ap)
            else:
                ap = None
            unc = r.random() < 0.3
            if unc:
                cht = r.choice([1, 2])
            B = zckref.make_file(bp, comp_type=comp, dict_bytes=db, chunk_hash_type=cht, hash_type=r.randrange(4), uncomp=unc)
            if i % 11 == 10:   # empty B / single tiny chunk
                B = zckref.make_file([] if i % 2 else [b"x"], comp_type=comp, chunk_hash_type=cht)
            A = None
            if ap is not None:
                A = zckref.make_file(ap, comp_type=(comp if akind != "other-comp" else 2 - comp),
                                     dict_bytes=(db if akind != "other-dict" else r.randbytes(33)),
                                     chunk_hash_type=(cht if akind != "other-hash" else ((cht % 2) + 1 if unc else (cht + 1) % 4)), hash_type=r.randrange(4),
                                     uncomp=(unc if r.random() < 0.8 else not unc) and (cht in (1, 2) or akind == "other-hash"))
            if A and akind == "edit-truncated":
                pa_ = zckref.parse(A)
                A = A[: r.choice([pa_.header_len, pa_.header_len + 1, r.randrange(pa_.header_len, len(A) + 1), pa_.header_len + (len(A) - pa_.header_len) * 6 // 10])]
            if A and akind == "edit-damaged":
                pa_ = zckref.parse(A)
                d_ = bytearray(A)
                for c_ in pa_.chunks:
                    if c_["comp_len"] and r.random() < 0.4:
                        d_[pa_.header_len + c_["start"] + r.randrange(c_["comp_len"])] ^= 0x10
                A = bytes(d_)
            self._add(out, r, ctx, "p%d" % i, akind, A, B)
        # a client with a large receive buffer (not curl's 16 KiB): the first delivery ends inside a part header, the next one carries more
        # than a megabyte
        for i in range(2 if self.quick else 12):
            pieces = [gen.content("random", r.choice([100000, 131072, 120000]), r.random()) for _ in range(24)]
            B = zckref.make_file(pieces, comp_type=0, chunk_hash_type=r.randrange(4))
            pB = zckref.parse(B)
            d = bytearray(B)
            for c in pB.chunks[1:]:
                if c["number"] % 2 == 1:
                    a = pB.header_len + c["start"]
                    d[a:a + c["comp_len"]] = bytes(c["comp_len"])
            for cut in ([40], [40, 1500000], [7, 100]):
                out.append({"name": "bigbuf%d" % i, "akind": "absent", "tkind": "partial", "A": None, "B": core.b64(B), "T": core.b64(bytes(d)), "limit": r.choice([255, -1, 127]),
                            "style": r.choice([0, 4]), "boundary": "zckverifBOUNDARY", "frag": "cuts:" + ",".join(str(x) for x in cut), "zh": ctx["zh"]})
        # thousands of separate ranges in one request (a client without a range limit, or with one in the thousands): the request text grows
        # past the library's 32 KiB string buffer several times
        for i in range(1 if self.quick else 6):
            nchk = r.choice([6000, 9000]) if not self.quick else 7000
            pieces = [b"%06d:" % k + r.randbytes(r.choice([3, 9])) for k in range(nchk)]
            B = zckref.make_file(pieces, comp_type=0, chunk_hash_type=r.choice([0, 3]))
            pB = zckref.parse(B)
            d = bytearray(B)
            for c in pB.chunks[1:]:
                if c["number"] % 2 == 1:
                    a = pB.header_len + c["start"]
                    d[a:a + c["comp_len"]] = bytes(x ^ 0x5A for x in d[a:a + c["comp_len"]])
            for lim, sty in ((-1, 0), (5000, 4)) if not self.quick else ((-1, r.choice([0, 4])),):
                out.append({"name": "manyranges%d" % i, "akind": "absent", "tkind": "partial", "A": None, "B": core.b64(B), "T": core.b64(bytes(d)), "limit": lim,
                            "style": sty, "boundary": "zckverifBOUNDARY", "frag": "n:16384", "zh": ctx["zh"]})
        # library-written pairs with automatic chunking (content-defined boundaries resynchronise after an edit)
        nlib = 3 if self.quick else 60
        for i in range(nlib):
            D = gen.content(r.choice(["license", "text", "mixed"]), r.choice([200000, 600000]), r.random())
            pos = r.randrange(len(D))
            D2 = D[:pos] + r.randbytes(r.choice([1, 100, 5000])) + D[pos + r.choice([0, 50]):]
            cfg = {"comp": r.choice([0, 2]), "level": 1}
            a = basefiles.write_with_lib(ctx["zh"], os.path.join(self.work, "libA%d" % i), D, cfg)
            b = basefiles.write_with_lib(ctx["zh"], os.path.join(self.work, "libB%d" % i), D2, cfg)
            if a and b:
                self._add(out, r, ctx, "lib%d" % i, "lib-edit", a, b, n=2)
        return out

    def _add(self, out, r, ctx, name, akind, A, B, n=None):
        pB = zckref.parse(B)
        tk = ["absent", "empty", "partial", "partial-trunc", "A-bytes", "garbage-long", "complete"]
        for tkind in (r.sample(tk, n or (2 if self.quick else 3))):
            if tkind == "absent":
                T = None
            elif tkind == "empty":
                T = b""
            elif tkind in ("partial", "partial-trunc"):
                d = bytearray(B)
                for c in pB.chunks:
                    if r.random() < 0.5 and c["comp_len"]:
                        a = pB.header_len + c["start"]
                        d[a:a + c["comp_len"]] = r.randbytes(c["comp_len"])
                T = bytes(d)
                if tkind == "partial-trunc":
                    T = T[: r.randrange(0, len(T) + 1)]
                if r.random() < 0.3:  # header not there yet
                    T = bytes(pB.header_len) + T[pB.header_len:]
            elif tkind == "A-bytes":
                T = A if A else b""
            elif tkind == "garbage-long":
                T = r.randbytes(len(B) + r.randrange(1, 5000))
            else:
                T = B
            bkind = r.choice(["zckverifBOUNDARY", "00000000000abcdef", "a+b(c).d?e", "x", "simple~boundary", "gc0p4Jq0M:2Yt08j~34c0p"])
            self.nreal = getattr(self, "nreal", 0)
            if self.nreal < (60 if self.quick else 1500) and (len(out) % (3 if self.quick else 4) == 0):
                self.nreal += 1
                out.append({"real": True, "name": name, "akind": akind, "tkind": tkind, "A": core.b64(A) if A else None, "B": core.b64(B),
                            "T": core.b64(T) if T is not None else None, "maxr": r.choice([1, 2, 3, 7, 100, 256]), "boundary": r.choice(["3d6b6a416f9b5", "a+b(c).d", "x'y_z"]),
                            "quote": r.random() < 0.5, "zckdl": ctx["zckdl"], "www": ctx["www"], "httplog": ctx["httplog"], "port": ctx["port"]})
            out.append({"name": name, "akind": akind, "tkind": tkind, "A": core.b64(A) if A else None, "B": core.b64(B),
                        "T": core.b64(T) if T is not None else None, "limit": r.choice([1, 2, 3, 7, 127, 255, -1]),
                        "style": r.choice([0, 0, 1, 2, 4, 8, 16, 32, 7]) | (1 if "(" in bkind or "~" in bkind else 0) | r.choice([0, 0, 0, 128, 256, 512, 384]), "boundary": bkind,
                        "frag": r.choice(["all", "n:16384", "parts", "parts", "rand:%d:16384" % r.randrange(1 << 20), "rand:%d:50" % r.randrange(1 << 20), "n:1" if len(B) < 30000 else "n:1000"]),
                        "zh": ctx["zh"]})
