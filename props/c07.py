"""C07 - pinned header validation accepts exactly the authenticated header.
Monitor: in-process harness (h_hdrmut) drives the real option setters
(ZCK_VAL_HEADER_HASH_TYPE / _DIGEST / _LENGTH), zck_validate_lead,
zck_read_lead, zck_read_header on memfd images; every return value is
compared with an expectation computed in Python (hex semantics of the digest
string, equality of the file's stored values with the pins, reference
verdict on the header checksum)."""
import os
import sys

sys.path.insert(0, os.path.join(os.path.dirname(os.path.abspath(__file__)), "..", "lib"))
import build
import core
import zckref

HEX = set(b"0123456789abcdefABCDEF")
DS = zckref.DIGEST_SIZE


def lead_info(img):
    """(type, digest, total header length, header_valid) from the reference; None if the lead itself is unreadable."""
    try:
        pos = 5
        if len(img) < 25 or img[:5] not in (zckref.MAGIC_FULL, zckref.MAGIC_HDR):
            return None
        t, n = zckref.ci_decode(img, pos)
        pos += n
        if t not in DS:
            return None
        hs, n = zckref.ci_decode(img, pos)
        pos += n
        d = img[pos:pos + DS[t]]
        if len(d) < DS[t]:
            return None
        total = pos + DS[t] + hs
    except zckref.Invalid:
        return None
    try:
        zckref.parse(img)
        ok = True
    except zckref.Invalid:
        ok = False
    return t, d, total, ok


def worker(case):
    cdir = case["dir"]
    os.makedirs(cdir, exist_ok=True)
    keep = False
    cid = core.h8([case["batch"]])
    stats = {"evaluations": 0}
    try:
        names = []
        for i, fb in enumerate(case["files"]):
            fn = "f%d.zck" % i
            open(os.path.join(cdir, fn), "wb").write(core.unb64(fb))
            names.append(fn)
        L = []
        for c in case["cases"]:
            L.append("P %s %d - %s" % (c["id"], c["file"], " ".join(c["ops"])))
        open(os.path.join(cdir, "cases"), "w").write("\n".join(L) + "\n")
        r = core.run_proc([case["bin"], "cases", "out", "marker"] + names, cdir, cpu=120, wall=1200)
        if r.timed_out and not r.cpu_exceeded:
            return core.verdict(cid, "inconclusive", detail="watchdog", case=case)
        try:
            outl = open(os.path.join(cdir, "out")).read().split("\n")
        except FileNotFoundError:
            outl = []
        viols = []
        cs = core.crash_signatures(r, where="pin")
        byid = {c["id"]: c for c in case["cases"]}
        if cs:
            mk = ""
            try:
                mk = open(os.path.join(cdir, "marker")).read().strip()
            except Exception:
                pass
            c = byid.get(mk, {})
            viols.append((cs[0], "crash in case %s class=%s ops=%s: %s" % (mk, c.get("cls"), str(c.get("ops"))[:200], cs)))
        elif "END" not in outl:
            return core.verdict(cid, "inconclusive", detail="harness did not finish rc=%s err=%s" % (r.rc, r.stderr[-200:]), case=case)
        nontriv = set()
        for o in outl:
            t = o.split()
            if len(t) < 3 or t[0] != "R":
                continue
            c = byid[t[1]]
            got = [int(x) for x in t[2].split(",")]
            stats["evaluations"] += 1
            stats["cls_" + c["cls"]] = stats.get("cls_" + c["cls"], 0) + 1
            nontriv.add(core.h8([c["cls"], c["file_name"], c["ops"]]))
            for k, (g, e) in enumerate(zip(got, c["expect"])):
                if isinstance(e, list):
                    # conditional expectation ["if", k, v]: binds only when op k returned 1 (a setter that accepted the value)
                    if got[e[1]] != 1:
                        continue
                    e = e[2]
                if e is None:
                    continue
                if bool(g == 1) != bool(e):
                    op = c["ops"][k][0]
                    opn = {"T": "set-type", "D": "set-digest", "L": "set-length", "v": "validate_lead", "l": "read_lead", "h": "read_header", "o": "init_read"}.get(op, op)
                    viols.append(("c07:%s:%s:%s" % (c["cls"], opn, "accepted-should-reject" if g == 1 else "rejected-should-accept"),
                                  "case %s ops=%s results=%s expected=%s note=%s" % (c["id"], [x[:70] for x in c["ops"]], got, c["expect"], c.get("note", ""))))
                    break
        if viols:
            keep = True
            return core.verdict(cid, "violated", sorted(set(v[0] for v in viols)), stats, detail=" ;; ".join(v[1] for v in viols[:3]), cdir=cdir, case=case)
        smp = case["cases"][len(case["cases"]) // 2]
        return core.verdict(cid, "held", stats=stats, nontrivial=nontriv,
                            sample={"class": smp["cls"], "file": smp["file_name"], "ops": [x[:80] for x in smp["ops"]], "expected": smp["expect"]})
    finally:
        core.cleanup_case(cdir, keep)


class C07(core.Check):
    prop = "C07"
    flavours = ["asan"]
    rule = ("per sample file (all 4 lead checksum types): digest string with EVERY position x all 256 byte values (exhaustive), upper/lower/mixed case, "
            "wrong digests whose differences cancel under folding (swapped words, paired bit flips, sum-preserving, reversed), wrong lengths, a wrong pin followed by a refused setter call and zck_clear_error (the pin must stay in force), pinned-vs-actual type grid, type pins beyond the int range (2^32+t, 2^32-1, 2^31, 2^63-1), leads whose declared header size wraps lead+size around 2^64, length pins (exact, +-1, 0, 2^63-1, negative), both setter orders, pins set or changed between zck_validate_lead and the open, validate_lead followed by "
            "read_lead/read_header on the same context, pins taken from F0 presented with F1 (other file, re-sealed mutated header, mutated header with old "
            "checksum); the image presented through a pipe / FIFO / socket pair / behind another image in the same descriptor. distinct = (class, file, op sequence)")
    assumptions = ["expected verdicts from Python hex/bytes semantics and the reference parse of each image"]
    worker = staticmethod(worker)

    def prepare(self, fl):
        return {"bin": fl["asan"].harness("h_hdrmut", ["h_hdrmut.c"])}

    def cases(self, ctx):
        r = core.rng(self.seed, "C07", "gen")
        files = []   # (name, bytes)
        nper = 1 if self.quick else 24
        for ht in range(4):
            for j in range(nper):
                pieces = [r.randbytes(r.randrange(1, 60)) for _ in range(r.randrange(1, 6))]
                d = zckref.make_file(pieces, comp_type=0, hash_type=ht, chunk_hash_type=r.randrange(4), dict_bytes=r.randbytes(r.choice([0, 9])),
                                     detached=(j % 3 == 2))
                files.append(("h%d-%d" % (ht, j), d))
        # derived images: re-sealed mutated header; mutated header with the old checksum
        derived = []
        for name, d in list(files):
            p = zckref.parse(d)
            pos = r.randrange(p.lead_len, p.header_len)
            m = bytearray(d)
            m[pos] ^= 1 << r.randrange(8)
            derived.append((name + "-mut-oldsum", bytes(m), name))
            rs = zckref.reseal(bytes(m))
            if rs:
                derived.append((name + "-mut-resealed", rs, name))
        # leads whose declared header size is so large that (lead length + header size) wraps around 2^64 to a small number
        wrapped = []
        for name, d in list(files)[:4 if self.quick else 12]:
            p = zckref.parse(d)
            for W in (10, p.lead_len + 1, 4096):
                ds_ = DS[p.hash_type]
                # lead = 5 + 1 (type) + 10 (size as a ten-byte integer) + digest
                ll = 5 + 1 + 10 + ds_
                hs = (1 << 64) - ll + W
                img = d[:5] + zckref.ci_encode(p.hash_type) + zckref.ci_encode(hs) + d[p.lead_len - ds_:]
                if len(zckref.ci_encode(hs)) == 10 and len(zckref.ci_encode(p.hash_type)) == 1:
                    wrapped.append(("%s-wrap%d" % (name, W), img, W, ll))
        allfiles = files + [(n, d) for n, d, _ in derived] + [(n, d) for n, d, _, _ in wrapped]
        fidx = {n: i for i, (n, _) in enumerate(allfiles)}
        info = {n: lead_info(d) for n, d in allfiles}
        cases = []

        def add(cls, fname, ops, expect, note=""):
            cases.append({"id": "c%d" % len(cases), "cls": cls, "file": fidx[fname], "file_name": fname, "ops": ops, "expect": expect, "note": note})

        for name, d in files:
            t, dg, total, ok = info[name]
            hx = dg.hex().encode()
            n = len(hx)
            T = "T%d" % t
            # exhaustive: every position x every byte value
            for i in range(n):
                for v in range(256):
                    s = hx[:i] + bytes([v]) + hx[i + 1:]
                    if v in HEX:
                        same = bytes([v]).lower() == hx[i:i + 1]
                        add("digest-hex-value", name, [T, "D" + s.hex(), "l", "h"], [1, 1, 1 if same else 0, (1 if ok else 0) if same else None],
                            "pos %d value %r" % (i, chr(v)))
                    else:
                        add("digest-nonhex-char", name, [T, "D" + s.hex(), "l"], [1, 0, None], "pos %d byte %#x %r" % (i, v, chr(v)))
            # case variants
            mixed = bytes((hx[k:k + 1].upper() if k % 2 else hx[k:k + 1])[0] for k in range(n))
            for s in (hx.upper(), hx.lower(), mixed):
                add("digest-case", name, [T, "D" + s.hex(), "v", "l", "h"], [1, 1, 1, 1, 1 if ok else 0])
            # wrong digests whose differences from the genuine one cancel under folding (XOR / sum of words, bytes or halves): two words
            # swapped, the same bit flipped in two words / bytes, halves swapped, byte order reversed, every word rotated
            raw = bytes.fromhex(hx.decode())
            W = [raw[k:k + 4] for k in range(0, len(raw), 4)]
            alts = []
            for a_, b_ in ((0, 1), (0, len(W) - 1), (1, 2), (len(W) // 2, len(W) - 1)):
                if a_ != b_ and b_ < len(W) and W[a_] != W[b_]:
                    w2 = list(W)
                    w2[a_], w2[b_] = w2[b_], w2[a_]
                    alts.append(("words-swapped", b"".join(w2)))
                    for bit in (0, 7, 31):
                        w3 = [bytearray(x) for x in W]
                        w3[a_][bit // 8] ^= 1 << (bit % 8)
                        w3[b_][bit // 8] ^= 1 << (bit % 8)
                        alts.append(("same-bit-in-two-words", b"".join(bytes(x) for x in w3)))
            for k1, k2 in ((0, 1), (0, len(raw) - 1), (3, 4), (7, 8)):
                b3 = bytearray(raw)
                b3[k1] ^= 0x40
                b3[k2] ^= 0x40
                alts.append(("same-bit-in-two-bytes", bytes(b3)))
                b4 = bytearray(raw)
                if b4[k1] < 255 and b4[k2] > 0:
                    b4[k1] += 1
                    b4[k2] -= 1
                    alts.append(("sum-preserving", bytes(b4)))
            alts.append(("halves-swapped", raw[len(raw) // 2:] + raw[:len(raw) // 2]))
            alts.append(("reversed", raw[::-1]))
            alts.append(("rotated-by-one-byte", raw[1:] + raw[:1]))
            for what, alt in alts:
                if alt != raw:
                    add("digest-cancelling-difference", name, [T, "D" + alt.hex().encode().hex(), "l"], [1, 1, 0], what)
                    add("digest-cancelling-difference", name, [T, "D" + alt.hex().encode().hex(), "v", "o"], [1, 1, 0, 0], what)
            # lengths
            for ln in (0, 1, n - 2, n - 1, n + 1, n + 2, 2 * n, n // 2):
                s = (hx * 3)[:ln]
                add("digest-length", name, [T, "D" + s.hex(), "l"], [1, 0, None], "len %d instead of %d" % (ln, n))
            # type grid
            for pt in (0, 1, 2, 3, 4, 5, 100, 2 ** 31 - 1):
                add("type-pair", name, ["T%d" % pt, "v", "l", "h"], [1, 1 if pt == t else 0, 1 if pt == t else 0, (1 if ok else 0) if pt == t else None],
                    "pinned %d actual %d" % (pt, t))
                if pt not in DS:
                    add("type-unknown-digest", name, ["T%d" % pt, "D" + hx.hex()], [1, 0])
                elif DS[pt] * 2 != n:
                    add("type-digest-size", name, ["T%d" % pt, "D" + hx.hex()], [1, 0], "digest of type %d under pinned type %d" % (t, pt))
            add("type-negative", name, ["T-1", "l"], [0, None])
            # type pins that only equal the file's type modulo 2^32 / whose low word is negative as an int: whatever the setter says, such a
            # pin is not the file's type and the lead must not be accepted under it
            for pt in ((1 << 32) + t, (1 << 32) - 1, (1 << 31), (1 << 33) + t, (1 << 63) - 1, (1 << 32) * 255 + t):
                # (a setter that refuses the value has pinned nothing: the expectation binds only if it accepted)
                add("type-beyond-int", name, ["T%d" % pt, "l"], [None, ["if", 0, 0]], "pinned %d actual %d" % (pt, t))
                add("type-beyond-int", name, ["T%d" % pt, "c", "v"], [None, None, ["if", 0, 0]], "pinned %d actual %d" % (pt, t))
                add("type-beyond-int", name, ["T%d" % pt, "c", "o"], [None, None, ["if", 0, 0]], "pinned %d actual %d" % (pt, t))
            # length pins
            for L_, e in ((total, 1), (total - 1, 0), (total + 1, 0), (0, 0), (1, 0), (2 ** 63 - 1, 0), (total + 256, 0), (total ^ 0x100, 0)):
                add("length-pin", name, ["L%d" % L_, "v", "l", "h"], [1, e, e, (1 if ok else 0) if e else None], "pinned %d actual %d" % (L_, total))
            add("length-negative", name, ["L-1", "l"], [0, None])
            # all three pins, each in turn wrong
            wrongd = (hx[:-1] + (b"0" if hx[-1:] != b"0" else b"1"))
            add("all-pins", name, [T, "D" + hx.hex(), "L%d" % total, "v", "l", "h"], [1, 1, 1, 1, 1, 1 if ok else 0])
            add("all-pins", name, [T, "D" + wrongd.hex(), "L%d" % total, "v", "l"], [1, 1, 1, 0, 0], "digest wrong in last nibble")
            add("all-pins", name, [T, "D" + hx.hex(), "L%d" % (total + 1), "v", "l"], [1, 1, 1, 0, 0], "length wrong")
            # a pin stays in force when a later setter call is refused (and the caller clears the error and carries on)
            for bad in (hx[:-1], hx + b"0", b"", hx[:n // 2], b"zz" + hx[2:]):
                add("pin-survives-refused-set", name, [T, "D" + wrongd.hex(), "D" + bad.hex(), "c", "v", "l"], [1, 1, 0, None, 0, 0], "second value %r refused" % bad[:8])
                add("pin-survives-refused-set", name, [T, "D" + wrongd.hex(), "D" + bad.hex(), "c", "l", "h"], [1, 1, 0, None, 0, None])
                add("pin-survives-refused-set", name, [T, "D" + hx.hex(), "D" + bad.hex(), "c", "D" + wrongd.hex(), "c", "v", "l"], [1, 1, 0, None, None, None, 0, 0])
            add("pin-survives-refused-set", name, [T, "D" + wrongd.hex(), "L-1", "c", "v", "l"], [1, 1, 0, None, 0, 0], "refused length pin")
            add("pin-survives-refused-set", name, [T, "D" + wrongd.hex(), "T-1", "c", "v", "l"], [1, 1, 0, None, 0, 0], "refused type pin")
            # pins set or changed between a lead-only validation and the open on the same context: the lead is read again, under the pins then in force
            for tail, te in ((["l"], [0]), (["v"], [0]), (["o"], [0]), (["l", "h"], [0, None])):
                add("pin-after-validate", name, ["v", T, "D" + wrongd.hex()] + tail, [1, 1, 1] + te, "validated unpinned, then wrong digest pinned")
                add("pin-after-validate", name, ["v", "L%d" % (total + 1)] + tail, [1, 1] + te, "validated unpinned, then wrong length pinned")
                add("pin-after-validate", name, ["v", "T%d" % ((t + 1) % 4)] + tail, [1, 1] + te, "validated unpinned, then wrong type pinned")
                add("pin-after-validate", name, [T, "D" + hx.hex(), "v", "L%d" % (total - 1)] + tail, [1, 1, 1, 1] + te, "validated under the right digest, then wrong length pinned")
                add("pin-after-validate", name, ["L%d" % total, "v", T, "D" + wrongd.hex()] + tail, [1, 1, 1, 1] + te, "validated under the right length, then wrong digest pinned")
                add("pin-after-validate", name, ["v", "v", T, "D" + wrongd.hex(), "L%d" % total] + tail, [1, 1, 1, 1, 1] + te, "validated twice, then wrong digest pinned")
            add("pin-after-validate", name, ["v", T, "D" + hx.hex(), "L%d" % total, "v", "l", "h"], [1, 1, 1, 1, 1, 1, 1 if ok else 0], "validated unpinned, then everything pinned right")
            add("pin-after-validate", name, ["v", T, "D" + hx.upper().hex(), "o"], [1, 1, 1, 1 if ok else 0], "validated unpinned, right digest pinned, opened")
            add("pin-after-validate", name, [T, "D" + wrongd.hex(), "v", "c", "v", "c", "l"], [1, 1, 0, None, 0, None, 0], "wrong digest: refused again after the error is cleared")
            # order: digest before type must be refused; type after digest must be refused
            add("order", name, ["D" + hx.hex()], [0], "digest before type")
            add("order", name, [T, "D" + hx.hex(), T], [1, 1, 0], "type after digest")
            # no pins: plain read
            add("no-pins", name, ["v", "l", "h"], [1, 1, 1 if ok else 0])
            # the same verdicts when the bytes arrive through a pipe, a FIFO, a socket, or follow another image in the same descriptor
            for F in ("Fpipe", "Ffifo", "Fsock", "Foff"):
                add("descriptor-kind", name, [F, T, "D" + hx.hex(), "L%d" % total, "l", "h"], [1, 1, 1, 1, 1 if ok else 0], F)
                add("descriptor-kind", name, [F, T, "D" + wrongd.hex(), "l"], [1, 1, 0], F + " wrong digest")
                add("descriptor-kind", name, [F, T, "D" + hx.hex(), "L%d" % (total + 1), "l"], [1, 1, 1, 0], F + " wrong length")
                add("descriptor-kind", name, [F, "o"], [1 if ok else 0], F + " plain open")
                # (zck_validate_lead rewinds the descriptor afterwards, so it needs a seekable one: not asked of pipes)
        for wn, wimg, W, ll in wrapped:
            # the file's total header length is lead + 2^64-ish: no representable pin equals it
            for L_ in (W, W + 1, ll, 0):
                add("length-wraps", wn, ["L%d" % L_, "v"], [1, 0], "lead %d bytes, declared header size 2^64-%d+%d" % (ll, ll, W))
                add("length-wraps", wn, ["L%d" % L_, "l"], [1, 0], "lead %d bytes, declared header size 2^64-%d+%d" % (ll, ll, W))
        # cross-file: pins from F0, image F1
        for n1, d1, n0 in derived:
            t0, dg0, total0, ok0 = info[n0]
            i1 = info[n1]
            if i1 is None:
                continue
            t1, dg1, total1, ok1 = i1
            lead_eq = (t1 == t0 and dg1 == dg0 and total1 == total0)
            add("cross-file-" + n1.split("-mut-")[1], n1, ["T%d" % t0, "D" + dg0.hex().encode().hex(), "L%d" % total0, "v", "l", "h"],
                [1, 1, 1, 1 if lead_eq else 0, 1 if lead_eq else 0, (1 if ok1 else 0) if lead_eq else None], "pins from %s" % n0)
            add("cross-file-open-" + n1.split("-mut-")[1], n1, ["T%d" % t0, "D" + dg0.hex().encode().hex(), "L%d" % total0, "o"],
                [1, 1, 1, 1 if (lead_eq and ok1) else 0], "pins from %s" % n0)
        # validated under pins taken from F0, then the file behind the descriptor is rewritten in place with F1, then the lead is read
        for n1, d1, n0 in derived:
            t0, dg0, total0, ok0 = info[n0]
            i1 = info[n1]
            if i1 is None:
                continue
            t1, dg1, total1, ok1 = i1
            lead_eq = (t1 == t0 and dg1 == dg0 and total1 == total0)
            pins = ["T%d" % t0, "D" + dg0.hex().encode().hex(), "L%d" % total0]
            add("rewritten-after-validate", n0, pins + ["v", "W%d" % fidx[n1], "l"], [1, 1, 1, 1, None, 1 if lead_eq else 0], "validated %s, then %s behind the same descriptor" % (n0, n1))
            add("rewritten-after-validate", n0, pins + ["v", "W%d" % fidx[n1], "v", "o"], [1, 1, 1, 1, None, 1 if lead_eq else 0, 1 if (lead_eq and ok1) else 0], "validated %s, then %s" % (n0, n1))
            add("rewritten-after-validate", n0, pins[:2] + ["v", "v", "W%d" % fidx[n1], "l"], [1, 1, 1, 1, None, 1 if (t1 == t0 and dg1 == dg0) else 0])
        for (na, da), (nb, db) in zip(files, files[1:] + files[:1]):
            ta, dga, totala, oka = info[na]
            tb, dgb, totalb, okb = info[nb]
            if ta == tb:
                add("cross-file-other", nb, ["T%d" % ta, "D" + dga.hex().encode().hex(), "l"], [1, 1, 1 if dga == dgb else 0], "pins from %s" % na)
            add("cross-file-other", nb, ["T%d" % ta, "L%d" % totala, "l"], [1, 1, 1 if (ta == tb and totala == totalb) else 0], "pins from %s" % na)
        self.exhaustive = True
        self.count("digest_string_positions_enumerated", sum(2 * DS[info[n][0]] for n, _ in files))
        fb = [core.b64(d) for _, d in allfiles]
        out = []
        per = max(200, len(cases) // 48)
        for i in range(0, len(cases), per):
            out.append({"batch": i, "files": fb, "cases": cases[i:i + per], "bin": ctx["bin"]})
        return out
