"""C17 - memory safety and clean failure on arbitrary server responses.
Monitor: ASan+UBSan (fatal), signals, CPU bound on the header / write
callbacks fed hostile header lines and bodies (structured generator + stage 2
libFuzzer target with an in-target confinement monitor); the write(2)
interposer's watch proves nothing outside the missing chunks' extents is
written; every chunk flagged valid afterwards is re-hashed with hashlib."""
import glob
import os
import re
import shutil
import subprocess
import sys

sys.path.insert(0, os.path.join(os.path.dirname(os.path.abspath(__file__)), "..", "lib"))
import build
import core
import zckref

META = "+().?*[]{}|^$\\"


def emulate_ranges(p, M, limit):
    """The library's rule (prefix of missing chunks, merge touching, stop when count reaches limit)."""
    rs = []
    for c in p.chunks:
        if c["number"] not in M or c["comp_len"] == 0:
            continue
        a = p.header_len + c["start"]
        b = a + c["comp_len"] - 1
        if rs and rs[-1][1] + 1 >= a:
            rs[-1][1] = b
        else:
            rs.append([a, b])
        if limit >= 0 and len(rs) >= limit:
            break
    return rs


def multipart(rs, B, boundary, total=None, ct=True, crlf_first=True, term=True, range_fmt="bytes %d-%d/%d", hdr_name=b"Content-Range"):
    out = bytearray()
    for i, (a, b) in enumerate(rs):
        if i or crlf_first:
            out += b"\r\n"
        out += b"--" + boundary + b"\r\n"
        if ct:
            out += b"Content-Type: application/octet-stream\r\n"
        out += hdr_name + b": " + (range_fmt % (a, b, total or len(B))).encode() + b"\r\n\r\n"
        out += B[a:b + 1]
    if term:
        out += b"\r\n--" + boundary + b"--\r\n"
    return bytes(out)


def gen_responses(r, B, p, M, limit, n):
    """Yield (class, header_lines[list of bytes], body bytes)."""
    rs = emulate_ranges(p, M, limit) or [[p.header_len, len(B) - 1]]
    good_b = b"zckBOUNDARY42"
    ct = lambda b_, q=False: b"Content-Type: multipart/byteranges; boundary=" + (b'"' + b_ + b'"' if q else b_) + b"\r\n"
    status = b"HTTP/1.1 206 Partial Content\r\n"
    out = []
    wf = multipart(rs, B, good_b)

    def add(cls, lines, body):
        out.append((cls, lines, body))
    for _ in range(n):
        k = r.randrange(32)
        if k >= 30:   # printf conversions wherever the server's text could end up in a message: part headers, boundary, header lines
            fmtb = r.choice([b"%s%s%s%s", b"%n%n", b"%x.%x.%x.%p", b"%999999d", b"%%", b"%1$s%2$n", b"100% sure", b"%ls%hhn"])
            which = r.randrange(4)
            if which == 0:
                add("format-chars", [status, ct(good_b), b"\r\n"], b"\r\n--" + good_b + b"\r\nX-Note: " + fmtb + b"\r\n\r\n" + wf)
            elif which == 1:
                add("format-chars", [status, ct(good_b), b"\r\n"], multipart(rs, B, good_b, hdr_name=b"X-" + fmtb))
            elif which == 2:
                b_ = b"ab" + fmtb.replace(b" ", b"_") + b"cd"
                add("format-chars", [status, ct(b_, True), b"\r\n"], multipart(rs, B, b_)[:-9] + fmtb)
            else:
                add("format-chars", [status, b"X-Info: " + fmtb + b"\r\n", ct(good_b), b"\r\n"], wf.replace(b"bytes ", b"bytes " + fmtb, 1))
        elif k == 0:    # every regex metacharacter in the boundary, quoted and not
            ch = r.choice(META)
            b_ = b"ab" + ch.encode() * r.choice([1, 2, 5]) + b"cd"
            add("boundary-metachar", [status, ct(b_, r.random() < 0.5), b"\r\n"], multipart(rs, B, b_))
        elif k == 1:  # unbalanced / empty quotes, empty value
            v = r.choice([b'"', b'""', b'"abc', b'abc"', b"", b" ", b'" "', b'"\\"', b"=", b";"])
            add("boundary-quotes", [status, b"Content-Type: multipart/byteranges; boundary=" + v + b"\r\n", b"\r\n"], multipart(rs, B, v.strip(b'"') or b"x"))
        elif k == 2:  # very long boundary
            b_ = bytes(r.choice(b"abcXYZ019+(") for _ in range(r.choice([200, 4000, 16300])))
            add("boundary-long", [status, ct(b_), b"\r\n"], multipart(rs, B, b_)[: 60000])
        elif k == 3:  # missing CR, NULs, bare LF
            line = r.choice([b"Content-Type: multipart/byteranges; boundary=" + good_b + b"\n",
                             b"Content-Type: multipart/byteranges; boundary=" + good_b,
                             b"Content-Type: multipart/byteranges; boundary=ab\x00cd\r\n",
                             b"\x00\x00\x00\r\n", b"boundary=\r", b"boundary = \r\n", b"BOUNDARY=" + good_b + b"\r\n"])
            add("header-malformed", [status, line, b"\r\n"], wf)
        elif k == 4:  # repeated boundary headers with different values
            add("boundary-repeated", [status, ct(b"first"), ct(good_b), b"\r\n"], wf)
            add("boundary-repeated", [status, ct(good_b), ct(b"second"), b"\r\n"], wf)
        elif k == 5:  # multipart body without boundary header, and boundary header with single-range body
            add("no-boundary-header", [status, b"Content-Range: bytes 0-1/2\r\n", b"\r\n"], wf)
            add("boundary-but-single-body", [status, ct(good_b), b"\r\n"], B[rs[0][0]:rs[0][1] + 1])
        elif k == 6:  # part without Content-Range
            add("part-no-content-range", [status, ct(good_b), b"\r\n"], multipart(rs, B, good_b, hdr_name=b"X-Other"))
        elif k == 7:  # inverted / huge / non-numeric ranges
            fmt = r.choice(["bytes %d-0/%d%.0s", "bytes 99999999999999999999999999-%d/%d%.0s", "bytes -%d-%d/%d", "bytes %d-%d/", "bytes abc-def/ghi%.0s%.0s%.0s",
                            "bytes %d-18446744073709551615/%d%.0s", "bytes 5-4/%d%.0s%.0s", "bytes 0-0/%d%.0s%.0s", "items %d-%d/%d", "bytes  %d  -  %d  /%d"])
            try:
                add("range-values", [status, ct(good_b), b"\r\n"], multipart(rs, B, good_b, range_fmt=fmt))
            except TypeError:
                pass
        elif k == 8:  # missing terminator / truncated anywhere
            body = multipart(rs, B, good_b, term=r.random() < 0.5)
            add("truncated", [status, ct(good_b), b"\r\n"], body[: r.randrange(len(body) + 1)])
        elif k == 9:  # thousands of tiny parts
            rs2 = [[p.header_len + i, p.header_len + i] for i in range(0, min(len(B) - p.header_len, r.choice([50, 2000])))]
            add("many-parts", [status, ct(good_b), b"\r\n"], multipart(rs2, B, good_b))
        elif k == 10:  # payload shorter / longer than announced
            d = r.choice([-3, -1, 1, 2, 100])
            rs2 = [[a, b] for a, b in rs]
            body = bytearray()
            for i, (a, b) in enumerate(rs2):
                body += b"\r\n--" + good_b + b"\r\nContent-Range: bytes %d-%d/%d\r\n\r\n" % (a, b, len(B))
                body += (B[a:b + 1] + r.randbytes(100))[: max(0, b + 1 - a + d)]
            body += b"\r\n--" + good_b + b"--\r\n"
            add("payload-length-mismatch", [status, ct(good_b), b"\r\n"], bytes(body))
        elif k == 11:  # random bytes as body / as header
            add("random-body", [status, ct(good_b), b"\r\n"], r.randbytes(r.choice([1, 100, 5000])))
            add("random-header", [r.randbytes(r.choice([1, 80, 900])) + b"\r\n"], wf)
        elif k == 12:  # junk before the first delimiter, doubled CRLFCRLF, NUL in part header
            add("preamble-junk", [status, ct(good_b), b"\r\n"], r.randbytes(r.choice([1, 7, 300])) + wf)
            add("crlf-storm", [status, ct(good_b), b"\r\n"], b"\r\n\r\n" * r.choice([1, 3, 500]) + wf)
            add("nul-in-part-header", [status, ct(good_b), b"\r\n"], wf.replace(b"Content-Type", b"Content\x00Type", 1))
        elif k == 13:  # single-range body: longer than requested, shorter, wrong bytes, empty
            a, b = rs[0]
            body = r.choice([B[a:b + 1] + r.randbytes(r.choice([1, 300])), B[a:b], r.randbytes(b + 1 - a), b"", B[a:b + 1] * 2])
            add("single-range-length", [status, b"Content-Range: bytes %d-%d/%d\r\n" % (a, b, len(B)), b"\r\n"], body)
        elif k == 14:  # wrong ranges: header region, valid chunks, beyond EOF
            rs2 = r.choice([[[0, p.header_len - 1]], [[0, len(B) - 1]], [[len(B) - 5, len(B) + 100]], [[a, b] for a, b in reversed(rs)], rs + rs])
            add("unrequested-ranges", [status, ct(good_b), b"\r\n"], multipart(rs2, B + bytes(200), good_b, total=len(B)))
        elif k == 15:  # boundary that looks like a regex matching everything / nothing
            b_ = r.choice([b".*", b"(", b")", b"a{2", b"[", b"\\", b"a|b", b"^", b"$", b"()", b"(?:x)", b"x{99999}", b"[[:alpha:]]"])
            add("boundary-regex-syntax", [status, ct(b_, r.random() < 0.5), b"\r\n"], multipart(rs, B, b_))
        elif k == 16:  # well-formed (control): must not be reported
            add("wellformed-control", [status, ct(good_b), b"\r\n"], wf)
        elif k == 17:  # boundary appearing inside the payload
            add("boundary-in-payload", [status, ct(good_b), b"\r\n"], wf.replace(B[rs[0][0]:rs[0][0] + 1], b"\r\n--" + good_b + b"\r\n", 1))
        elif k == 18:  # header only delimiter lines, no blank line
            add("no-blank-line", [status, ct(good_b), b"\r\n"], (b"\r\n--" + good_b + b"\r\nContent-Range: bytes 1-2/3\r\n") * r.choice([1, 40]))
        elif k == 19:  # 16 KiB part header without terminator
            add("endless-part-header", [status, ct(good_b), b"\r\n"], b"\r\n--" + good_b + b"\r\n" + b"X: " + b"y" * r.choice([5000, 70000]))
        else:
            # byte-level mutation of the well-formed response
            body = bytearray(wf)
            for _ in range(r.choice([1, 1, 2, 8])):
                if not body:
                    break
                pos = r.randrange(len(body))
                op = r.randrange(3)
                if op == 0:
                    body[pos] = r.randrange(256)
                elif op == 1:
                    del body[pos:pos + r.choice([1, 2, 10])]
                else:
                    body[pos:pos] = r.randbytes(r.choice([1, 2, 10]))
            add("mutated-wellformed", [status, ct(good_b), b"\r\n"], bytes(body))
    return out


def worker(case):
    cdir = case["dir"]
    keep = False
    B = core.unb64(case["B"])
    T0 = core.unb64(case["T0"])
    cid = core.h8([case["name"], case["cls"], case["hdr"], case["body"][:64], len(case["body"]), case["frag"], case["seq"], case.get("loglevel"), case.get("fd2"), case.get("chain"), case.get("neighbour"), case.get("norange")])
    stats = {"evaluations": 1}
    try:
        p = zckref.parse(B)
        ext = lambda c: (p.header_len + c["start"], p.header_len + c["start"] + c["comp_len"] - 1)
        missing = [c for c in p.chunks if c["number"] in case["M"] and c["comp_len"] > 0]
        allowed = ",".join("%d-%d" % ext(c) for c in missing) or "0-0"
        body = core.unb64(case["body"])
        L = (["closefd 2"] if case.get("fd2") else []) + ["fopen 1 t.zck rw target", "create 1", "init_read 1 1", "fv 1", "reset_failed 1", "flags 1", "dl_init 0 1",
             "range 2 1 %d" % case["limit"], "dl_set_range 0 2", "watch target %s" % allowed]
        nr = case.get("norange")
        if nr == "before":
            # data arrives although no range was ever set on the download context
            i_ = L.index("dl_set_range 0 2")
            L[i_:i_] = ["hdrline 0 x:%s all" % h for h in case["hdr"]] + ["body 0 f:body.bin %s cont" % case["frag"], "clear_error 1"]
            stats["deliveries_without_a_range"] = 1
        if case.get("chain"):
            L.insert(0, "chain 1")   # the application's own callbacks hung behind the library's
            stats["runs_with_application_callbacks_chained"] = 1
        if case.get("neighbour"):
            # a second, unrelated transfer in the same process (own context, own file): it sees the same response header, and is torn down
            # while this one is between two header lines
            L += ["hdrline 0 x:%s all" % b"Date: Thu, 01 Jan 1970 00:00:00 GMT\r\n".hex(),
                  "fopen 3 t2.zck rw target2", "create 3", "init_read 3 3", "dl_init 1 3"] + ["hdrline 1 x:%s all" % h for h in case["hdr"]] + ["dl_free 1", "free 3", "fclose 3"]
            stats["runs_beside_a_second_transfer"] = 1
        for h in case["hdr"]:
            L.append("hdrline 0 x:%s all" % h)
        L.append("body 0 f:body.bin %s cont" % case["frag"])
        for step in case["seq"]:
            if step == "clear":
                L += ["clear_error 1", "body 0 f:body.bin %s cont" % case["frag"]]
            elif step == "reset":
                L += ["dl_reset 0", "dl_set_range 0 2"] + ["hdrline 0 x:%s all" % h for h in case["hdr"]] + ["body 0 f:body.bin %s" % ("n:1" if len(body) <= 4000 else "n:97")]
            elif step == "retry":
                # what a client does after a transfer that ended badly: rescan (moves the file position), reset, ask again on the same zckDL
                L += ["fv 1", "reset_failed 1", "dl_reset 0", "dl_set_range 0 2"] + ["hdrline 0 x:%s all" % h for h in case["hdr"]] + ["body 0 f:body.bin %s cont" % case["frag"]]
            elif step == "again":
                L += ["hdrline 0 x:%s all" % h for h in case["hdr"]] + ["body 0 f:body.bin %s cont" % case["frag"]]
        if nr in ("null", "reset"):
            # ... or after the application took the range away again / reset the context (as zckdl does after each request)
            L += ["clear_error 1", "dl_set_range 0 null" if nr == "null" else "dl_reset 0"] + ["hdrline 0 x:%s all" % h for h in case["hdr"]] + ["body 0 f:body.bin %s cont" % case["frag"]]
            stats["deliveries_without_a_range"] = 1
        L += ["watchstat", "watch - -", "flags 1", "dl_free 0", "range_free 2", "free 1"]
        # a third of the cases with the library's logging at DEBUG level (what zckdl -vv sets): message formatting sees the hostile bytes too
        rd = core.run_zh(case["zh"], cdir, "\n".join(L) + "\n", {"t.zck": T0, "t2.zck": T0, "body.bin": body or b""}, name="dl",
                         env_extra={"ZH_LOGLEVEL": str(case["fd2"] if case.get("fd2") else case["loglevel"])} if (case.get("loglevel") is not None or case.get("fd2")) else None)
        if case.get("fd2"):
            stats["runs_with_target_on_descriptor_2"] = 1
        if case.get("loglevel") is not None:
            stats["runs_with_debug_logging"] = 1
        if rd.timed_out and not rd.cpu_exceeded:
            return core.verdict(cid, "inconclusive", detail="watchdog", case=case)
        if rd.harness_error:
            return core.verdict(cid, "inconclusive", detail=str(rd.harness_error), case=case)
        if rd.xcpu is not None and not (rd.xcpu["in_callback"] and rd.xcpu["cb_cpu_ms"] > 5000):
            # the CPU budget ran out over thousands of callbacks, none of them slow: workload too large, not a hang
            return core.verdict(cid, "inconclusive", detail="cpu budget exhausted across callbacks: %s" % rd.xcpu, case=case)
        cs = core.crash_signatures(rd)
        viol = None
        if cs:
            viol = (cs[0], "%s during '%s' class=%s" % (cs, rd.open_call, case["cls"]))
        elif not rd.ended:
            if rd.harness_error and "data" in str(rd.harness_error):
                return core.verdict(cid, "inconclusive", detail=str(rd.harness_error), case=case)
            viol = ("c17:callback-did-not-return", "harness ended early: rc=%s open=%s %s" % (rd.rc, rd.open_call, rd.harness_error))
        else:
            ws = rd.first(op="watchstat")
            stats["target_writes_observed"] = ws["writes"] if ws else 0
            stats["callbacks"] = sum(e.get("callbacks", 0) for e in rd.ev(op="feed"))
            worst = max([e.get("worst_cb_ms", 0) for e in rd.ev(op="feed")] or [0])
            stats["worst_callback_ms"] = [int(worst)]
            if worst > 5000:
                viol = ("c17:callback-too-slow:%s" % case["cls"], "one callback took %.0f ms CPU" % worst)
            stats["cls_" + case["cls"]] = 1
            if ws and ws["oob"]:
                ob = rd.first(ev="oob_write")
                viol = ("c17:write-outside-missing-extents:%s" % case["cls"], "write %s outside %s" % (ob, allowed[:120]))
            fl = [e for e in rd.events if e.get("op") == "flags"]
            final = fl[-1]["valid"] if fl else []
            disk = open(os.path.join(cdir, "t.zck"), "rb").read()
            for c, f in zip(p.chunks, final):
                if f == 1 and c["comp_len"]:
                    a, b = ext(c)
                    if zckref.H(p.chunk_hash_type, disk[a:b + 1]) != c["digest"]:
                        viol = ("c17:valid-flag-on-wrong-bytes:%s" % case["cls"], "chunk %d flagged valid but its bytes do not hash to the index digest" % c["number"])
                        break
            if not viol:
                # bytes outside the missing extents untouched (diff; complements the write log)
                msk = bytearray(len(disk))
                for c in missing:
                    a, b = ext(c)
                    msk[a:b + 1] = b"\x01" * (b + 1 - a)
                for k in range(min(len(disk), len(T0))):
                    if not msk[k] and disk[k] != T0[k]:
                        viol = ("c17:bytes-changed-outside-missing-extents:%s" % case["cls"], "offset %d changed" % k)
                        break
                if not viol and len(disk) != len(T0) and len(disk) > max([ext(c)[1] for c in missing] + [len(T0) - 1]) + 1:
                    viol = ("c17:file-grew-beyond-extents:%s" % case["cls"], "%d -> %d" % (len(T0), len(disk)))
            if case["cls"] == "wellformed-control" and not viol and not case["seq"] and not case.get("norange"):
                if not all(e.get("failed") == 0 for e in rd.ev(op="feed")):
                    viol = ("c17:wellformed-control-rejected", "control response rejected")
            stats["chunks_became_valid"] = sum(1 for c, f in zip(p.chunks, final) if f == 1 and c["number"] in case["M"])
            stats["chunks_failed"] = sum(1 for f in final if f == -1)
        if viol:
            keep = True
            return core.verdict(cid, "violated", [viol[0]], stats, detail=viol[1] + " frag=%s seq=%s hdr=%s" % (case["frag"], case["seq"], [bytes.fromhex(h)[:60] for h in case["hdr"]]),
                                cdir=cdir, case=case)
        return core.verdict(cid, "held", stats=stats, nontrivial=True,
                            sample={"class": case["cls"], "header_lines": [bytes.fromhex(h)[:80].decode("latin1") for h in case["hdr"]], "body_len": len(body),
                                    "body_head": body[:80].decode("latin1"), "frag": case["frag"], "seq": case["seq"]})
    finally:
        core.cleanup_case(cdir, keep)


class C17(core.Check):
    prop = "C17"
    flavours = ["asan", "fuzz"]
    rule = ("parsed targets (several files, missing sets, limits) x hostile responses from a grammar (boundary with every regex metacharacter, quotes "
            "balanced/unbalanced/empty, 16 KiB boundaries, missing CR, NULs, repeated boundary headers, parts without Content-Range, inverted/huge/non-numeric "
            "ranges, missing terminators, thousands of parts, payload length mismatches, unrequested ranges, byte-level mutations of well-formed responses) x "
            "fragmentations (whole, 1 byte, 7 bytes, random <= 16 KiB) x sequences (single, second response after zck_dl_reset, after zck_clear_error, repeated "
            "without reset); a quarter with the application's own callbacks chained behind the library's, some with data delivered while no range is set (before dl_set_range, after dl_set_range(NULL), after zck_dl_reset), printf conversions in every server-supplied text, a fifth beside a second transfer (own context and file) that sees the same "
            "header lines and is freed in between; stage 2: libFuzzer target with ASan+UBSan and an in-target confinement/validity monitor. distinct = (class, header lines, body, "
            "fragmentation, sequence)")
    assumptions = ["confinement judged from the write(2) interposer's log and an image diff", "valid flags re-checked with hashlib"]
    worker = staticmethod(worker)

    def prepare(self, fl):
        ctx = {"zh": build.zh(fl["asan"])}
        ctx["fz"] = fl["fuzz"].harness("fz_dl", ["fz_dl.c"], extra_cflags=["-fsanitize=fuzzer"], extra_ld=["-fsanitize=fuzzer"])
        return ctx

    def cases(self, ctx):
        r = core.rng(self.seed, "C17", "gen")
        out = []
        nfiles = 4 if self.quick else 24
        per = 160 if self.quick else 1000
        for fi in range(nfiles):
            n = r.choice([3, 6, 20])
            pieces = [r.randbytes(r.randrange(1, r.choice([20, 300, 5000]))) for _ in range(n)]
            B = zckref.make_file(pieces, dict_bytes=r.randbytes(r.choice([0, 30])), chunk_hash_type=r.randrange(4))
            p = zckref.parse(B)
            ids = [c["number"] for c in p.chunks if c["comp_len"] > 0]
            M = sorted({k for k in ids if r.random() < 0.6} or {ids[0]})
            T0 = bytearray(B)
            for c in p.chunks:
                if c["number"] in M:
                    a = p.header_len + c["start"]
                    T0[a:a + c["comp_len"]] = bytes(x ^ 0xFF for x in B[a:a + c["comp_len"]])
            limit = r.choice([-1, 1, 2, 5, 255])
            for cls, hdr, body in gen_responses(r, B, p, set(M), limit, per):
                frag = r.choice(["all", "n:1", "n:7", "n:16384", "rand:%d:16384" % r.randrange(1 << 20), "rand:%d:9" % r.randrange(1 << 20)])
                if len(body) > 4000 and frag in ("n:1", "n:7") or (len(body) > 4000 and frag.endswith(":9")):
                    frag = "n:97"
                seq = r.choice([[], [], [], ["clear"], ["reset"], ["again"], ["clear", "clear"], ["clear", "reset"], ["retry"], ["retry", "retry"], ["clear", "retry"]])
                if cls in ("truncated", "payload-length-mismatch") and r.random() < 0.6:
                    seq = r.choice([["retry"], ["retry", "reset"], ["clear", "retry"]])
                out.append({"name": "f%d" % fi, "B": core.b64(B), "T0": core.b64(bytes(T0)), "M": M, "limit": limit, "cls": cls,
                            "hdr": [h.hex() for h in hdr], "body": core.b64(body), "frag": frag, "seq": seq, "zh": ctx["zh"],
                            "fd2": 3 if r.random() < 0.15 else None, "chain": 1 if r.random() < 0.25 else 0, "neighbour": 1 if r.random() < 0.2 else 0, "norange": r.choice([None] * 8 + ["before", "null", "reset"]),
                            "loglevel": 0 if (cls in ("boundary-long", "boundary-metachar", "header-malformed") or r.random() < 0.25) and not frag.startswith("n:1") else None})
            # a part header that never seems to end: more than a megabyte before the blank line (a real range and payload follow), delivered in
            # transport-sized pieces; the caller clears the error, if any, and carries on / retries / resets
            if fi < (2 if self.quick else 8):
                rs = emulate_ranges(p, set(M), limit) or [[p.header_len, len(B) - 1]]
                good_b = b"zckBOUNDARY42"
                padn = r.choice([1100000, 1300000, 2200000])
                body = bytearray(b"\r\n--" + good_b + b"\r\nX-Trace: " + b"t" * padn + b"\r\n")
                a_, b_ = rs[0]
                body += b"Content-Range: bytes %d-%d/%d\r\n\r\n" % (a_, b_, len(B)) + B[a_:b_ + 1] + b"\r\n--" + good_b + b"--\r\n"
                hdr = [b"HTTP/1.1 206 Partial Content\r\n", b"Content-Type: multipart/byteranges; boundary=" + good_b + b"\r\n", b"\r\n"]
                for seq in (["clear"], ["clear", "retry"], ["retry"]):
                    out.append({"name": "f%d" % fi, "B": core.b64(B), "T0": core.b64(bytes(T0)), "M": M, "limit": limit, "cls": "part-header-over-1MiB", "hdr": [h.hex() for h in hdr],
                                "body": core.b64(bytes(body)), "frag": "n:16384", "seq": seq, "zh": ctx["zh"], "fd2": None, "loglevel": None})
        return out

    def post(self, verdicts, ctx):
        runs = 15000 if self.quick else 1500000
        jobs = 16
        corpus = os.path.join(self.work, "corpus")
        os.makedirs(corpus, exist_ok=True)
        r = core.rng(self.seed, "C17", "corpus")
        # seeds: the structured generator's responses in the fuzz target's input format
        pieces = [bytes([65 + i]) * (10 + 7 * i) for i in range(5)]
        B = zckref.make_file(pieces, chunk_hash_type=1)
        p = zckref.parse(B)
        for k, (cls, hdr, body) in enumerate(gen_responses(r, B, p, {2, 4}, -1, 150)):
            blob = bytes([k & 0xff, len(hdr) & 0xff]) + b"".join(h if h.endswith(b"\n") else h + b"\n" for h in hdr) + body
            if self.quick and len(blob) > 6000:
                # (large seeds - tens of KB of part header - make every mutant of them slow under small fragmentations, Correction 3: the
                # structured tier covers those sizes; the quick fuzz stage spends its run budget on small inputs)
                continue
            open(os.path.join(corpus, "s%d" % k), "wb").write(blob[:60000])
        procs = []
        for j in range(jobs):
            jd = os.path.join(self.work, "fz%d" % j)
            os.makedirs(jd, exist_ok=True)
            env = core.san_env(jd)
            env["ASAN_OPTIONS"] = core.ASAN_OPTS.replace("detect_stack_use_after_return=1", "detect_stack_use_after_return=0") + ":quarantine_size_mb=8"
            env["UBSAN_OPTIONS"] = "print_stacktrace=1:halt_on_error=1"
            if j % 4 == 3:
                env["FZ_DEBUG_LOG"] = "1"     # a quarter of the jobs with the library logging at DEBUG level (to /dev/null)
            cmd = [ctx["fz"], "-runs=%d" % runs, "-seed=%d" % (self.seed * 100 + j + 1), "-max_len=40000", "-timeout=25", "-rss_limit_mb=4096",
                   "-artifact_prefix=" + jd + "/", "-print_final_stats=1", "-max_total_time=%d" % (150 if self.quick else 3000), corpus]
            lf = open(os.path.join(jd, "log"), "wb")
            procs.append((j, jd, subprocess.Popen(cmd, cwd=jd, env=env, stdout=lf, stderr=subprocess.STDOUT), lf))
        out = []
        for j, jd, pr, lf in procs:
            try:
                pr.wait(timeout=400 if self.quick else 4000)
            except subprocess.TimeoutExpired:
                pr.kill()
                pr.wait()
                out.append(core.verdict("fuzz-job%d" % j, "inconclusive", detail="fuzzer job watchdog"))
                continue
            lf.close()
            log = open(os.path.join(jd, "log"), errors="replace").read()
            m = re.search(r"stat::number_of_executed_units:\s*(\d+)", log)
            ex = int(m.group(1)) if m else 0
            arts = [a for a in glob.glob(os.path.join(jd, "*")) if os.path.basename(a).startswith(("crash-", "timeout-", "oom-"))]
            cov = re.findall(r"cov: (\d+)", log)
            st = {"evaluations": ex, "fuzz_execs": ex, "fuzz_edges_max": [int(cov[-1])] if cov else []}
            if arts:
                sigs = core.san_signatures(log)
                mon = re.search(r"MONITOR: ([\w-]+)", log)
                if mon:
                    sigs = ["c17:fuzz-monitor:%s" % mon.group(1)]
                kind = os.path.basename(arts[0]).split("-")[0]
                if not sigs:
                    sigs = ["fuzz:%s" % ("hang:cpu>25s:fz_dl" if kind == "timeout" else kind)]
                cdir = os.path.join(self.work, "fzart%d" % j)
                os.makedirs(cdir, exist_ok=True)
                shutil.copy(arts[0], os.path.join(cdir, "artifact"))
                open(os.path.join(cdir, "fuzz.log"), "w").write(log[-20000:])
                out.append(core.verdict("fuzz-job%d" % j, "violated", [sigs[0]], st, detail="libFuzzer artifact %s (replay: fz_dl <artifact>): %s" % (os.path.basename(arts[0]), sigs),
                                        cdir=cdir, case={"fuzz_artifact": True}))
            elif pr.returncode != 0:
                out.append(core.verdict("fuzz-job%d" % j, "inconclusive", stats=st, detail="fuzzer exited %s without artifact: %s" % (pr.returncode, log[-300:])))
            else:
                out.append(core.verdict("fuzz-job%d" % j, "held", stats=st, nontrivial=["fuzz-job%d" % j] if ex > 1000 else False,
                                        sample={"libfuzzer_job": j, "execs": ex, "edges": st["fuzz_edges_max"]}))
        return out
