"""C11 - interrupted updates resume to the exact file; partial chunks never trusted.
Fault enumeration: a fault-free run of the update procedure counts the
write(2) calls that reach the target descriptor (header callback writes
included); then EVERY such write k is turned into a kill point by the link-time
interposer - it really transfers only the first j bytes (j in {0, 1, half,
len-1}) and _exit()s.  Python snapshots the target, classifies every chunk by
hashing what is on disk, and a fresh process (fresh contexts) resumes on the
partial file.  Offline checker (shared with C04): the resumed run ends with a
target identical to B and whole-data validation 1, and the body bytes it
requests are exactly the extents of the chunks that were NOT completely and
correctly present in the snapshot (nothing intact is fetched again, no partial
chunk is trusted).  Sampled double kills: the resume is killed too.  The same
is done to the REAL zckdl binary (LD_PRELOAD kill shim) against the loopback
range server, judged from the server's request log."""
import os
import sys

sys.path.insert(0, os.path.join(os.path.dirname(os.path.abspath(__file__)), "..", "lib"))
sys.path.insert(0, os.path.dirname(os.path.abspath(__file__)))
import build
import c04
import core
import gen
import zckref

JS = [0, 1, -1, -2]   # bytes really transferred by the killed write: 0, 1, half, len-1


def script(sc, fault=None):
    L = []
    if sc["A"]:
        L += ["fopen 2 A.zck r source", "create 2", "init_read 2 2"]
    L += ["fopen 1 tgt.zck rwc target", "create 1"]
    if fault:
        L.append("fault target write %d 6 %d" % fault)
    L += ["update 1 1 %s B.zck %d %d %s %s" % ("2" if sc["A"] else "-", sc["limit"], sc["style"], sc["frag"], sc["boundary"]), "iocounts"]
    return "\n".join(L) + "\n"


def real_worker(case):
    """Kill the REAL zckdl (plain build, LD_PRELOAD shim) at a target write, resume it, judge the resume from the server's log."""
    import rangesrv
    cdir = case["dir"]
    keep = False
    sc = case["sc"]
    B = core.unb64(sc["B"])
    A = core.unb64(sc["A"]) if sc["A"] else None
    T0 = core.unb64(sc["T0"]) if sc["T0"] is not None else None
    cid = core.h8(["real", sc["name"], case["points"]])
    stats = {"evaluations": 0}
    try:
        pB = zckref.parse(B)
        pA = zckref.parse(A) if A else None
        wdir = os.path.join(case["www"], cid)
        os.makedirs(wdir, exist_ok=True)
        open(os.path.join(wdir, "tgt.zck"), "wb").write(B)
        nontriv = set()
        viol = None
        for (k, j) in case["points"]:
            kd = os.path.join(cdir, "k%d_%d" % (k, 100 - j if j < 0 else j))
            os.makedirs(kd, exist_ok=True)
            if T0 is not None:
                open(os.path.join(kd, "tgt.zck"), "wb").write(T0)
            argv = [case["zckdl"]]
            if A:
                open(os.path.join(kd, "A.zck"), "wb").write(A)
                argv += ["-s", "A.zck"]

            def url(run):
                return "http://127.0.0.1:%d/~maxr=%d;run=%s-%d-%d-%d/%s/tgt.zck" % (case["port"], sc["maxr"], cid, k, 100 - j if j < 0 else j, run, cid)
            env = {"PATH": os.environ.get("PATH", "/usr/bin:/bin"), "LC_ALL": "C", "TMPDIR": kd, "no_proxy": "*", "NO_PROXY": "*", "LD_PRELOAD": case["preload"],
                   "ZCKV_CLASSES": "target=tgt.zck", "ZCKV_LOG": os.path.join(kd, "pl.log"), "ZCKV_FAULT": "target:write:%d:6:%d" % (k, j)}
            r1 = core.run_proc(argv + [url(1)], kd, env=env, cpu=60)
            stats["evaluations"] += 1
            if r1.timed_out and not r1.cpu_exceeded:
                return core.verdict(cid, "inconclusive", detail="watchdog", case=case)
            ev = core.parse_log(os.path.join(kd, "pl.log"))
            inj = [e for e in ev if e.get("kill")]
            if r1.rc != 77 or not inj:
                stats["kill_points_not_reached"] = stats.get("kill_points_not_reached", 0) + 1
                core.cleanup_case(kd, False)
                continue
            stats["kills_fired"] = stats.get("kills_fired", 0) + 1
            snap = open(os.path.join(kd, "tgt.zck"), "rb").read()
            E, copied, already = c04.expected_fetch(pB, B, pA, snap, A)
            env2 = {k_: v_ for k_, v_ in env.items() if not k_.startswith(("LD_PRELOAD", "ZCKV_"))}
            r2 = core.run_proc(argv + [url(2)], kd, env=env2, cpu=60)
            stats["evaluations"] += 1
            cs = core.crash_signatures(r2, where="tool:zckdl")
            where = "header" if inj[0]["off"] < pB.header_len else "body"
            if cs:
                viol = (cs[0], "zckdl crashed on resume after kill k=%d j=%d: %s" % (k, j, cs), kd)
            elif r2.rc != 0:
                viol = ("c11:real:resume-failed:exit%s:%s" % (r2.rc, where), "zckdl resume after kill k=%d j=%d (offset %d) exit %s: %r" % (k, j, inj[0]["off"], r2.rc, r2.stderr[-300:]), kd)
            else:
                final = open(os.path.join(kd, "tgt.zck"), "rb").read()
                ents = rangesrv.requests_for(case["httplog"], "run=%s-%d-%d-2/" % (cid, k, 100 - j if j < 0 else j))
                reqs, n200 = rangesrv.body_requests(ents, pB.header_len)
                v = c04.judge_history(pB, B, E, reqs, final, "real:" + where)
                if v:
                    viol = (v[0].replace("c04:", "c11:real:resume:"), v[1] + " (kill k=%d j=%d at offset %d, %d chunks intact at the kill)" % (k, j, inj[0]["off"], len(already)), kd)
                stats["chunks_intact_at_kill"] = stats.get("chunks_intact_at_kill", 0) + len(already)
            if viol:
                break
            nontriv.add(core.h8([sc["name"], "real", k, j]))
            core.cleanup_case(kd, False)
        if viol:
            keep = True
            return core.verdict(cid, "violated", [viol[0]], stats, detail=viol[1] + " scenario=%s (real zckdl)" % sc["name"], cdir=viol[2], case=case)
        return core.verdict(cid, "held", stats=stats, nontrivial=nontriv, sample={"real_zckdl": True, "scenario": sc["name"], "kill_points": case["points"][:6], "server_max_ranges": sc["maxr"]})
    finally:
        core.cleanup_case(cdir, keep)
        import shutil
        shutil.rmtree(os.path.join(case["www"], core.h8(["real", sc["name"], case["points"]])), ignore_errors=True)


def worker(case):
    if case.get("real"):
        return real_worker(case)
    if case.get("probe_failed"):
        pf = case["probe_failed"]
        up = pf.get("update") or {}
        sig = pf["crash"][0] if pf.get("crash") else "c11:resume-failed:%s:initial-target-%s" % (up.get("stage"), "partial" if case["sc"]["T0"] is not None else "absent")
        return core.verdict(core.h8([case["sc"]["name"], "probe"]), "violated", [sig], {"evaluations": 1},
                            detail="the update procedure without any interruption ended rc=%s stage=%s err=%r on scenario %s" % (up.get("rc"), up.get("stage"), up.get("err"), case["sc"]["name"]),
                            case=case)
    cdir = case["dir"]
    keep = False
    sc = case["sc"]
    B = core.unb64(sc["B"])
    A = core.unb64(sc["A"]) if sc["A"] else None
    T0 = core.unb64(sc["T0"]) if sc["T0"] is not None else None
    cid = core.h8([sc["name"], case["points"]])
    stats = {"evaluations": 0}
    viols = []
    try:
        pB = zckref.parse(B)
        pA = zckref.parse(A) if A else None
        nontriv = set()
        for (k, j, k2) in case["points"]:
            kd = os.path.join(cdir, "k%d_%d" % (k, j if j >= 0 else 100 - j))
            files = {"B.zck": B}
            if A:
                files["A.zck"] = A
            if T0 is not None:
                files["tgt.zck"] = T0
            r1 = core.run_zh(case["zh"], kd, script(sc, (k, j)), files, cpu=60, name="kill")
            stats["evaluations"] += 1
            if r1.timed_out and not r1.cpu_exceeded:
                return core.verdict(cid, "inconclusive", detail="watchdog", case=case)
            cs = core.crash_signatures(r1)
            if cs:
                viols.append((cs[0], "crash before the kill point k=%d: %s" % (k, cs), kd))
                break
            inj = [e for e in r1.events if e.get("ev") == "io" and e.get("kill")]
            if r1.rc != 77 or not inj:
                # the kill point was not reached (e.g. fewer writes on this path): not an interruption
                stats["kill_points_not_reached"] = stats.get("kill_points_not_reached", 0) + 1
                core.cleanup_case(kd, False)
                continue
            stats["kills_fired"] = stats.get("kills_fired", 0) + 1
            where = "header" if inj[0]["off"] < pB.header_len else "body"
            stats["kills_in_" + where] = stats.get("kills_in_" + where, 0) + 1
            if 0 < inj[0]["ret"] < inj[0]["len"]:
                stats["torn_writes"] = stats.get("torn_writes", 0) + 1
            snap = open(os.path.join(kd, "tgt.zck"), "rb").read()
            resumes = 0
            sc_res, A_res, pA_res = sc, A, pA
            if sc.get("A2"):
                # the restart is given a DIFFERENT local source than the attempt that was interrupted (e.g. an older version found later)
                A_res = core.unb64(sc["A2"])
                pA_res = zckref.parse(A_res)
                sc_res = dict(sc, A=sc["A2"])
                open(os.path.join(kd, "A.zck"), "wb").write(A_res)
                stats["restarts_with_a_different_source"] = stats.get("restarts_with_a_different_source", 0) + 1
            while True:
                E, copied, already = c04.expected_fetch(pB, B, pA_res, snap, A_res)
                # partially written chunks at the kill: present on disk in part, not hashing
                fault = None
                if k2 and resumes == 0:
                    fault = (k2, -1)
                r2 = core.run_zh(case["zh"], kd, script(sc_res, fault), None, cpu=60, name="resume%d" % resumes)
                stats["evaluations"] += 1
                resumes += 1
                if r2.timed_out and not r2.cpu_exceeded:
                    return core.verdict(cid, "inconclusive", detail="watchdog", case=case)
                cs = core.crash_signatures(r2)
                if cs:
                    viols.append((cs[0], "crash during resume after kill k=%d j=%d: %s" % (k, j, cs), kd))
                    break
                if fault and r2.rc == 77:
                    stats["double_kills"] = stats.get("double_kills", 0) + 1
                    snap = open(os.path.join(kd, "tgt.zck"), "rb").read()
                    continue
                up = r2.first(op="update")
                if not up:
                    return core.verdict(cid, "inconclusive", detail="resume produced no update event: %s" % r2.harness_error, case=case)
                final = open(os.path.join(kd, "tgt.zck"), "rb").read()
                reqs = [e["ranges"] for e in r2.ev(ev="request")]
                tag = where
                if up["stage"] == "too_many_rounds":
                    viols.append(("c11:resume-too-many-rounds:%s" % tag, "k=%d j=%d" % (k, j), kd))
                elif up["rc"] != 1 or up["stage"] != "done":
                    viols.append(("c11:resume-failed:%s:%s" % (up["stage"], tag), "resume after kill k=%d j=%d ended rc=%s stage=%s err=%r" % (k, j, up["rc"], up["stage"], up.get("err")), kd))
                else:
                    v = c04.judge_history(pB, B, E, reqs, final, tag)
                    if v:
                        sig = v[0].replace("c04:", "c11:resume:")
                        viols.append((sig, v[1] + " (kill k=%d j=%d at offset %d, %d chunks intact at the kill)" % (k, j, inj[0]["off"], len(already)), kd))
                stats["chunks_intact_at_kill"] = stats.get("chunks_intact_at_kill", 0) + len(already)
                stats["chunks_refetched_legitimately"] = stats.get("chunks_refetched_legitimately", 0) + len(E)
                break
            if viols:
                break
            nontriv.add(core.h8([sc["name"], k, j, k2]))
            core.cleanup_case(kd, False)
        if viols:
            keep = True
            v = viols[0]
            return core.verdict(cid, "violated", [v[0]], stats, detail=v[1] + " scenario=%s" % sc["name"], cdir=v[2], case=case)
        return core.verdict(cid, "held", stats=stats, nontrivial=nontriv,
                            sample={"scenario": sc["name"], "kill_points": case["points"][:6], "limit": sc["limit"], "style": sc["style"], "frag": sc["frag"],
                                    "target_writes_in_scenario": case["nwrites"]})
    finally:
        core.cleanup_case(cdir, keep)


class C11(core.Check):
    prop = "C11"
    level = "fault_enumeration"
    flavours = ["asan", "plain"]
    rule = ("scenarios (A or none, B, initial target absent/partial, limit, single/multipart, fragmentation incl. 1 byte per callback so that kills land inside "
            "part headers' carry-over and mid-chunk); a fault-free run counts the target write(2) calls N; kill points = EVERY k in 1..N x j in {0,1,half,len-1} bytes "
            "transferred (exhaustive per scenario for scenarios up to the size cap, sampled above), plus sampled double kills (resume killed again). "
            "distinct = (scenario, k, j, second kill)")
    assumptions = ["interruption modelled at write(2) granularity (partial transfer + _exit); no reordering below the system call",
                   "expected fetch set computed from the snapshot by the reference parser + hashlib"]
    worker = staticmethod(worker)

    def prepare(self, fl):
        import rangesrv
        self.pre_viol = []
        self.srv = rangesrv.Server(self.work)
        so = os.path.join(fl["plain"].dir, "preload_io.so")
        build._run(["gcc", "-O1", "-g", "-shared", "-fPIC", "-o", so, os.path.join(core.VERIF, "harness", "preload_io.c"), "-ldl"], what="preload_io.so")
        return {"zh": build.zh(fl["asan"]), "zckdl": fl["plain"].tool("zckdl"), "preload": so, "www": self.srv.www, "httplog": self.srv.log, "port": self.srv.port}

    def post(self, verdicts, ctx):
        self.srv.stop()
        return list(self.pre_viol)

    pre_viol = []

    def probe_real(self, ctx, sc, B, A, T0, si):
        """Fault-free run of the real zckdl under the shim: how many write(2) calls reach the target?"""
        d = os.path.join(self.work, "rprobe%d" % si)
        os.makedirs(d, exist_ok=True)
        w = os.path.join(ctx["www"], "rprobe%d" % si)
        os.makedirs(w, exist_ok=True)
        open(os.path.join(w, "tgt.zck"), "wb").write(B)
        argv = [ctx["zckdl"]]
        if A:
            open(os.path.join(d, "A.zck"), "wb").write(A)
            argv += ["-s", "A.zck"]
        if T0 is not None:
            open(os.path.join(d, "tgt.zck"), "wb").write(T0)
        env = {"PATH": os.environ.get("PATH", "/usr/bin:/bin"), "LC_ALL": "C", "TMPDIR": d, "no_proxy": "*", "NO_PROXY": "*", "LD_PRELOAD": ctx["preload"],
               "ZCKV_CLASSES": "target=tgt.zck", "ZCKV_LOG": os.path.join(d, "pl.log")}
        r = core.run_proc(argv + ["http://127.0.0.1:%d/~maxr=%d/rprobe%d/tgt.zck" % (ctx["port"], sc["maxr"], si)], d, env=env, cpu=60)
        n = 0
        for e in core.parse_log(os.path.join(d, "pl.log")):
            if e.get("ev") == "iocount" and e["cls"] == "target" and e["sys"] == "write":
                n = e["n"]
        if r.rc != 0 and n > 0:
            # the real tool, not interrupted at all, does not complete the update from this starting state (absent target, or the
            # partial target an earlier interruption would have left): that is the property failing, not the harness
            self.pre_viol.append(core.verdict("rprobe%d" % si, "violated", ["c11:real:uninterrupted-update-failed:exit%s:%s" % (r.rc, "partial-target" if T0 is not None else "fresh-target")],
                                              {"evaluations": 1}, detail="zckdl (no fault injected) exit %s on scenario %s: %r" % (r.rc, sc.get("name"), r.stderr[-300:]), cdir=d,
                                              case={"real_probe": True, "sc": {k_: v_ for k_, v_ in sc.items() if k_ not in ("A", "B", "T0")}}))
            return 0
        if r.rc != 0 or n == 0:
            raise RuntimeError("fault-free real zckdl run failed: rc=%s writes=%d %r" % (r.rc, n, r.stderr[-200:]))
        return n

    def cases(self, ctx):
        r = core.rng(self.seed, "C11", "gen")
        out = []
        nsc = 4 if self.quick else 60
        cap = 330 if self.quick else 420
        self.exhaustive = True
        for si in range(nsc + (1 if self.quick else 6)):
            comp = r.choice([0, 2])
            nch = r.choice([3, 5, 8])
            pieces = [gen.content(r.choice(["random", "text", "zeros"]), r.randrange(2, 60), r.random()) for _ in range(nch)]
            dup = None
            if si % 4 in (0, 3) or (not self.quick and r.random() < 0.25):
                # the new version lists the same chunk more than once (same checksum and sizes at several places of the index): each
                # occurrence is a chunk of its own to write, and an interruption can fall between two of them
                i_, j_ = sorted(r.sample(range(nch - 1), 2))
                pieces[j_] = pieces[i_]
                if nch >= 5:
                    k_ = r.choice([x for x in range(nch - 1) if x not in (i_, j_)])
                    pieces[k_] = pieces[i_]
                dup = pieces[i_]
                self.count("scenarios_with_repeated_chunks", 1)
            big = si >= nsc
            if big:
                dup = None
            if big:
                # chunks larger than the library's 32 KiB scan / copy block: a cut can leave several full blocks of a partial chunk on disk
                comp = 0 if si % 2 == 0 else 2
                pieces = [gen.content("random", r.choice([40000, 70000, 100000]), r.random()) for _ in range(3)]
                if comp == 0:
                    # stored bytes that are all zero (blocks of a disk image) and stored bytes that begin with 32 KiB of zeros
                    pieces[1] = bytes(r.choice([33000, 70000]))
                    pieces.append(bytes(32768) + gen.content("random", 9000, r.random()))
            db = r.randbytes(r.choice([0, 0, 12]))
            B = zckref.make_file(pieces, comp_type=comp, dict_bytes=db, chunk_hash_type=r.randrange(4), hash_type=r.randrange(4))
            pB = zckref.parse(B)
            A = None
            if si % 2 == 0:
                ap = [p for p in pieces if r.random() < 0.4] + [r.randbytes(20)]
                if dup is not None:
                    # the old version has the tail of the new one but not the repeated chunk: the local copy extends the target to its
                    # full length first, the repeated chunk's occurrences are then fetched one after the other into the holes
                    ap = [p for p in pieces if p != dup and r.random() < 0.4] + [pieces[-1], r.randbytes(20)]
                A = zckref.make_file(ap, comp_type=comp, dict_bytes=db, chunk_hash_type=pB.chunk_hash_type)
            A2 = None
            if si % 4 == 2:
                # interleaved: the first source has every second chunk, the source given to the restart has the others (in file order)
                A = zckref.make_file(pieces[1::2] + [r.randbytes(20)], comp_type=comp, dict_bytes=db, chunk_hash_type=pB.chunk_hash_type)
                A2 = zckref.make_file(pieces[0::2] + [r.randbytes(25)], comp_type=comp, dict_bytes=db, chunk_hash_type=pB.chunk_hash_type)
            elif si % 4 in (0, 1):
                ap2 = [p for p in pieces if r.random() < 0.6] + [r.randbytes(25)]
                A2 = zckref.make_file(ap2, comp_type=comp, dict_bytes=db, chunk_hash_type=pB.chunk_hash_type)
            T0 = None
            if si % 3 == 1:
                d = bytearray(B)
                for c in pB.chunks:
                    if c["comp_len"] and r.random() < 0.5:
                        a = pB.header_len + c["start"]
                        d[a:a + c["comp_len"]] = r.randbytes(c["comp_len"])
                T0 = bytes(d)[: r.randrange(pB.header_len, len(B) + 1)]
            sc = {"name": "s%d" % si, "A": core.b64(A) if A else None, "A2": core.b64(A2) if A2 else None, "B": core.b64(B), "T0": core.b64(T0) if T0 is not None else None,
                  "limit": r.choice([1, 2, 3, -1, 255]), "style": r.choice([0, 1, 4, 32, 36]), "boundary": r.choice(["zckverifBOUNDARY", "a+b(c)"]),
                  "frag": ["n:1", "n:3", "all", "rand:%d:20" % r.randrange(1 << 20)][si % 4] if not big else r.choice(["n:16384", "n:5000"])}
            if "(" in sc["boundary"]:
                sc["style"] |= 1
            # fault-free run: count target writes
            pd = os.path.join(self.work, "probe%d" % si)
            files = {"B.zck": B}
            if A:
                files["A.zck"] = A
            if T0 is not None:
                files["tgt.zck"] = T0
            pr = core.run_zh(ctx["zh"], pd, script(sc), files, cpu=60, name="probe")
            up = pr.first(op="update")
            n = 0
            for e in pr.ev(ev="iocount"):
                if e["cls"] == "target" and e["sys"] == "write":
                    n = e["n"]
            if not up or up["rc"] != 1 or n == 0:
                cs = core.crash_signatures(pr)
                if not up and not cs:
                    raise RuntimeError("fault-free scenario %d could not be run: %s" % (si, pr.harness_error))
                # the uninterrupted procedure itself fails on this (possibly partial) initial target: that already refutes
                # "restarting on a partially written target converges" - reported through the normal violation path
                out.append({"sc": sc, "points": [], "zh": ctx["zh"], "nwrites": n, "probe_failed": {"update": up, "crash": cs}})
                continue
            ks = list(range(1, n + 1))
            if n > cap:
                self.exhaustive = False
                ks = sorted(r.sample(ks, cap))
            pts = []
            for k in ks:
                for j in JS:
                    pts.append((k, j, 0))
            # double kills (sampled)
            for _ in range(10 if self.quick else 60):
                pts.append((r.randrange(1, n + 1), -1, r.randrange(1, n + 1)))
            self.count("kill_points_enumerated", len(pts))
            self.count("scenarios", 1)
            self.count("target_writes_total", n)
            for i in range(0, len(pts), 24):
                out.append({"sc": sc, "points": pts[i:i + 24], "zh": ctx["zh"], "nwrites": n})
            # the real zckdl on the same files: kill points at every target write it makes (its writes are fewer and larger)
            if si < (2 if self.quick else 20):
                rsc = dict(sc, maxr=r.choice([1, 2, 7, 256]))
                nreal = self.probe_real(ctx, rsc, B, A, T0, si)
                if not nreal:
                    continue
                rpts = [(k, j) for k in range(1, nreal + 1) for j in (0, 1, -1, -2)]
                self.count("real_zckdl_target_writes", nreal)
                self.count("real_zckdl_kill_points_enumerated", len(rpts))
                for i in range(0, len(rpts), 16):
                    out.append({"real": True, "sc": rsc, "points": rpts[i:i + 16], "zckdl": ctx["zckdl"], "preload": ctx["preload"], "www": ctx["www"],
                                "httplog": ctx["httplog"], "port": ctx["port"]})
        # larger files for the real tool only: many chunks, multi-KB bodies (curl delivers them in several callbacks)
        for bi in range(2 if self.quick else 12):
            comp = r.choice([0, 2])
            pieces = [gen.content(r.choice(["random", "text"]), r.randrange(200, 30000), r.random()) for _ in range(r.choice([12, 30]))]
            B = zckref.make_file(pieces, comp_type=comp, chunk_hash_type=r.randrange(4), hash_type=r.randrange(4))
            pB = zckref.parse(B)
            A = zckref.make_file([p_ for p_ in pieces if r.random() < 0.3] + [b"zz" * 100], comp_type=comp, chunk_hash_type=pB.chunk_hash_type) if bi % 2 else None
            d = bytearray(B)
            for c in pB.chunks:
                if c["comp_len"] and r.random() < 0.6:
                    a = pB.header_len + c["start"]
                    d[a:a + c["comp_len"]] = bytes(c["comp_len"])
            T0 = bytes(d) if bi % 3 else None
            rsc = {"name": "rbig%d" % bi, "A": core.b64(A) if A else None, "B": core.b64(B), "T0": core.b64(T0) if T0 is not None else None, "maxr": r.choice([1, 3, 256])}
            nreal = self.probe_real(ctx, rsc, B, A, T0, 1000 + bi)
            if not nreal:
                continue
            ks = list(range(1, nreal + 1))
            if len(ks) > 60:
                ks = sorted(r.sample(ks, 60))
                self.exhaustive = False
            rpts = [(k, j) for k in ks for j in (0, -1, -2)]
            self.count("real_zckdl_target_writes", nreal)
            self.count("real_zckdl_kill_points_enumerated", len(rpts))
            for i in range(0, len(rpts), 12):
                out.append({"real": True, "sc": rsc, "points": rpts[i:i + 12], "zckdl": ctx["zckdl"], "preload": ctx["preload"], "www": ctx["www"],
                            "httplog": ctx["httplog"], "port": ctx["port"]})
        return out
