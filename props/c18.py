"""C18 - checksum back ends are interchangeable across builds.
Differential execution of the two real builds (OpenSSL and bundled SHA code,
both under ASan+UBSan) with Python hashlib as independent third party:
digests for every message length 0..520 x 4 types x segmentations {whole,
one byte per update, split at every position (lengths <= 130), fixed piece
sizes around the block sizes, random}, random long messages, and cross-build
files: the same input and options written by either build must be
byte-identical, and a file written by one build must validate and read back
identically under the other."""
import hashlib
import os
import sys

sys.path.insert(0, os.path.join(os.path.dirname(os.path.abspath(__file__)), "..", "lib"))
import build
import core
import gen
import zckref

MSG_LEN = 1 << 20


def expected(t, m):
    return zckref.H(t, m).hex()


def expected_numbered(t, msg, ln):
    """as expected_long, but every block of len(msg) bytes starts with its 8-byte little-endian block number (mode H)"""
    h = zckref.hnew(t)
    pos = 0
    j = 0
    while pos < ln:
        n = min(len(msg), ln - pos)
        if n >= 8:
            h.update(j.to_bytes(8, "little"))
            h.update(msg[8:n])
        else:
            h.update(msg[:n])
        pos += n
        j += 1
    return h.digest()[:zckref.DIGEST_SIZE[t]].hex()


def expected_long(t, msg, ln):
    """digest of msg repeated cyclically up to ln bytes (hashlib, streamed)"""
    h = zckref.hnew(t)
    full, rest = divmod(ln, len(msg))
    big = msg * 64
    while full >= 64:
        h.update(big)
        full -= 64
    for _ in range(full):
        h.update(msg)
    h.update(msg[:rest])
    return h.digest()[:zckref.DIGEST_SIZE[t]].hex()


def hash_worker(case):
    cdir = case["dir"]
    os.makedirs(cdir, exist_ok=True)
    keep = False
    cid = core.h8(["hash", case["batch"]])
    stats = {"evaluations": 0}
    try:
        msg = core.rng(case["seed"], "C18", "msg").randbytes(MSG_LEN)
        open(os.path.join(cdir, "msg.bin"), "wb").write(msg)
        lines = case["lines"]
        open(os.path.join(cdir, "cases"), "w").write("\n".join("%d %d %d %s %d" % tuple(l) for l in lines) + "\n")
        outs = {}
        runs = list(case["bins"].items())
        if case.get("noise"):
            # the same digests in a process whose application part has left an (already handled) error on OpenSSL's error queue and a
            # non-zero errno behind before every operation
            runs += [(n_ + "+app-noise", b_) for n_, b_ in case["bins"].items()]
        for name, binp in runs:
            env_ = None
            if name.endswith("+app-noise"):
                env_ = core.san_env(cdir)
                env_["ZCKV_APP_NOISE"] = "1"
            r = core.run_proc([binp, "msg.bin", "cases", "out." + name], cdir, env=env_, cpu=case.get("cpu", 300), wall=case.get("cpu", 300) * 6)
            if r.timed_out and not r.cpu_exceeded:
                return core.verdict(cid, "inconclusive", detail="watchdog", case=case)
            cs = core.crash_signatures(r, where="hash:" + name)
            if cs:
                keep = True
                return core.verdict(cid, "violated", [cs[0]], stats, detail="%s build: %s" % (name, cs), cdir=cdir, case=case)
            try:
                o = open(os.path.join(cdir, "out." + name)).read().split("\n")
            except FileNotFoundError:
                o = []
            if "END" not in o:
                return core.verdict(cid, "inconclusive", detail="h_hash (%s) did not finish rc=%s %r" % (name, r.rc, r.stderr[-200:]), case=case)
            outs[name] = o
            if name == "openssl+app-noise":
                nz = [x for x in o if x.startswith("NOISE ")]
                stats["digest_runs_with_dirty_openssl_error_queue"] = 1
                if not nz or int(nz[0].split()[1]) == 0:
                    return core.verdict(cid, "inconclusive", detail="application noise requested but no OpenSSL error could be queued", case=case)
        viol = None
        nontriv = set()
        for i, l in enumerate(lines):
            t, off, ln, mode, param = l
            want = expected_numbered(t, msg, ln) if mode == "H" else (expected_long(t, msg, ln) if mode == "G" else expected(t, msg[off:off + ln]))
            got = {n: outs[n][i].split()[0] for n in outs}
            if mode == "H":
                stats["single_update_calls_over_256MiB"] = stats.get("single_update_calls_over_256MiB", 0) + 1
            if mode == "G":
                stats["long_messages(>=2^29 bytes)"] = stats.get("long_messages(>=2^29 bytes)", 0) + 1
            stats["evaluations"] += len(outs)
            stats["digests_type%d" % t] = stats.get("digests_type%d" % t, 0) + 1
            nontriv.add(core.h8(l))
            bad = [n for n in got if got[n] != want]
            if bad:
                which = "both-differ-from-standard" if len(bad) == len(got) and len(set(got.values())) == 1 else "+".join(sorted(bad))
                viol = ("c18:digest:%s:type%d:%s" % (which, t, mode), "type %d len %d mode %s param %d: %s, hashlib %s" % (t, ln, mode, param, got, want))
                break
        if viol:
            keep = True
            return core.verdict(cid, "violated", [viol[0]], stats, detail=viol[1], cdir=cdir, case=case)
        l = lines[len(lines) // 2]
        return core.verdict(cid, "held", stats=stats, nontrivial=nontriv, sample={"type": l[0], "len": l[2], "mode": l[3], "param": l[4],
                                                                                   "digest": (expected_numbered(l[0], msg, l[2]) if l[3] == "H" else expected_long(l[0], msg, l[2]) if l[3] == "G" else expected(l[0], msg[l[1]:l[1] + l[2]]))[:32]})
    finally:
        core.cleanup_case(cdir, keep)


def file_worker(case):
    cdir = case["dir"]
    keep = False
    cid = core.h8(["file", case["cfg"], case["kind"], case["size"], case["seg"], case.get("noise")])
    stats = {"evaluations": 1, "cross_build_files": 1}
    try:
        D = gen.content(case["kind"], case["size"], case["cseed"])
        files = {"in.dat": D}
        cfg = dict(case["cfg"])
        if cfg.get("dict"):
            files["dict.bin"] = gen.content("license", 700, 9)
        outs = {}
        for name, zh in case["zhs"].items():
            d = os.path.join(cdir, name)
            w = core.run_zh(zh, d, gen.writer_script(cfg, seg=case["seg"]), files, name="w", env_extra={"ZCKV_APP_NOISE": "1"} if case.get("noise") else None)
            if case.get("noise"):
                stats["files_written_and_read_with_dirty_openssl_error_queue"] = 1
            if w.timed_out and not w.cpu_exceeded:
                return core.verdict(cid, "inconclusive", detail="watchdog", case=case)
            cs = core.crash_signatures(w)
            if cs:
                keep = True
                return core.verdict(cid, "violated", [cs[0]], stats, detail="writer (%s build): %s" % (name, cs), cdir=cdir, case=case)
            cl = w.first(op="close")
            outs[name] = open(os.path.join(d, "out.zck"), "rb").read() if cl and cl["rc"] == 1 else None
        names = sorted(outs)
        viol = None
        if (outs[names[0]] is None) != (outs[names[1]] is None):
            viol = ("c18:file:one-build-refuses", "%s" % {n: outs[n] is not None for n in names})
        elif outs[names[0]] is None:
            return core.verdict(cid, "unsupported", stats=stats)
        elif outs[names[0]] != outs[names[1]]:
            a, b = outs[names[0]], outs[names[1]]
            d0 = next((i for i in range(min(len(a), len(b))) if a[i] != b[i]), min(len(a), len(b)))
            viol = ("c18:file:outputs-differ", "files differ at offset %d (lengths %d / %d)" % (d0, len(a), len(b)))
        else:
            # cross read: file of build X under build Y
            for wn in names:
                for rn in names:
                    if wn == rn:
                        continue
                    d = os.path.join(cdir, "x_%s_%s" % (wn, rn))
                    rd = core.run_zh(case["zhs"][rn], d, gen.reader_script("f.zck", pre=("vc",), sizes=case["sizes"]), {"f.zck": outs[wn]}, name="r",
                                     env_extra={"ZCKV_APP_NOISE": "1"} if case.get("noise") else None)
                    cs = core.crash_signatures(rd)
                    if cs:
                        viol = (cs[0], "reader (%s build) on %s-written file: %s" % (rn, wn, cs))
                        break
                    vc = rd.first(op="vc")
                    cl = rd.first(op="close")
                    if not vc or vc["rc"] != 1:
                        viol = ("c18:file:does-not-validate-under-other-build", "written by %s, validated by %s: rc=%s" % (wn, rn, vc and vc["rc"]))
                    elif rd.out != D or not cl or cl["rc"] != 1:
                        viol = ("c18:file:reads-differently-under-other-build", "written by %s, read by %s: %d bytes of %d, close=%s" % (wn, rn, len(rd.out), len(D), cl and cl["rc"]))
                    if viol:
                        break
                if viol:
                    break
        if viol:
            keep = True
            return core.verdict(cid, "violated", [viol[0]], stats, detail=viol[1] + " cfg=%s" % cfg, cdir=cdir, case=case)
        return core.verdict(cid, "held", stats=stats, nontrivial=True, sample={"cross_build_file": True, "cfg": cfg, "content": case["kind"], "size": case["size"],
                                                                            "sha256_of_file": hashlib.sha256(outs[names[0]]).hexdigest()[:16]})
    finally:
        core.cleanup_case(cdir, keep)


def worker(case):
    return hash_worker(case) if case["w"] == "hash" else file_worker(case)


class C18(core.Check):
    prop = "C18"
    flavours = ["asan", "bundled-asan"]
    rule = ("digests: 4 types x every message length 0..520 x {whole, one byte per update, pieces of 55/56/63/64/65/111/112/119/120/127/128/129 bytes, split at every "
            "position for lengths <= 130, random pieces}; random messages up to 1 MiB with random segmentation; long generated messages of 2^29+-k bytes (thorough: all four types, "
            "and 2^32+3 bytes) where 32-bit bit/byte counters wrap; each computed by the OpenSSL build and by the "
            "bundled build (both ASan+UBSan) and compared with hashlib (SHA-512/128 = first 16 bytes of SHA-512); cross-build files: writer cases whose outputs "
            "must be byte-identical and validate/read back under the other build; a third of the digest batches and of the files additionally in a process whose application part "
            "leaves an (already handled) error on OpenSSL's error queue and a non-zero errno behind before every operation. distinct = (type, offset, length, segmentation)")
    assumptions = ["third party: Python hashlib", "both flavours built from the same tree, differing only in -Dwith-openssl"]
    worker = staticmethod(worker)

    def prepare(self, fl):
        if "-DZCHUNK_OPENSSL" not in fl["asan"].defs or "-DZCHUNK_OPENSSL" in fl["bundled-asan"].defs:
            raise build.BuildError("flavours do not differ in the checksum back end: %s / %s" % (fl["asan"].defs, fl["bundled-asan"].defs))
        return {"bins": {"openssl": fl["asan"].harness("h_hash", ["h_hash.c"]), "bundled": fl["bundled-asan"].harness("h_hash", ["h_hash.c"])},
                "zhs": {"openssl": build.zh(fl["asan"]), "bundled": build.zh(fl["bundled-asan"])}}

    def cases(self, ctx):
        r = core.rng(self.seed, "C18", "gen")
        lines = []
        q = self.quick
        for t in range(4):
            for ln in range(0, 521):
                off = r.randrange(0, 4096)
                lines.append([t, off, ln, "W", 0])
                lines.append([t, off, ln, "B", 0])
                for k in [55, 56, 63, 64, 65, 111, 112, 119, 120, 127, 128, 129]:
                    if k < ln:
                        lines.append([t, off, ln, "K", k])
                lines.append([t, off, ln, "R", r.randrange(1 << 30)])
                if ln <= 130:
                    for sp in range(1, ln):
                        lines.append([t, off, ln, "S", sp])
            for _ in range(40 if q else 600):
                ln = r.choice([521, 1000, 4095, 4096, 65535, 65536, 65537, 300000, MSG_LEN - 5000])
                ln = r.randrange(ln // 2, ln + 1)
                lines.append([t, r.randrange(0, MSG_LEN - ln), ln, r.choice(["W", "R", "R", "K"]), r.choice([1, 63, 64, 127, 128, 4096, 32768, 99999])])
        self.exhaustive = True
        self.count("digest_cases", len(lines))
        out = []
        r.shuffle(lines)
        per = max(500, len(lines) // 32)
        for i in range(0, len(lines), per):
            out.append({"w": "hash", "batch": i, "lines": lines[i:i + per], "bins": ctx["bins"], "seed": self.seed, "noise": (i // per) % 3 == 0})
        # long messages: the length counters of the back ends (bit length >= 2^32, byte length >= 2^32)
        longs = [(1, (1 << 29) + 77, 65536), (2, (1 << 29) + 5, 1 << 20)] if q else \
            [(t, ln, pc) for t in range(4) for ln, pc in (((1 << 29) - 1, 999983), (1 << 29, 65536), ((1 << 29) + 12345, 1 << 20), ((1 << 32) + 3, 1 << 20))]
        # one update call larger than 256 MiB (a chunk that size written or read through one buffer)
        for k, (t, ln) in enumerate([(2, (1 << 28) + (1 << 20) + 13)] if q else [(t_, (1 << 28) + 77 + t_) for t_ in range(4)] + [(3, (1 << 29) + 5)]):
            out.append({"w": "hash", "batch": "huge-update%d" % k, "lines": [[t, 0, ln, "H", 0]], "bins": ctx["bins"], "seed": self.seed, "cpu": 1200})
        for k, (t, ln, pc) in enumerate(longs):
            out.append({"w": "hash", "batch": "long%d" % k, "lines": [[t, 0, ln, "G", pc]], "bins": ctx["bins"], "seed": self.seed, "cpu": 1200})
        # cross-build files
        for i in range(100 if q else 3000):
            cfg = {"comp": r.choice([0, 2]), "level": r.choice([1, 3]), "chunk_hash": r.randrange(4), "full_hash": r.randrange(4), "manual": r.random() < 0.3,
                   "uncomp": False, "dict": "dict.bin" if r.random() < 0.3 else None}
            if r.random() < 0.25:
                cfg["uncomp"] = True
                cfg["chunk_hash"] = r.choice([1, 2])
            seg = [r.choice([1000, 4096, 70000])] + (["e"] if cfg["manual"] else [])
            size_ = r.choice([0, 1, 5000, 150000, 400000])
            if i % 4 == 2:
                # a checksum option set once more in the middle of the first chunk (accepted or refused - but alike under both builds)
                size_ = r.choice([5000, 150000])
                cfg["late"] = {"first": r.choice([1, 150, 4000]), "n": size_, "opts": [r.choice([(gen.HASH_CHUNK_TYPE, r.randrange(4)), (gen.HASH_FULL_TYPE, r.randrange(4)),
                                                                                                 (gen.UNCOMP_HEADER, 1), (gen.HASH_CHUNK_TYPE, 0)])]}
            out.append({"w": "file", "cfg": cfg, "kind": r.choice(["text", "random", "license", "mixed"]), "size": size_, "cseed": i,
                        "seg": seg, "sizes": [r.choice([1000, 4096, 100000])], "zhs": ctx["zhs"], "noise": i % 3 == 1})
        return out
