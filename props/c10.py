"""C10 - missing-range requests cover exactly the missing chunks.
Monitor: validity vectors are established through the public API (on-disk
chunk bytes right/wrong + zck_find_valid_chunks + zck_reset_failed_chunks);
zck_get_missing_range(limit) / zck_get_range_char / zck_get_range_count and
the range index are logged by the harness and judged offline by a set
computation over the reference parser's chunk table.  ASan/UBSan watch the
string builder."""
import itertools
import os
import re
import sys

sys.path.insert(0, os.path.join(os.path.dirname(os.path.abspath(__file__)), "..", "lib"))
import build
import core
import zckref

LIMITS = [-1, 0, 1, 2, 3, 7, 127, 255]
RANGE_RE = re.compile(r"^\d+-\d+(,\d+-\d+)*$")
BUF = 32768


def make_base(r, sizes, dict_size=0, chunk_hash=3, tail=0, zero_digest=True):
    pieces = [r.randbytes(s) for s in sizes]
    d = zckref.make_file(pieces, dict_bytes=r.randbytes(dict_size) if dict_size else b"", chunk_hash_type=chunk_hash, header_tail=bytes(tail))
    if 0 in sizes and zero_digest:
        # the library's convention for a chunk without bytes is an all-zero checksum (as for the empty dictionary): write it that way,
        # so that the scan marks such a chunk valid
        import basefiles
        p = zckref.parse(d)
        ch = [(c["digest"] if c["comp_len"] else bytes(len(c["digest"])), c["udigest"], c["comp_len"], c["len"]) for c in p.chunks]
        d = basefiles.rebuild(p, d, chunks=ch, data_digest=p.data_digest)
    return d


def apply_vector(data, p, vec, r, truncate=False):
    """vec[k]==1: chunk k keeps its bytes; 0: bytes made wrong.  Chunk 0 is the dictionary."""
    d = bytearray(data)
    last_ok = 0
    for c, v in zip(p.chunks, vec):
        a = p.header_len + c["start"]
        e = a + c["comp_len"]
        if v:
            last_ok = max(last_ok, e)
        elif e > a:
            d[a] ^= 0x5A
            d[e - 1] ^= 0xA5 if e - 1 > a else 0
    if truncate:
        d = d[:max(last_ok, p.header_len)]
    return bytes(d)


def judge(p, flags, limit, ev, tag):
    """Returns (signature, detail) or None."""
    missing = [c for c, f in zip(p.chunks, flags) if f == 0]
    s = ev.get("str", "")
    if ev.get("rc") != 1:
        return ("c10:no-range-object:%s" % tag, "zck_get_missing_range returned NULL (limit %d)" % limit)
    if ev.get("strnull"):
        return ("c10:range-string-null:%s" % tag, "zck_get_range_char returned NULL")
    ranges = []
    if s == "":
        if missing and any(c["comp_len"] for c in missing):
            return ("c10:empty-request-while-missing:%s" % tag, "empty range string but %d chunks missing (limit %d)" % (len(missing), limit))
    else:
        if not RANGE_RE.match(s):
            return ("c10:malformed-range-string:%s" % tag, "range string %r (limit %d)" % (s[:120], limit))
        for piece in s.split(","):
            a, b = piece.split("-")
            ranges.append((int(a), int(b)))
    for a, b in ranges:
        if a > b:
            return ("c10:inverted-range:%s" % tag, "range %d-%d in %r" % (a, b, s[:120]))
    for (a1, b1), (a2, b2) in zip(ranges, ranges[1:]):
        if a2 <= b1:
            return ("c10:ranges-not-ascending-or-overlap:%s" % tag, "%d-%d then %d-%d" % (a1, b1, a2, b2))
        if a2 == b1 + 1:
            return ("c10:adjacent-ranges-not-merged:%s" % tag, "%d-%d then %d-%d" % (a1, b1, a2, b2))
    if limit >= 0 and len(ranges) > max(limit, 1):
        return ("c10:too-many-ranges:%s" % tag, "%d ranges, limit %d" % (len(ranges), limit))
    if ev.get("count") != len(ranges):
        return ("c10:count-differs-from-rendered:%s" % tag, "zck_get_range_count=%s but %d ranges rendered: %r" % (ev.get("count"), len(ranges), s[:120]))
    # union == extents of a prefix of the missing chunks
    got = set()
    total = sum(b - a + 1 for a, b in ranges)
    ext = lambda c: (p.header_len + c["start"], p.header_len + c["start"] + c["comp_len"] - 1)
    # compare as interval lists (merge extents of prefix j)
    def merged(chs):
        out = []
        for c in chs:
            if c["comp_len"] == 0:
                continue
            a, b = ext(c)
            if out and a <= out[-1][1] + 1:
                out[-1] = (out[-1][0], max(out[-1][1], b))
            else:
                out.append((a, b))
        return out
    j_ok = None
    acc = 0
    for j in range(0, len(missing) + 1):
        if j:
            acc += missing[j - 1]["comp_len"]
        if acc == total and merged(missing[:j]) == ranges:
            j_ok = j
            if j == len(missing) or missing[j]["comp_len"] != 0:
                break
        if acc > total:
            break
    if j_ok is None:
        # classify
        hdr = [r_ for r_ in ranges if r_[0] < p.header_len]
        if hdr:
            return ("c10:header-bytes-requested:%s" % tag, "range %s below header end %d" % (hdr[0], p.header_len))
        valid_ext = [ext(c) for c, f in zip(p.chunks, flags) if f != 0 and c["comp_len"]]
        for a, b in ranges:
            for va, vb in valid_ext:
                if a <= vb and va <= b:
                    return ("c10:valid-chunk-bytes-requested:%s" % tag, "range %d-%d overlaps valid chunk extent %d-%d" % (a, b, va, vb))
        return ("c10:not-a-prefix-of-missing:%s" % tag, "ranges %r are not the merged extents of any prefix of the %d missing chunks (limit %d)" % (ranges[:6], len(missing), limit))
    if missing and j_ok == 0 and any(c["comp_len"] for c in missing):
        return ("c10:empty-request-while-missing:%s" % tag, "nothing requested, %d missing" % len(missing))
    if limit == -1 and merged(missing) != ranges:
        return ("c10:unlimited-not-everything:%s" % tag, "limit -1 covers %d of %d missing chunks" % (j_ok, len(missing)))
    # range index: covered chunks in request order with stored sizes
    idx = ev.get("index", [])
    want = [(c["number"], c["comp_len"]) for c in missing[:j_ok] if c["comp_len"]]
    gotidx = [(e[0], e[2]) for e in idx if e[2]]
    if gotidx != want:
        return ("c10:range-index-differs:%s" % tag, "range index %r, expected %r" % (gotidx[:8], want[:8]))
    pos = 0
    for e in idx:
        if e[1] != pos:
            return ("c10:range-index-offset:%s" % tag, "index entry %r at payload offset %d, expected %d" % (e, e[1], pos))
        pos += e[2]
    return None


def seq_worker(case):
    """Several markings in a row on ONE context: the file content is replaced behind the library's back, the scan repeated,
    and a new request computed - every request is judged against the marking in force when it was made."""
    cdir = case["dir"]
    keep = False
    data = core.unb64(case["data"])
    p = zckref.parse(data)
    r = core.rng(case["seed"], "C10", case["name"])
    cid = core.h8([case["name"], "seq", case["vectors"], case["limits"]])
    stats = {"evaluations": 0, "multi_step_sequences": 1}
    try:
        files = {}
        L = []
        lims = []
        if case.get("match_src"):
            # header-only target and source: the marking comes from zck_find_matching_chunks (index only), so the file can describe
            # gigabytes without holding them
            files["t.zck"] = data[:p.header_len]
            files["src.zck"] = core.unb64(case["match_src"])
            L += ["fopen 1 t.zck r target", "create 1", "init_read 1 1", "fopen 3 src.zck r source", "create 3", "init_read 3 3", "match 3 1", "flags 1"]
            for lim in case["limits"][0]:
                L += ["range 2 1 %d" % lim, "range_free 2"]
                lims.append(lim)
        for vi, vec in enumerate(case["vectors"] if not case.get("match_src") else []):
            files["s%d.bin" % vi] = apply_vector(data, p, vec, r)
            if vi == 0:
                files["t.zck"] = files["s0.bin"]
                L += ["fopen 1 t.zck rw target", "create 1", "init_read 1 1"]
            else:
                L += ["fput 1 s%d.bin" % vi]
            if vi == 0 and case.get("late_hint") is not None:
                # a header-length expectation set AFTER the header was read is checked against nothing; it must not move the requests either
                L += ["iopt 1 3 %d" % case["late_hint"], "clear_error 1"]
            L += ["fv 1", "reset_failed 1", "flags 1"]
            for lim in case["limits"][vi]:
                L += ["range 2 1 %d" % lim, "range_free 2"]
                lims.append(lim)
            if vi == 0 and case.get("copy_src"):
                # local reuse in between: some chunks become valid, some fail (damaged in the source) and are reset to missing, some stay missing
                files["src.zck"] = core.unb64(case["copy_src"])
                L += ["fopen 3 src.zck r source", "create 3", "init_read 3 3", "copy 3 1", "flags 1", "reset_failed 1", "flags 1"]
                for lim in case["limits"][vi]:
                    L += ["range 2 1 %d" % lim, "range_free 2"]
                    lims.append(lim)
        rd = core.run_zh(case["zh"], cdir, "\n".join(L) + "\n", files, name="seq")
        if rd.timed_out and not rd.cpu_exceeded:
            return core.verdict(cid, "inconclusive", detail="watchdog", case=case)
        cs = core.crash_signatures(rd)
        viol = None
        flags = None
        li = 0
        step = -1
        for e in rd.events:
            if e.get("op") == "flags":
                flags = e["valid"]
                step += 1
            elif e.get("op") == "range" and flags is not None:
                stats["evaluations"] += 1
                v = judge(p, flags, lims[li], e, case.get("tag", "multi-step"))
                li += 1
                if v and not viol:
                    viol = (v[0], v[1] + " (step %d of the sequence, markings so far %s)" % (step, case["vectors"][:step + 1]))
        if cs:
            viol = (cs[0], "sanitizer/crash in %s: %s" % (rd.open_call, cs))
        elif not rd.ended and not viol:
            return core.verdict(cid, "inconclusive", detail="harness did not finish: %s" % (rd.harness_error,), case=case)
        if viol:
            keep = True
            return core.verdict(cid, "violated", [viol[0]], stats, detail=viol[1] + " base=%s" % case["name"], cdir=cdir, case=case)
        return core.verdict(cid, "held", stats=stats, nontrivial=[cid], sample={"base": case["name"], "sequence_of_markings": case["vectors"], "limits": case["limits"]})
    finally:
        core.cleanup_case(cdir, keep)


def worker(case):
    if case.get("seq"):
        return seq_worker(case)
    cdir = case["dir"]
    keep = False
    data = core.unb64(case["data"])
    p = zckref.parse(data)
    r = core.rng(case["seed"], "C10", case["name"])
    cid = core.h8([case["name"], case["vectors"], case["limits"]])
    stats = {"evaluations": 0}
    try:
        files = {}
        L = []
        for vi, vec in enumerate(case["vectors"]):
            fn = "t%d.zck" % vi
            files[fn] = apply_vector(data, p, vec, r, truncate=case.get("truncate") and vi % 2 == 1)
            L += ["fopen 1 %s r target" % fn, "create 1", "init_read 1 1", "fv 1"]
            if not case.get("keep_failed"):
                L.append("reset_failed 1")
            L.append("flags 1")
            for lim in case["limits"]:
                L += ["range 2 1 %d" % lim, "range_free 2"]
            L += ["free 1", "fclose 1"]
        rd = core.run_zh(case["zh"], cdir, "\n".join(L) + "\n", files, name="rng")
        if rd.timed_out and not rd.cpu_exceeded:
            return core.verdict(cid, "inconclusive", detail="watchdog", case=case)
        tag = case["tag"]
        viol = None
        # walk the log: flags then ranges
        vi = -1
        flags = None
        li = 0
        nontriv = set()
        seen_empty = 0
        for e in rd.events:
            if e.get("op") == "init_read":
                vi += 1
                li = 0
                if e["rc"] != 1:
                    return core.verdict(cid, "inconclusive", detail="open failed on valid header", case=case)
            elif e.get("op") == "flags":
                flags = e["valid"]
                intended = case["vectors"][vi]
                if not case.get("keep_failed"):
                    for k, (f, v) in enumerate(zip(flags, intended)):
                        c = p.chunks[k]
                        trivially_valid = (k == 0 and c["len"] == 0)
                        if (f == 1) != bool(v) and not trivially_valid and c["comp_len"] > 0:
                            return core.verdict(cid, "inconclusive", detail="marking not established: chunk %d flag %d intended %d" % (k, f, v), case=case)
            elif e.get("op") == "range":
                lim = case["limits"][li]
                li += 1
                stats["evaluations"] += 1
                stats["range_strings_bytes"] = stats.get("range_strings_bytes", 0) + len(e.get("str", ""))
                if e.get("str", "") == "":
                    seen_empty += 1
                v = judge(p, flags, lim, e, tag)
                if v and not viol:
                    viol = (v[0], v[1] + " vector=%s" % "".join(str(x) for x in case["vectors"][vi][:64]))
                nontriv.add(core.h8([case["name"], case["vectors"][vi], lim]))
        cs = core.crash_signatures(rd)
        if cs:
            sig = cs[0]
            viol = (sig, "sanitizer/crash in %s: %s (vector #%d of batch)" % (rd.open_call, cs, vi))
        elif not rd.ended and not viol:
            return core.verdict(cid, "inconclusive", detail="harness did not finish: %s" % (rd.harness_error,), case=case)
        stats["empty_requests"] = seen_empty
        stats["max_str_len"] = [max([len(e.get("str", "")) for e in rd.events if e.get("op") == "range"] or [0])]
        if viol:
            keep = True
            return core.verdict(cid, "violated", [viol[0]], stats, detail=viol[1] + " base=%s" % case["name"], cdir=cdir, case=case)
        return core.verdict(cid, "held", stats=stats, nontrivial=nontriv,
                            sample={"base": case["name"], "chunks": len(p.chunks), "vector": case["vectors"][0][:40], "limits": case["limits"],
                                    "first_range_string": next((e.get("str", "")[:80] for e in rd.events if e.get("op") == "range"), None)})
    finally:
        core.cleanup_case(cdir, keep)


def piece_len(a, b):
    return len("%d-%d," % (a, b))


class C10(core.Check):
    prop = "C10"
    flavours = ["asan"]
    rule = ("indexes from the reference writer (n chunks of chosen stored sizes, with/without dictionary); validity vectors established on disk + "
            "zck_find_valid_chunks + zck_reset_failed_chunks: all 2^n vectors for the small indexes x limits {-1,0,1,2,3,7,127,255} (exhaustive), random and "
            "alternating vectors for indexes of up to ~5000 chunks whose rendered text crosses the 32 KiB buffer at swept alignments (incl. a piece that "
            "exactly fills the buffer); distinct = (index, vector, limit)")
    assumptions = ["chunk table and header length from the reference parser", "markings are the flags the library itself reports after the scan"]
    worker = staticmethod(worker)

    def prepare(self, fl):
        return {"zh": build.zh(fl["asan"])}

    def cases(self, ctx):
        r = core.rng(self.seed, "C10", "gen")
        out = []
        zh = ctx["zh"]

        def add(name, data, vectors, limits, tag, batch=48, **kw):
            for i in range(0, len(vectors), batch):
                out.append(dict(name=name, data=core.b64(data), vectors=vectors[i:i + batch], limits=limits, tag=tag, zh=zh, seed=self.seed, **kw))

        # --- exhaustive small indexes
        small = [("n5", [3, 1, 7, 2, 40], 0), ("n5d", [10, 10, 1, 1, 300], 25)]
        # empty chunks in the middle of the index (another writer may emit them; they occupy no bytes and verify trivially): the
        # missing chunks around them are still byte-adjacent and must come out as ONE range
        small.append(("n7z", [4, 0, 6, 0, 0, 3, 9], 0))
        small.append(("n7e", [5, 0, 0, 7, 2, 0, 3], 0))     # the same with the checksum of nothing instead of zeros
        small.append(("n8" if self.quick else "n11", [r.choice([1, 2, 5, 90]) for _ in range(8 if self.quick else 11)], r.choice([0, 17])))
        if not self.quick:
            small.append(("n13", [r.choice([1, 3, 9, 200]) for _ in range(13)], 0))
            # chunk starts / ends on exact powers of ten (digit-count edges of the rendered text): header padded with a dictionary
            small.append(("n10p", [9000, 90000, 1, 9, 90, 900, 9000 - 1, 2, 5, 890000], 300))
        # another writer's header: unused bytes behind the signatures (the data section begins after the DECLARED header size)
        small.append(("n6t", [3, 8, 1, 20, 5, 2], 0))
        small.append(("n5td", [7, 7, 1, 9, 30], 13))
        for name, sizes, ds in small:
            data = make_base(r, sizes, ds, zero_digest=(name != "n7e"), tail=(r.choice([1, 9, 300]) if name in ("n6t", "n5td") else 0))
            p = zckref.parse(data)
            if name == "n10p":
                # pad the header so that the first data chunk starts at offset 1000 exactly (then 10000, 100000 follow from the sizes)
                rr = core.rng(self.seed, "C10", "n10p")
                tail = 0
                for _ in range(4):
                    tail += 1000 - (p.header_len + p.chunks[1]["start"])
                    if tail < 0:
                        break
                    rr2 = core.rng(self.seed, "C10", "n10p")
                    data = make_base(rr2, sizes, ds, tail=tail)
                    p = zckref.parse(data)
                self.count("power_of_ten_layout_reached", int(p.header_len + p.chunks[1]["start"] == 1000))
            n = len(p.chunks)
            vecs = [list(v) for v in itertools.product([0, 1], repeat=n)]
            if ds == 0:  # empty dictionary is always valid: fix that bit to 1
                vecs = [v for v in vecs if v[0] == 1]
            allv = [v for v in vecs if all(v)]
            rest = [v for v in vecs if not all(v)]
            add(name, data, rest, LIMITS, "small")
            add(name, data, allv, LIMITS, "all-valid", batch=1)
            self.count("exhaustive_vectors", len(vecs))
            self.count("exhaustive_indexes", 1)
        self.exhaustive = True
        # truncated targets (absent chunks), a few
        data = make_base(r, [5, 6, 7, 8, 9, 10], 12)
        p = zckref.parse(data)
        vecs = [[r.choice([0, 1]) for _ in p.chunks] for _ in range(40)]
        add("trunc", data, vecs, LIMITS, "small", truncate=True)
        # --- several markings in a row on one context (chunks in front of earlier requests become missing again)
        for i in range(60 if self.quick else 1500):
            n = r.choice([6, 10, 25])
            data = make_base(r, [r.choice([1, 2, 5, 40]) for _ in range(n)], r.choice([0, 11]), tail=r.choice([0, 0, 0, 9]))
            p = zckref.parse(data)
            steps = r.choice([2, 3, 4])
            vecs = []
            for st in range(steps):
                pr = r.choice([0.2, 0.5, 0.8])
                v = [1 if r.random() < pr else 0 for _ in p.chunks]
                if st and r.random() < 0.6:
                    # make an early chunk missing that was valid before, keep a late one missing
                    prev = vecs[-1]
                    firstmiss = next((k for k, x in enumerate(prev) if not x), len(prev) - 1)
                    v = list(prev)
                    if firstmiss > 1:
                        v[r.randrange(1, firstmiss)] = 0
                    v[-1] = 0
                if p.chunks[0]["len"] == 0:
                    v[0] = 1
                vecs.append(v)
            extra = {}
            if i % 3 == 1:
                extra["late_hint"] = p.header_len + r.choice([-1, 1, 100, -p.header_len, 7])
            if i % 3 == 2:
                # a source that shares every other chunk with the target; one or two of the shared chunks damaged in the source
                pieces = [data[p.header_len + c["start"]:p.header_len + c["start"] + c["comp_len"]] for c in p.chunks[1:]]
                keepi = [k for k in range(len(pieces)) if k % 2 == 0 or r.random() < 0.3]
                dsz = p.chunks[0]["comp_len"]
                src = zckref.make_file([pieces[k] for k in keepi] + [b"only-in-source"], chunk_hash_type=p.chunk_hash_type,
                                       dict_bytes=data[p.header_len:p.header_len + dsz] if dsz else b"")
                ps = zckref.parse(src)
                sb = bytearray(src)
                for c in r.sample(ps.chunks[1:-1], min(len(ps.chunks) - 2, r.choice([1, 2]))):
                    if c["comp_len"]:
                        sb[ps.header_len + c["start"] + r.randrange(c["comp_len"])] ^= 0x21
                extra["copy_src"] = core.b64(bytes(sb))
                vecs[0] = [1 if (k == 0 and p.chunks[0]["len"] == 0) else 0 for k in range(len(p.chunks))]   # start from an empty target
            out.append(dict(name="seq%d" % i, data=core.b64(data), vectors=vecs, limits=[r.sample(LIMITS, 3) for _ in vecs], tag="multi-step", zh=zh, seed=self.seed, seq=True, **extra))
        # --- medium random
        for i in range(3 if self.quick else 20):
            n = r.choice([30, 100, 300])
            sizes = [r.choice([1, 1, 2, 3, 10, 100, 1000]) for _ in range(n)]
            data = make_base(r, sizes, r.choice([0, 9]))
            p = zckref.parse(data)
            vecs = []
            for _ in range(20 if self.quick else 60):
                pr = r.choice([0.05, 0.3, 0.5, 0.8, 0.97])
                v = [1 if r.random() < pr else 0 for _ in p.chunks]
                if p.chunks[0]["len"] == 0:
                    v[0] = 1
                vecs.append(v)
            add("m%d" % i, data, vecs, LIMITS, "medium", batch=10)
        # --- large: text crosses the 32 KiB buffer; sweep the alignment of the crossing piece.
        # Offsets jump from 6 to 7 digits behind one 900 KB chunk placed after j small chunks; pieces before it
        # render to 14 characters, after it to 16, and the big chunk itself (when missing) to 15 -> every slack value.
        hit = set()
        n = 4800
        big = r.randbytes(950000)
        smalls = [r.randbytes(1 + (i % 3 == 0)) for i in range(n)]
        for j in range(1, 36 if self.quick else 120, 1):
            for big_missing in (0, 1, 2):
                pieces = smalls[:2 * j] + [big] + smalls[2 * j:]
                data = zckref.make_file(pieces, chunk_hash_type=3)
                p = zckref.parse(data)
                if big_missing == 2:
                    # a dictionary sized so that the first missing chunk (2 bytes) straddles offset 100000: a 13-character piece -> odd slack
                    pieces = [smalls[0] * 2][:1] + pieces[1:]
                    pieces[0] = (pieces[0] * 2)[:2]
                    dsz = 99999 - p.header_len
                    for _ in range(4):
                        data = zckref.make_file(pieces, chunk_hash_type=3, dict_bytes=big[:dsz])
                        p = zckref.parse(data)
                        dsz += 99999 - (p.header_len + p.chunks[1]["start"])
                    if p.header_len + p.chunks[1]["start"] != 99999:
                        continue
                vec = [1] + [(k % 2) for k in range(len(pieces))]
                vec[1 + 2 * j] = 0 if big_missing == 1 else 1
                if big_missing == 2:
                    vec[0] = 1
                if big_missing == 1:  # keep it a separate range: neighbours valid
                    vec[2 * j] = 1
                    if 2 + 2 * j < len(vec):
                        vec[2 + 2 * j] = 1
                loc = 0
                slack = None
                prev_end = None
                for c, v in zip(p.chunks, vec):
                    if v or not c["comp_len"]:
                        continue
                    a = p.header_len + c["start"]
                    ln = piece_len(a, a + c["comp_len"] - 1)
                    if loc + ln >= BUF and slack is None:
                        slack = BUF - loc - ln  # 0: piece exactly fills; <0 overshoots by -slack
                    loc += ln
                if slack is None or (slack in hit):
                    continue
                hit.add(slack)
                add("L-j%d-b%d" % (j, big_missing), data, [vec], [-1, 255, 3], "large-slack%d" % slack if slack == 0 else "large", batch=1)
        # --- offsets of ten and more digits (targets beyond 1 GB, 10 GB, 1 TB) with request texts of 40-100 KB: every alignment of the
        # longest pieces against the 32 KiB growth steps of the text buffer; index-only files, marking by zck_find_matching_chunks
        nhuge = 0
        for base_off in ([10 ** 9] if self.quick else [10 ** 9, 10 ** 10, 10 ** 12]):
            for shift in range(0, 24 if self.quick else 48):
                nsm = 3600
                cds = 16
                # `shift` short pieces (small offsets) in front move the phase of the 22-character pieces against the buffer steps
                front = [(r.randbytes(cds), None, 1 + (k % 3 == 0), 1 + (k % 3 == 0)) for k in range(2 * shift)]
                big = (r.randbytes(cds), None, base_off + shift, base_off + shift)
                tail = [(r.randbytes(cds), None, 1 + (k % 7 == 0), 1 + (k % 7 == 0)) for k in range(nsm)]
                chunks = [(bytes(cds), None, 0, 0)] + front + [big] + tail
                keep = [chunks[0]] + [c for k, c in enumerate(front) if k % 2 == 0] + [big] + [c for k, c in enumerate(tail) if k % 2 == 0]
                tgt = zckref.build(hash_type=1, flags=0, comp_type=0, chunk_hash_type=3, chunks=chunks, body=b"", data_digest=bytes(32))
                src = zckref.build(hash_type=1, flags=0, comp_type=0, chunk_hash_type=3, chunks=keep, body=b"", data_digest=bytes(32))
                out.append(dict(name="huge-%d-%d" % (base_off, shift), data=core.b64(tgt), vectors=[[0]], limits=[[-1, 4000, 255]], tag="huge-offsets", zh=zh, seed=self.seed, seq=True,
                                match_src=core.b64(src)))
                nhuge += 1
        # two missing chunks separated by valid data of exactly k x 4 GiB (and one byte either side): distances whose low 32 bits are 0 / 1 / all ones
        for gi, gap in enumerate([1 << 32, (1 << 32) + 1, (1 << 32) - 1, 1 << 33, 3 << 32, (1 << 32) + (1 << 31)]):
            cds = 16
            m1 = (r.randbytes(cds), None, 100, 100)
            m2 = (r.randbytes(cds), None, 200, 200)
            m3 = (r.randbytes(cds), None, 7, 7)
            if gi % 2 == 0:
                valid = [(r.randbytes(cds), None, gap, gap)]
            else:
                a_ = r.randrange(1, 1 << 31)
                valid = [(r.randbytes(cds), None, a_, a_), (r.randbytes(cds), None, gap - a_, gap - a_)]
            v2 = (r.randbytes(cds), None, 1 << 32, 1 << 32)
            chunks = [(bytes(cds), None, 0, 0), m1] + valid + [m2, v2, m3]
            keep = [chunks[0]] + valid + [v2]
            tgt = zckref.build(hash_type=1, flags=0, comp_type=0, chunk_hash_type=3, chunks=chunks, body=b"", data_digest=bytes(32))
            src = zckref.build(hash_type=1, flags=0, comp_type=0, chunk_hash_type=3, chunks=keep, body=b"", data_digest=bytes(32))
            out.append(dict(name="gap-%d" % gap, data=core.b64(tgt), vectors=[[0]], limits=[[-1, 0, 1, 2, 3, 7, 255]], tag="valid-gap-4GiB", zh=zh, seed=self.seed, seq=True,
                            match_src=core.b64(src)))
            nhuge += 1
        self.count("huge_offset_layouts", nhuge)
        self.extra_cov["buffer_crossing_slack_values"] = set(str(x) for x in hit)
        self.count("large_layouts", len(hit))
        return out
