"""C01 - round trip: anything written reads back byte-identical and valid.
Deciding monitor: differential read-back (library reader under generated
buffer-size sequences + independent reference decoder) of every file whose
zck_close reported success, CPU-time bound on the write path, ASan/UBSan on
every execution; the same end to end for the zck/unzck tools."""
import os
import shutil
import sys

sys.path.insert(0, os.path.join(os.path.dirname(os.path.abspath(__file__)), "..", "lib"))
import core
import gen
import zckref
import build


def _segmentation(r, n, kind, manual):
    if kind == "one":
        return [1 << 30]
    if kind == "bytes":
        return [1]
    if kind == "rand":
        return [r.choice([0, 1, 2, 3, 100, 4095, 4096, 8191, 8192, 8193, 32767, 32768, 32769, 131071, 131072, 200000]) for _ in range(12)]
    if kind == "ends":
        # end_chunk sprinkled: twice in a row, before data, after every k bytes
        toks = ["e", "e"] if r.random() < 0.5 else []
        for _ in range(10):
            toks.append(r.choice([1, 50, 99, 100, 101, 1000, 8192, 40000]))
            if r.random() < 0.6:
                toks.append("e")
            if r.random() < 0.15:
                toks.append("e")
        return toks
    raise ValueError(kind)


def lib_cases(chk, ctx):
    r = core.rng(chk.seed, "C01", "lib")
    n = 400 if chk.quick else 20000
    contents = [("empty", 0), ("one", 1), ("const:0", 100000), ("const:255", 100000), ("const:65", 140000),
                ("random", 70000), ("text", 300000), ("periodic:48", 200000), ("periodic:47", 150000),
                ("periodic:49", 150000), ("license", 400000), ("mixed", 600000), ("random", 8192), ("random", 8191),
                ("license", 32768), ("license", 131072), ("license", 131073), ("zeros", 50000), ("text", 99),
                ("text", 100), ("text", 101), ("license", 250), ("random", 2), ("license", 16385)]
    if not chk.quick:
        contents += [("const:%d" % b, 100 * 1024) for b in range(256)]
        contents += [("license", 2 << 20), ("mixed", 2 << 20), ("random", 1 << 20)]
    sizes_pool = [None, 1, 2, 100, 8191, 8192, 8193, 32768, 131072, 10 << 20]
    out = []
    for i in range(n):
        kind, size = contents[i % len(contents)]
        if i >= len(contents) and r.random() < 0.5:
            size = r.choice([size, r.randrange(1, max(2, size + 1)), r.choice([100, 200, 250, 8192 * 3, 70000])])
        cfg = {
            "comp": r.choice([0, 2, 2, 2]),
            "level": r.choice([None, 0, 1, 3, 9, 19, 22] if not chk.quick else [None, 0, 1, 3, 9, 19]),
            "manual": r.random() < 0.4,
            "chunk_hash": r.choice([None, 0, 1, 2, 3]),
            "full_hash": r.choice([None, 0, 1, 2, 3]),
            "uncomp": r.random() < 0.2,
            "closefd0": r.random() < 0.15,
            "extra_end": r.choice([0, 0, 0, 1, 2]),
        }
        cmax = r.choice(sizes_pool)
        cmin = r.choice(sizes_pool)
        if cmax is not None:
            cfg["cmax"] = cmax
            if cmin is not None and cmin <= cmax:
                cfg["cmin"] = cmin
        if cfg.get("cmax") is not None and cfg["cmax"] <= 100 and size > 20000:
            size = r.choice([250, 1000, 5000, 20000])
        dk = r.choice([None, None, "license", 1, 7, 8, 9, 100, 4096, 112640]) if cfg["comp"] == 2 else r.choice([None, None, 100])
        cfg["dictspec"] = dk
        segk = r.choice(["one", "rand", "rand", "ends" if cfg["manual"] else "rand", "bytes" if size <= 60000 else "rand"])
        if cfg["manual"] and r.random() < 0.7:
            segk = "ends"
        seg = _segmentation(r, size, segk, cfg["manual"])
        # level 19+ on megabytes of data is slow under ASan: keep those small
        if (cfg["level"] or 0) >= 19 and size > 300000:
            cfg["level"] = 3
        reads = [r.choice([[1] if size <= 40000 else [7], [7], [512], [4096], [32768], [1, 7, 512, 4096, 32768],
                           [size + 1], [max(1, size // 3) + 1], [4096, 1]]) for _ in range(2)]
        out.append({"kind": "lib", "content": [kind, size, i], "cfg": cfg, "seg": seg, "segkind": segk, "reads": reads,
                    "zh": ctx["zh"], "zh_plain": ctx.get("zh_plain")})
    # the image written behind bytes of the caller's own (descriptor positioned there, or O_APPEND on a non-empty file)
    for j in range(12 if chk.quick else 400):
        kind, size = r.choice([("text", 300), ("license", 70000), ("random", 9000), ("mixed", 600000), ("text", 20000)])
        cfg = {"comp": r.choice([0, 2]), "level": 1, "manual": r.random() < 0.4, "chunk_hash": None, "full_hash": r.choice([None, 0, 3]), "uncomp": False, "closefd0": False,
               "extra_end": 0, "dictspec": r.choice([None, None, 100]), "preamble": r.choice([1, 1000, 4096, 100000]), "append": r.random() < 0.4}
        segk = "ends" if cfg["manual"] else "rand"
        out.append({"kind": "lib", "content": [kind, size, 800000 + j], "cfg": cfg, "seg": _segmentation(r, size, segk, cfg["manual"]), "segkind": segk, "reads": [[4096]],
                    "zh": ctx["zh"], "zh_plain": ctx.get("zh_plain")})
    # a minimum given WITHOUT a maximum (the setter compares it with a maximum that is still unset), incl. minima above the default
    # maximum of 10 MiB with more than that written into one chunk: whatever the setter says, a write must return and round-trip
    for j, (cmin, manual, size, kind) in enumerate([(12 << 20, True, (10 << 20) + 70000, "zeros"), ((10 << 20) + 1, False, (10 << 20) + 9000, "periodic:7"),
                                                    (8192, True, 50000, "text"), (1, False, 30000, "license")] if chk.quick else
                                                   [(m, mn, sz, k) for m in (1, 100, 8192, 131073, 10 << 20, (10 << 20) + 1, 12 << 20) for mn in (True, False)
                                                    for sz, k in ((40000, "text"), ((10 << 20) + 70000, "zeros"))]):
        cfg = {"comp": r.choice([0, 2]), "level": 1, "manual": manual, "cmin": cmin, "chunk_hash": None, "full_hash": None, "uncomp": False, "closefd0": False,
               "extra_end": 0, "dictspec": None}
        out.append({"kind": "lib", "content": [kind, size, 900000 + j], "cfg": cfg, "seg": [1 << 30] if j % 2 == 0 else [1 << 20], "segkind": "one", "reads": [[65536]],
                    "zh": ctx["zh"], "zh_plain": ctx.get("zh_plain")})
    return out


def _dict_bytes(spec):
    if spec is None:
        return None
    if spec == "license":
        try:
            return open(os.path.join(gen.REPO, "test/files/LICENSE.dict"), "rb").read()
        except Exception:
            return gen.content("license", 4096, 1)
    return gen.content("license", int(spec), 7)


def run_lib(case):
    cdir = case["dir"]
    D = gen.content(*case["content"])
    cfg = dict(case["cfg"])
    files = {"in.dat": D}
    db = _dict_bytes(cfg.get("dictspec"))
    if db is not None:
        files["dict.bin"] = db
        cfg["dict"] = "dict.bin"
    cid = core.h8([case["content"], case["cfg"], case["seg"], case["reads"]])
    stats = {"lib_cases": 1}
    desc = {"content": case["content"], "cfg": case["cfg"], "segmentation": case["segkind"], "reads": case["reads"]}
    keep = False
    try:
        pre = b""
        if cfg.get("preamble"):
            pre = gen.content("random", cfg["preamble"], 77)
            files["out.zck"] = pre
            stats["outputs_behind_a_preamble"] = 1
        w = core.run_zh(case["zh"], cdir, gen.writer_script(cfg, seg=case["seg"]), files, name="write")
        if w.harness_error:
            return core.verdict(cid, "inconclusive", detail="harness: %s" % w.harness_error, case=case)
        if w.timed_out and not w.cpu_exceeded:
            return core.verdict(cid, "inconclusive", detail="wall-clock watchdog during write", case=case)
        rejected = [e for e in w.events if e.get("op") in ("iopt", "sopt") and e.get("rc") == 0]
        sigs = core.crash_signatures(w)
        if sigs:
            keep = True
            cls = "auto" if not cfg.get("manual") else "manual"
            sigs = ["c01:lib:write-%s:%s" % (s, cls) if s.startswith("hang") else s for s in sigs][:1]
            return core.verdict(cid, "violated", sigs, stats, detail="write path: %s open=%s cfg=%s" % (sigs, w.open_call, cfg),
                                cdir=cdir, case=case)
        if rejected:
            stats["config_rejected"] = 1
            return core.verdict(cid, "unsupported", stats=stats)
        ws = w.first(op="writeseq")
        cl = w.first(op="close")
        if not ws or ws["rc"] != 0 or not cl or cl["rc"] != 1:
            stats["write_or_close_reported_failure"] = 1
            return core.verdict(cid, "held", stats=stats, sample=None)
        stats["closed_ok"] = 1
        stats["worst_write_call_ms"] = 0
        Z = open(os.path.join(cdir, "out.zck"), "rb").read()
        viol = []
        if pre:
            if Z[:len(pre)] != pre:
                viol.append(("c01:lib:preamble-damaged", "the %d bytes in front of the image changed (file now %d bytes)" % (len(pre), len(Z))))
            Z = Z[len(pre):]
            open(os.path.join(cdir, "out.zck"), "wb").write(Z)     # the readers below get the image on its own
        v = zckref.decode(Z)
        if not v.valid:
            viol.append(("c01:lib:file-invalid:%s" % v.reason.split(":")[0].split("(")[0].strip().replace(" ", "-"),
                         "reference decoder rejects written file: %s" % v.reason))
        elif v.content != D:
            viol.append(("c01:lib:content-%s" % _diffclass(D, v.content), "reference content %d bytes vs written %d" % (len(v.content), len(D))))
        nchunks = len(v.parsed.chunks) - 1 if v.parsed else 0
        stats["chunks_written"] = nchunks
        for k, sizes in enumerate(case["reads"]):
            pre = ["vc"] if k == 0 else []
            rd = core.run_zh(case["zh"], cdir, gen.reader_script("out.zck", pre=pre, sizes=sizes), name="read%d" % k, slow_retry=case.get("zh_plain"))
            if getattr(rd, "asan_slow", False):
                stats["reads_too_slow_under_asan_judged_on_plain_build"] = stats.get("reads_too_slow_under_asan_judged_on_plain_build", 0) + 1
            if rd.timed_out and not rd.cpu_exceeded:
                return core.verdict(cid, "inconclusive", detail="wall-clock watchdog during read", case=case)
            rs = core.crash_signatures(rd)
            if rs:
                viol.append((rs[0], "reader crashed on a file the library wrote: %s" % rs))
                continue
            ir = rd.first(op="init_read")
            if not ir or ir["rc"] != 1:
                viol.append(("c01:lib:open-failed", "zck_init_read failed on written file"))
                continue
            if pre:
                vc = rd.first(op="vc")
                if not vc or vc["rc"] != 1:
                    viol.append(("c01:lib:validate-checksums=%s" % (vc and vc["rc"]), "zck_validate_checksums != 1 on written file"))
            reads = rd.ev(ev="read")
            stats["read_calls"] = stats.get("read_calls", 0) + len(reads)
            bad = [e for e in reads if e["rc"] < 0]
            if bad:
                viol.append(("c01:lib:read-error", "zck_read returned %d" % bad[0]["rc"]))
            elif rd.out != D:
                viol.append(("c01:lib:readback-%s" % _diffclass(D, rd.out), "read back %d bytes, wrote %d (sizes %s)" % (len(rd.out), len(D), sizes)))
            c2 = rd.first(op="close")
            if not bad and (not c2 or c2["rc"] != 1):
                viol.append(("c01:lib:reader-close-failed", "zck_close (read) failed"))
        if viol:
            keep = True
            # one signature per case: the first judge that failed (later ones are consequences)
            s0 = viol[0][0]
            sigs = [s0 + (":fd0closed" if cfg.get("closefd0") else "") if s0.startswith("c01:") else s0]
            return core.verdict(cid, "violated", sigs, stats, detail="; ".join(d for _, d in viol) + " cfg=%s" % cfg, cdir=cdir, case=case)
        nontriv = nchunks >= 2 or case["content"][0] in ("empty", "one")
        return core.verdict(cid, "held", stats=stats, nontrivial=nontriv, sample=dict(desc, chunks=nchunks, file_bytes=len(Z)))
    finally:
        core.cleanup_case(cdir, keep)


def _diffclass(a, b):
    if len(b) < len(a) and a.startswith(b):
        return "truncated"
    if len(b) < len(a):
        return "shorter"
    if len(b) > len(a):
        return "longer"
    return "same-length"


# ------------------------------------------------------------------- CLI
def cli_cases(chk, ctx):
    r = core.rng(chk.seed, "C01", "cli")
    n = 80 if chk.quick else 4000
    out = []
    BS = 32768
    for i in range(n):
        opts = []
        if r.random() < 0.35:
            opts.append("-m")
        if r.random() < 0.2:
            opts.append("-u")
        hk = r.choice([None, "sha256", "sha512", "sha512_128"])
        if hk:
            opts += ["-h", hk]
        fmt = r.choice([None, "zstd", "none"])
        if fmt:
            opts += ["--compression-format", fmt]
        use_dict = r.random() < 0.25 and fmt != "none"
        split = None
        size = r.choice([0, 1, 100, BS - 1, BS, BS + 1, 2 * BS, 2 * BS + 17, 3 * BS + 5, 200000])
        kind = r.choice(["license", "text", "random", "zeros"])
        plant = None
        if r.random() < 0.7:
            slen = r.choice([1, 2, 6, 6, 100, 1000] + ([] if chk.quick else [32767]))
            shape = r.choice(["periodic", "nonperiodic", "selfoverlap"])
            # where to plant occurrences relative to the tool's 32 KiB read blocks
            where = r.choice(["block_edge", "block_edge", "block_edge", "start0", "start1", "end_eof", "prefix_eof", "random", "short_last_block"])
            delta = r.randrange(-slen, slen + 1)
            if where == "block_edge" and slen > 1 and r.random() < 0.6:
                delta = -r.randrange(1, slen)   # guaranteed straddle, every split point over the runs
            plant = {"slen": slen, "shape": shape, "where": where, "delta": delta, "m": r.choice([1, 2, 3])}
            if size < BS * plant["m"] + 2 * slen + 5:
                size = r.choice([BS * plant["m"] + 2 * slen + 5, BS * plant["m"] + BS + r.randrange(0, BS), (plant["m"] + 1) * BS])
        closed = r.choice([[], [], [], [0], [1], [2], [0, 1], [0, 1, 2]])
        procfile = None
        if i % 10 == 7:
            procfile, plant = r.choice(["/proc/version", "/proc/filesystems", "/proc/cmdline", "/proc/sys/kernel/ostype"]), None
        out.append({"kind": "cli", "i": i, "opts": opts, "content": [kind, size, i], "plant": plant, "use_dict": use_dict, "procfile": procfile,
                    "stale": r.choice([None, None, "longer", "longer", "shorter"]),
                    "closed": closed, "zck": ctx["zck"], "unzck": ctx["unzck"], "unzck_stdout": r.random() < 0.3})
    return out


def _split_string(plant, r):
    n = plant["slen"]
    if plant["shape"] == "periodic":
        unit = b"ab"
        return (unit * n)[:n]
    if plant["shape"] == "selfoverlap":
        return (b"aab" * n)[:n] if n > 2 else b"a" * n
    alphabet = b"<>/=_:.-#" + bytes(range(ord("A"), ord("Z") + 1))
    return bytes(r.choice(alphabet) for _ in range(n))


def build_cli_input(case):
    r = core.rng(case["i"], "C01", "cliinput")
    D = bytearray(gen.content(*case["content"]))
    plant = case["plant"]
    split = None
    if plant:
        split = _split_string(plant, r)
        n = len(split)
        BS = 32768
        # remove accidental occurrences of the first byte for determinism of the plan
        pos = []
        w = plant["where"]
        if w == "block_edge":
            # delta in (-n, 0): the occurrence STRADDLES the 32 KiB read-block boundary; other values: just before / just after it
            pos = [BS * plant["m"] + plant["delta"]]
        elif w == "start0":
            pos = [0]
        elif w == "start1":
            pos = [1]
        elif w == "end_eof":
            pos = [len(D) - n]
        elif w == "prefix_eof":
            k = max(1, min(n - 1, abs(plant["delta"]) or 1)) if n > 1 else 1
            D[len(D) - k:] = split[:k]
        elif w == "short_last_block":
            pos = [len(D) - n - 1, BS - 1, BS]
        else:
            pos = [r.randrange(0, max(1, len(D) - n)) for _ in range(5)]
        for p in pos:
            if 0 <= p and p + n <= len(D):
                D[p:p + n] = split
    return bytes(D), split


def run_cli(case):
    cdir = case["dir"]
    os.makedirs(cdir, exist_ok=True)
    keep = False
    cid = core.h8([case["opts"], case["content"], case["plant"], case["closed"], case["use_dict"], case["unzck_stdout"], case.get("procfile"), case.get("stale")])
    stats = {"cli_cases": 1}
    try:
        D, split = build_cli_input(case)
        open(os.path.join(cdir, "data.bin"), "wb").write(D)
        inp = "data.bin"
        if case.get("procfile"):
            # a regular file that reports size 0 although it has content (procfs): whatever zck turns it into must decode to what a
            # plain read of the file yields
            try:
                D = open(case["procfile"], "rb").read()
            except OSError:
                return core.verdict(cid, "unsupported", stats=stats)
            split = None
            inp = case["procfile"]
            stats["inputs_reporting_size_0"] = 1
        cmd = [case["zck"]] + list(case["opts"])
        if case["use_dict"]:
            shutil.copy(os.path.join(gen.REPO, "test/files/LICENSE.dict"), os.path.join(cdir, "d.dict"))
            cmd += ["-D", "d.dict"]
        if split is not None:
            try:
                sarg = split.decode("ascii")
            except Exception:
                sarg = None
            if sarg is None or "\0" in sarg:
                split = None
            else:
                cmd += ["-s", sarg]
        cmd += ["-o", "data.bin.zck", inp]
        z = _run_closed(cmd, cdir, case["closed"])
        if z.timed_out and not z.cpu_exceeded:
            return core.verdict(cid, "inconclusive", detail="watchdog in zck", case=case)
        sigs = core.crash_signatures(z, "zck")
        if sigs:
            keep = True
            return core.verdict(cid, "violated", sigs, stats, detail="zck tool: %s cmd=%s" % (sigs, cmd), cdir=cdir, case=case)
        if z.rc != 0:
            stats["zck_exit_nonzero"] = 1
            return core.verdict(cid, "held", stats=stats)
        stats["zck_ok"] = 1
        Z = open(os.path.join(cdir, "data.bin.zck"), "rb").read()
        viol = []
        v = zckref.decode(Z)
        tag = "split" if split else "nosplit"
        if case["closed"]:
            tag += ":closed=" + "".join(map(str, case["closed"]))
        if not v.valid:
            viol.append(("c01:cli:zck-output-invalid:%s" % tag, "zck exit 0 but reference rejects output: %s" % v.reason))
        elif v.content != D:
            viol.append(("c01:cli:zck-content-%s:%s" % (_diffclass(D, v.content), tag),
                         "zck exit 0, file decodes to %d bytes, input %d (first diff at %d)" % (len(v.content), len(D), _firstdiff(D, v.content))))
        # unzck
        os.rename(os.path.join(cdir, "data.bin"), os.path.join(cdir, "orig.bin"))
        if case.get("stale") and not case["unzck_stdout"]:
            # an older, longer (or shorter) file of the output's name is already there
            junk = core.rng(case["i"], "C01", "stale").randbytes(len(D) + 5000 if case["stale"] == "longer" else max(0, len(D) // 2))
            open(os.path.join(cdir, "data.bin"), "wb").write(junk)
            stats["unzck_over_an_existing_output_file"] = 1
        if case["unzck_stdout"]:
            u = _run_closed([case["unzck"], "-c", "data.bin.zck"], cdir, [c for c in case["closed"] if c != 1], stdout_path=os.path.join(cdir, "data.bin"))
        else:
            u = _run_closed([case["unzck"], "data.bin.zck"], cdir, case["closed"])
        if u.timed_out and not u.cpu_exceeded:
            return core.verdict(cid, "inconclusive", detail="watchdog in unzck", case=case)
        sigs = core.crash_signatures(u, "unzck")
        if sigs:
            keep = True
            return core.verdict(cid, "violated", sigs, stats, detail="unzck tool: %s" % sigs, cdir=cdir, case=case)
        if u.rc == 0:
            stats["unzck_ok"] = 1
            try:
                O = open(os.path.join(cdir, "data.bin"), "rb").read()
            except FileNotFoundError:
                O = None
            utag = ("stdout" if case["unzck_stdout"] else "file") + (":closed=" + "".join(map(str, case["closed"])) if case["closed"] else "")
            if O is None:
                viol.append(("c01:cli:unzck-no-output:%s" % utag, "unzck exit 0 without output file"))
            elif O != D and not viol:
                viol.append(("c01:cli:unzck-output-%s:%s" % (_diffclass(D, O), utag), "zck && unzck exit 0, output %d bytes vs input %d (first diff %d)" % (len(O), len(D), _firstdiff(D, O))))
        elif v.valid and v.content == D:
            viol.append(("c01:cli:unzck-fails-on-valid:%s" % tag, "unzck exit %s on a valid file zck produced: %s" % (u.rc, u.stderr[-200:])))
        if viol:
            keep = True
            return core.verdict(cid, "violated", [viol[0][0]], stats, detail="; ".join(d for _, d in viol) + " cmd=%s plant=%s" % (cmd, case["plant"]),
                                cdir=cdir, case=case)
        nchunks = len(v.parsed.chunks) - 1
        return core.verdict(cid, "held", stats=stats, nontrivial=(nchunks >= 2 or len(D) <= 1),
                            sample={"cmd": cmd[1:], "input_bytes": len(D), "plant": case["plant"], "closed_fds": case["closed"], "chunks": nchunks})
    finally:
        core.cleanup_case(cdir, keep)


def _firstdiff(a, b):
    n = min(len(a), len(b))
    for i in range(n):
        if a[i] != b[i]:
            return i
    return n


def _run_closed(cmd, cdir, closed, stdout_path=None):
    """Run a tool with the given descriptors closed in the child."""
    if not closed:
        return core.run_proc(cmd, cdir, stdout_path=stdout_path)
    # small sh wrapper: `exec cmd <&- >&- 2>&-`
    redir = " ".join({0: "<&-", 1: ">&-", 2: "2>&-"}[c] for c in closed)
    import shlex
    sh = "exec " + " ".join(shlex.quote(c) for c in cmd) + " " + redir
    return core.run_proc(["/bin/sh", "-c", sh], cdir, stdout_path=stdout_path)


def worker(case):
    if case["kind"] == "lib":
        return run_lib(case)
    return run_cli(case)


class C01(core.Check):
    prop = "C01"
    flavours = ["asan", "plain"]   # plain: only to confirm CPU-bound overruns seen under ASan (core.run_zh slow_retry)
    rule = ("library: random product of content kind/size x writer options x segmentation x read-size sequences, one process per "
            "write and per read; CLI: zck option combinations x split-string placement x closed descriptors (a tenth of the inputs are procfs files that report size 0), then unzck - half the time over an existing longer / shorter file of the output's name. "
            "distinct = hash of the full case description; non-trivial = close/exit reported success and the file has >= 2 data "
            "chunks (or is the empty / 1-byte boundary content)")
    assumptions = ["reference decoder lib/zckref.py, hashlib, system libzstd", "inputs <= 2 MiB"]
    worker = staticmethod(worker)

    def prepare(self, fl):
        a = fl["asan"]
        return {"zh": build.zh(a), "zck": a.tool("zck"), "unzck": a.tool("unzck"), "zh_plain": build.zh(fl["plain"])}

    def cases(self, ctx):
        return lib_cases(self, ctx) + cli_cases(self, ctx)
