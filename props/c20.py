"""C20 - compressed-integer codec: exact, bounded reads, overflow-rejecting.
Monitor: guard page directly behind the buffer handed to the real decoder
(any over-read faults and is recorded with its input), exact expectation
computed with 128-bit arithmetic in the harness and cross-checked against
Python integers on a PRNG sample; ASan pass on exact-size heap buffers."""
import json
import os
import sys

sys.path.insert(0, os.path.join(os.path.dirname(os.path.abspath(__file__)), "..", "lib"))
import core
import zckref

NSH = 16


def py_expect(w, isint):
    try:
        v, n = zckref.ci_decode(w, 0, len(w))
    except zckref.Invalid:
        return None
    if isint and v > 0x7FFFFFFF:
        return None
    return v, n


def worker(case):
    cdir = case["dir"]
    os.makedirs(cdir, exist_ok=True)
    cmd = [case["bin"], case["mode"], str(case["shard"]), str(NSH)] + (["asan"] if case["asan"] else ["plain"]) + [str(case["seed"]), str(case["n"])]
    r = core.run_proc(cmd, cdir, cpu=600, wall=1500, env=core.san_env(cdir, {"HC_DDEBUG": "1"}) if case.get("ddebug") else None)
    cid = "%s/%s/%d%s" % (case["mode"], "asan" if case["asan"] else "guard", case["shard"], "/ddebug" if case.get("ddebug") else "")
    out = r.stdout.decode(errors="replace").splitlines()
    summ = None
    viols = []
    samples = []
    for line in out:
        if line.startswith("{"):
            try:
                o = json.loads(line)
            except Exception:
                continue
            if o.get("summary"):
                summ = o
            elif "viol" in o:
                viols.append(o)
        elif line.startswith("S "):
            samples.append(line.split())
    sigs = []
    detail = ""
    cs = core.crash_signatures(r, "h_compint")
    if cs:
        sigs += cs[:1]
        detail = "sanitizer/signal: %s" % cs
    if r.timed_out:
        return core.verdict(cid, "inconclusive", detail="watchdog")
    if summ is None and not cs:
        return core.verdict(cid, "inconclusive", detail="no summary rc=%s err=%s" % (r.rc, r.stderr[-300:]))
    for v in viols:
        s = "c20:%s:%s" % (v["viol"], v["fn"])
        if s not in sigs:
            sigs.append(s)
            detail += " %s" % v
    # cross-check the harness' own expectation against Python integers
    nx = 0
    for s in samples:
        _, isint, cursor, hx, rc, val, length = (s + [""])[:7] if len(s) == 7 else (s[0], s[1], s[2], "", s[3], s[4], s[5])
        w = bytes.fromhex(hx)
        e = py_expect(w, isint == "1")
        nx += 1
        if rc == "-1":
            sg = "c20:read-past-end-of-buffer:%s" % ("compint_to_int" if isint == "1" else "compint_to_size")
            if sg not in sigs:
                sigs.append(sg)
                detail += " fault on %s cursor=%s" % (hx, cursor)
        elif rc == "1":
            if e is None:
                sg = "c20:accepted-invalid:%s" % ("compint_to_int" if isint == "1" else "compint_to_size")
            elif int(val) != e[0]:
                sg = "c20:wrong-value:py"
            elif int(length) != int(cursor) + e[1]:
                sg = "c20:wrong-consumed-length:py"
            else:
                sg = None
            if sg and sg not in sigs:
                sigs.append(sg)
                detail += " py-crosscheck %s -> %s %s" % (hx, val, length)
        elif rc == "0" and e is not None:
            sg = "c20:rejected-valid:%s" % ("compint_to_int" if isint == "1" else "compint_to_size")
            if sg not in sigs:
                sigs.append(sg)
                detail += " py-crosscheck rejected %s" % hx
    st = {"evaluations": (summ["decodes"] + summ["encodes"]) if summ else 1, "decodes": summ["decodes"] if summ else 0,
          "accepted": summ["accepted"] if summ else 0, "rejected": summ["rejected"] if summ else 0,
          "guard_page_faults": summ["faults"] if summ else 0, "encodes": summ["encodes"] if summ else 0, "python_crosschecked": nx}
    nt = ["%s/%s/%d/%d" % (case["mode"], case["asan"], case["shard"], i) for i in range(2)] if summ and (summ["decodes"] + summ["encodes"]) > 0 else False
    if sigs:
        open(os.path.join(cdir, "stdout.txt"), "wb").write(r.stdout[-20000:])
        return core.verdict(cid, "violated", sigs, st, detail=detail[:1500], cdir=cdir, case=case, nontrivial=nt)
    return core.verdict(cid, "held", stats=st, nontrivial=nt, sample={"mode": case["mode"], "monitor": "asan" if case["asan"] else "guard-page", "shard": case["shard"], "summary": summ})


class C20(core.Check):
    prop = "C20"
    flavours = ["plain", "asan"]
    rule = ("decode: every byte string of length 0..3 (exhaustive; thorough tier: length 4 too, 2^32 strings) and strings of length 8..11 with every value in the last positions over fixed "
            "prefixes, placed flush against a PROT_NONE page at cursors 0/1/7, for compint_to_size and compint_to_int; encode/decode: every v < 2^21, "
            "all 2^k, 2^k+-1, random 64-bit; a PRNG sample of strings cross-checked against Python integers; the same at DDEBUG log level; cursors far beyond 4 GiB (ptr = base+cursor convention, results must not depend on the cursor's magnitude); calls whose cursor is already past the limit (1..4000 bytes, pointer inside the inaccessible page) must fail without a read; ASan pass on exact-size heap buffers. "
            "evaluations = decoder/encoder calls; distinct_nontrivial counts shards that executed calls (2 per shard), not calls")
    assumptions = ["cursor convention of the real callers: ptr = buf + cursor, *length = cursor, max_length = size of buf"]
    worker = staticmethod(worker)

    def prepare(self, fl):
        return {"plain": fl["plain"].harness("h_compint", ["h_compint.c"]), "asan": fl["asan"].harness("h_compint", ["h_compint.c"])}

    def cases(self, ctx):
        out = []
        modes = ["short", "enc", "longq", "sample", "beyond", "far"] if self.quick else ["short", "enc", "long", "sample", "beyond", "far", "short4"]
        for m in modes:
            for sh in range(NSH):
                out.append({"bin": ctx["plain"], "mode": m, "shard": sh, "asan": False, "seed": self.seed,
                            "n": (2000 if m == "sample" else 100000) * (1 if self.quick else 20)})
        # ASan pass (heap buffers of the exact size): the encoder/round-trip space and the short space
        for m in (["enc"] if self.quick else ["enc", "short"]):
            for sh in range(NSH):
                out.append({"bin": ctx["asan"], "mode": m, "shard": sh, "asan": True, "seed": self.seed, "n": 20000})
        # the same decoder calls with the library logging at its most verbose level (output discarded)
        for m in (["longq", "beyond", "far", "sample"] if self.quick else ["short", "long", "beyond", "far", "sample"]):
            for sh in range(NSH if (m != "short" or not self.quick) else 4):
                out.append({"bin": ctx["plain"], "mode": m, "shard": sh, "asan": False, "seed": self.seed, "n": 2000, "ddebug": True})
        self.exhaustive = True
        return out
