"""C08 - local chunk reuse never accepts bytes that do not match the target index.
Monitor: zck_copy_chunks / zck_find_matching_chunks are run over sequences of
sources (valid relatives, body-corrupted, truncated, mis-indexed, different
dictionary / checksum type / compression, uncompressed-source flag) into
targets with random subsets already valid.  Offline checker: every target
chunk flagged valid re-hashed with hashlib over the bytes now on disk; a chunk
may only have become valid if some source lists an equal (checksum, stored
size, size); write(2) interposer watch + image diff prove nothing outside the
extents of not-yet-valid chunks changed; source bytes and the source's write
count unchanged; every pairing reported by matching has equal (un)compressed
checksum and length."""
import os
import sys

sys.path.insert(0, os.path.join(os.path.dirname(os.path.abspath(__file__)), "..", "lib"))
import basefiles
import build
import core
import gen
import zckref


def worker(case):
    cdir = case["dir"]
    keep = False
    T = core.unb64(case["T"])
    Bt = core.unb64(case["Bt"])     # the complete, correct target file (for its header / index)
    srcs = [core.unb64(s) for s in case["srcs"]]
    cid = core.h8([case.get("fd2"), case["name"], case["skinds"], case["mode"], case["reset"], case.get("pokes")])
    stats = {"evaluations": 1}
    try:
        pT = zckref.parse(Bt)
        ext = lambda c: (pT.header_len + c["start"], pT.header_len + c["start"] + c["comp_len"])
        pS = []
        for s in srcs:
            try:
                pS.append(zckref.parse(s))
            except zckref.Invalid:
                pS.append(None)
        files = {"tgt.zck": T}
        L = ["fopen 1 tgt.zck rw target", "create 1", "init_read 1 1", "fv 1"]
        env_extra = None
        if case.get("fd2"):
            # the process runs with stderr closed, so the target file IS descriptor 2, and the library logs at its default level
            # (an application that turns logging ON while stderr is closed sends the messages there itself: not judged): nothing may end up in the file
            L = ["closefd 2"] + L
            env_extra = {"ZH_LOGLEVEL": str(case["fd2"])}
        if case["reset"]:
            L.append("reset_failed 1")
        L.append("flags 1")
        pokes = case.get("pokes") or [None] * len(srcs)
        for i, s in enumerate(srcs):
            files["src%d.zck" % i] = s
            L += ["fopen %d src%d.zck rw source" % (2 + i, i), "create %d" % (2 + i), "init_read %d %d" % (2 + i, 2 + i)]
            if pokes[i]:
                # the source is scanned while still intact, then damaged on disk behind the library's back
                L += ["%s %d" % (pokes[i]["pre"], 2 + i)] + ["poke %d %d x:%s" % (2 + i, off, hx) for off, hx in pokes[i]["writes"]]
                sb = bytearray(s)
                for off, hx in pokes[i]["writes"]:
                    b_ = bytes.fromhex(hx)
                    sb[off:off + len(b_)] = b_
                srcs[i] = bytes(sb)
        before_valid = None
        if case["mode"] == "match-then-copy":
            # source 0 vouches for source 1 by index only (zck_find_matching_chunks), then source 1 is copied from
            L += ["match 2 3", "watch target WATCH", "copy 3 1", "watchstat", "watch - -", "flags 1"]
        for i in range(len(srcs)):
            if case["mode"] == "copy":
                if i and case.get("setfd"):
                    # the application re-opens the target and hands the context the new descriptor (position 0) between two copies
                    L += ["fopen %d tgt.zck rw target" % (8 + i), "setfd 1 %d" % (8 + i)]
                L += ["watch target WATCH", "copy %d 1" % (2 + i), "watchstat", "watch - -", "flags 1"]
            elif case["mode"] == "match":
                L += ["match %d 1" % (2 + i), "flags 1"]
        L += ["iocounts"]
        # the watch extents depend on the flags the library reports; run once to learn them (fv only), then the real run
        nfix = 1 if case.get("fd2") else 0
        probe = core.run_zh(case["zh"], os.path.join(cdir, "probe"), "\n".join(L[nfix:nfix + (5 if case["reset"] else 4)]) + "\nflags 1\n", {"tgt.zck": T}, name="probe")
        fl0 = [e for e in probe.events if e.get("op") == "flags"]
        if not fl0:
            return core.verdict(cid, "inconclusive", detail="probe failed", case=case)
        before = fl0[-1]["valid"]
        allowed = ",".join("%d-%d" % (ext(c)[0], ext(c)[1] - 1) for c, f in zip(pT.chunks, before) if f != 1 and c["comp_len"]) or "0-0"
        script = "\n".join(L).replace("WATCH", allowed) + "\n"
        rd = core.run_zh(case["zh"], cdir, script, files, name="cp", env_extra=env_extra)
        if case.get("fd2"):
            stats["runs_with_target_on_descriptor_2"] = 1
        if rd.timed_out and not rd.cpu_exceeded:
            return core.verdict(cid, "inconclusive", detail="watchdog", case=case)
        if rd.harness_error:
            return core.verdict(cid, "inconclusive", detail=str(rd.harness_error), case=case)
        cs = core.crash_signatures(rd)
        viol = None
        tag = "+".join(case["skinds"])
        if cs:
            viol = (cs[0], "crash in %s: %s" % (rd.open_call, cs))
        else:
            opens = [e for e in rd.events if e.get("op") == "init_read"]
            src_open = [e["rc"] == 1 for e in opens[1:]]
            flags_ev = [e["valid"] for e in rd.events if e.get("op") == "flags"]
            final = flags_ev[-1]
            disk = open(os.path.join(cdir, "tgt.zck"), "rb").read()
            # sources untouched
            for i, s in enumerate(srcs):
                now = open(os.path.join(cdir, "src%d.zck" % i), "rb").read()
                if now != s:
                    viol = ("c08:source-modified:%s" % case["skinds"][i], "source %d changed on disk" % i)
            for e in rd.ev(ev="iocount"):
                if e["cls"] == "source" and e["sys"] in ("write", "ftruncate") and e["n"]:
                    viol = ("c08:write-to-source", "%d %s calls on a source descriptor" % (e["n"], e["sys"]))
            if case["mode"] in ("copy", "match-then-copy") and not viol:
                ws = [e for e in rd.events if e.get("op") == "watchstat"]
                stats["target_writes_observed"] = sum(e["writes"] for e in ws)
                if any(e["oob"] for e in ws):
                    viol = ("c08:write-outside-invalid-extents:%s" % tag, "oob write: %s allowed=%s" % (rd.first(ev="oob_write"), allowed[:100]))
                have = set()
                good_src = set()
                for ps, s, ok in zip(pS, srcs, src_open):
                    if ps is None or not ok or ps.chunk_hash_type != pT.chunk_hash_type:
                        continue
                    for c in ps.chunks:
                        have.add((c["digest"], c["comp_len"], c["len"]))
                        a = ps.header_len + c["start"]
                        if a + c["comp_len"] <= len(s) and c["comp_len"] and zckref.H(ps.chunk_hash_type, s[a:a + c["comp_len"]]) == c["digest"]:
                            good_src.add((c["digest"], c["comp_len"], c["len"]))
                nvalid_new = 0
                for c, f0, f1 in zip(pT.chunks, before, final):
                    a, b = ext(c)
                    key = (c["digest"], c["comp_len"], c["len"])
                    if f1 == 1 and c["comp_len"]:
                        if b > len(disk) or zckref.H(pT.chunk_hash_type, disk[a:b]) != c["digest"]:
                            viol = ("c08:valid-flag-on-wrong-bytes:%s" % tag, "chunk %d flagged valid, bytes on disk do not hash to its checksum (was %d)" % (c["number"], f0))
                            break
                        if f0 != 1:
                            nvalid_new += 1
                            if key not in have:
                                viol = ("c08:valid-without-matching-source:%s" % tag, "chunk %d became valid but no source lists (checksum, %d, %d)" % (c["number"], c["comp_len"], c["len"]))
                                break
                    if f1 == -1 and f0 != -1 and c["comp_len"]:
                        if disk[a:b] != bytes(b - a):
                            viol = ("c08:failed-chunk-not-zeroed:%s" % tag, "chunk %d marked failed by the copy but not zero-filled" % c["number"])
                            break
                    if f1 != 1 and f0 != 1 and key in good_src and c["comp_len"]:
                        stats["usable_source_chunk_not_used"] = stats.get("usable_source_chunk_not_used", 0) + 1
                stats["chunks_became_valid"] = nvalid_new
                stats["chunks_failed_by_copy"] = sum(1 for f0, f1 in zip(before, final) if f1 == -1 and f0 != -1)
                if not viol:
                    msk = bytearray(max(len(disk), len(T)))
                    for c, f in zip(pT.chunks, before):
                        if f != 1:
                            a, b = ext(c)
                            msk[a:b] = b"\x01" * (b - a)
                    for k in range(min(len(disk), len(T))):
                        if not msk[k] and disk[k] != T[k]:
                            viol = ("c08:bytes-changed-outside-invalid-extents:%s" % tag, "offset %d" % k)
                            break
            elif not viol:
                # pairings of each match round
                rounds = []
                cur = None
                for e in rd.events:
                    if e.get("call", "").startswith("match"):
                        cur = []
                        rounds.append(cur)
                    if e.get("ev") == "pair" and cur is not None:
                        cur.append(e)
                npairs = 0
                for i, prs in enumerate(rounds):
                    ps = pS[i]
                    for e in prs:
                        if not e["src_is_other"] or ps is None:
                            continue
                        t = pT.chunks[e["tgt"]]
                        if e["src"] >= len(ps.chunks):
                            continue  # pairing from an earlier source (chunk numbers are per source)
                        s_ = ps.chunks[e["src"]]
                        npairs += 1
                        same_comp = ps.comp_type == pT.comp_type
                        if same_comp:
                            good = s_["digest"] == t["digest"] and s_["len"] == t["len"]
                        else:
                            good = ps.has_uncomp and pT.has_uncomp and s_["udigest"] == t["udigest"] and s_["len"] == t["len"]
                        # a pairing from an earlier round persists; only judge pairs that are consistent with THIS source or were made earlier
                        if not good:
                            earlier = False
                            for j in range(i):
                                pj = pS[j]
                                if pj is not None and e["src"] < len(pj.chunks):
                                    sj = pj.chunks[e["src"]]
                                    if (pj.comp_type == pT.comp_type and sj["digest"] == t["digest"] and sj["len"] == t["len"]) or \
                                       (pj.comp_type != pT.comp_type and pj.has_uncomp and pT.has_uncomp and sj["udigest"] == t["udigest"] and sj["len"] == t["len"]):
                                        earlier = True
                            if not earlier:
                                viol = ("c08:mismatched-pairing:%s:%s" % ("comp" if same_comp else "uncomp", tag),
                                        "target chunk %d paired with source %d chunk %d: checksum/length differ" % (e["tgt"], i, e["src"]))
                                break
                    if viol:
                        break
                stats["pairings_checked"] = npairs
                if disk != T:
                    viol = ("c08:match-modified-target", "zck_find_matching_chunks changed the target file")
        if viol:
            keep = True
            return core.verdict(cid, "violated", [viol[0]], stats, detail=viol[1] + " case=%s mode=%s" % (case["name"], case["mode"]), cdir=cdir, case=case)
        return core.verdict(cid, "held", stats=stats, nontrivial=bool(stats.get("chunks_became_valid") or stats.get("chunks_failed_by_copy") or stats.get("pairings_checked")),
                            sample={"target": case["name"], "sources": case["skinds"], "mode": case["mode"], "flags_before": before[:20],
                                    "flags_after": flags_ev[-1][:20] if not cs else None, "became_valid": stats.get("chunks_became_valid"),
                                    "failed_by_copy": stats.get("chunks_failed_by_copy"), "pairings": stats.get("pairings_checked")})
    finally:
        core.cleanup_case(cdir, keep)


class C08(core.Check):
    prop = "C08"
    flavours = ["asan"]
    rule = ("targets (reference-written, none/zstd, dict/no dict, uncompressed-source flag) with random subsets of chunks already valid (others garbage / zero / "
            "truncated away) x sequences of 1-3 sources drawn from {valid relative sharing chunks, one body byte flipped per chunk, truncated at a chunk seam +-1, "
            "index entries swapped (checksum right, bytes elsewhere), duplicate chunks, other dictionary, other chunk checksum type, other compression, "
            "uncompressed-source flag on one or both} x {zck_copy_chunks, zck_find_matching_chunks} x {with/without zck_reset_failed_chunks}. "
            "non-trivial = some chunk became valid / was failed by the copy / some pairing was reported")
    assumptions = ["validity recomputed with hashlib over the bytes on disk", "write(2) interposer sees every write of the library (io.c uses write only)"]
    worker = staticmethod(worker)

    def prepare(self, fl):
        return {"zh": build.zh(fl["asan"])}

    def cases(self, ctx):
        r = core.rng(self.seed, "C08", "gen")
        out = []
        n = 400 if self.quick else 6000
        for i in range(n):
            comp = r.choice([0, 2])
            uncomp = r.random() < 0.35
            cht = r.choice([1, 2]) if uncomp else r.randrange(4)
            nch = r.choice([2, 5, 12, 40])
            pieces = [gen.content(r.choice(["random", "text"]), r.randrange(1, r.choice([40, 500, 40000])), r.random()) for _ in range(nch)]
            if r.random() < 0.3 and nch > 2:
                pieces[r.randrange(nch)] = pieces[0]  # duplicate chunk
            db = r.randbytes(r.choice([0, 0, 50]))
            if i % 8 == 3:
                # stored chunks with whole 32 KiB blocks of zeros (block-aligned inside the chunk), to be copied over stale target bytes
                comp = 0
                pieces[r.randrange(nch)] = bytes(32768 * r.choice([1, 2, 3])) + gen.content("random", r.choice([0, 100, 40000]), r.random())
                pieces[r.randrange(nch)] = gen.content("random", 32768, r.random()) + bytes(32768) + gen.content("random", 5000, r.random())
            sed_ = (i % 10 == 5)
            if sed_:
                comp, db = 2, b""   # another writer's "no dictionary": the zstd frame of nothing stored in the first entry
            Bt = zckref.make_file(pieces, comp_type=comp, dict_bytes=db, chunk_hash_type=cht, uncomp=uncomp, stored_empty_dict=sed_)
            pT = zckref.parse(Bt)
            # initial target
            T = bytearray(Bt)
            for c in pT.chunks:
                if c["comp_len"] and r.random() < 0.6:
                    a = pT.header_len + c["start"]
                    T[a:a + c["comp_len"]] = r.choice([r.randbytes(c["comp_len"]), bytes(c["comp_len"])])
            T = bytes(T)
            if r.random() < 0.2:
                T = T[: r.randrange(pT.header_len, len(T) + 1)]
            srcs, kinds = [], []
            for _ in range(r.choice([1, 1, 2, 3])):
                k = r.choice(["relative", "relative", "flipped", "truncated", "swapped-index", "bigger-stored", "other-dict", "other-hash", "other-comp", "uncomp-flag", "same", "unrelated"])
                sp = list(pieces)
                r.shuffle(sp)
                sp = sp[: max(1, len(sp) * 2 // 3)] + [r.randbytes(r.randrange(1, 200)) for _ in range(2)]
                if k == "same":
                    sp = list(pieces)
                if k == "unrelated":
                    sp = [r.randbytes(len(x)) for x in pieces]
                s_comp, s_db, s_cht, s_unc = comp, db, cht, uncomp
                if k == "other-dict":
                    s_db = r.randbytes(77)
                if k == "other-hash":
                    s_cht = (cht % 2) + 1 if uncomp else (cht + 1) % 4
                if k == "other-comp":
                    s_comp = 2 - comp
                    if r.random() < 0.7:
                        s_unc = True
                        s_cht = cht if cht in (1, 2) else 1
                if k == "uncomp-flag":
                    s_unc = not uncomp
                    s_cht = cht if cht in (1, 2) else 1
                S = zckref.make_file(sp, comp_type=s_comp, dict_bytes=s_db, chunk_hash_type=s_cht, uncomp=s_unc)
                pS = zckref.parse(S)
                if k == "flipped":
                    d = bytearray(S)
                    for c in pS.chunks:
                        if c["comp_len"]:
                            d[pS.header_len + c["start"] + r.randrange(c["comp_len"])] ^= 1 << r.randrange(8)
                    S = bytes(d)
                elif k == "truncated":
                    c = r.choice(pS.chunks)
                    cut = pS.header_len + c["start"] + r.choice([-1, 0, 1, c["comp_len"] // 2])
                    S = S[: max(pS.header_len, min(len(S), cut))]
                elif k == "bigger-stored" and pS.comp_type == 2 and len(pS.chunks) >= 2:
                    # same checksum and size as listed, but the index claims MORE stored bytes than the chunk really has
                    ch = [(c["digest"], c["udigest"], c["comp_len"], c["len"]) for c in pS.chunks]
                    i1 = r.randrange(1, len(ch))
                    extra = r.choice([1, 7, 300])
                    c1 = pS.chunks[i1]
                    ch[i1] = (ch[i1][0], ch[i1][1], ch[i1][2] + extra, ch[i1][3])
                    body = S[pS.header_len:]
                    cut = c1["start"] + c1["comp_len"]
                    S = basefiles.rebuild(pS, S, chunks=ch, body=body[:cut] + r.randbytes(extra) + body[cut:], data_digest=pS.data_digest)
                elif k == "swapped-index" and len(pS.chunks) >= 3:
                    ch = [(c["digest"], c["udigest"], c["comp_len"], c["len"]) for c in pS.chunks]
                    i1, i2 = r.sample(range(1, len(ch)), 2)
                    ch[i1], ch[i2] = ch[i2], ch[i1]
                    S = basefiles.rebuild(pS, S, chunks=ch)
                srcs.append(S)
                kinds.append(k)
            for mode in (["copy", "match"] if i % 3 == 0 else [r.choice(["copy", "copy", "match"])]):
                out.append({"name": "t%d-c%d-u%d-h%d" % (i, comp, uncomp, cht), "T": core.b64(T), "Bt": core.b64(Bt), "srcs": [core.b64(s) for s in srcs], "skinds": kinds,
                            "mode": mode, "reset": r.random() < 0.5, "zh": ctx["zh"], "setfd": len(srcs) > 1 and r.random() < 0.4,
                            "fd2": 3 if (mode == "copy" and r.random() < 0.25) else None})
            if i % 8 == 6 and nch >= 2:
                # the whole old file as source, cut in the middle of one of its chunks (every stored chunk before it is complete, the read of
                # that chunk comes back short, later ones are absent); every target chunk still to fill, over junk
                Sfull = zckref.make_file(pieces, comp_type=comp, dict_bytes=db, chunk_hash_type=cht, uncomp=uncomp)
                pSf = zckref.parse(Sfull)
                cands_ = [c for c in pSf.chunks[1:] if c["comp_len"] >= 2]
                if cands_:
                    c_ = r.choice(cands_)
                    for frac in (1, 2):
                        cutS = Sfull[: pSf.header_len + c_["start"] + max(1, c_["comp_len"] * frac // 3)]
                        Tj = bytearray(Bt)
                        for cc in pT.chunks:
                            if cc["comp_len"]:
                                a = pT.header_len + cc["start"]
                                Tj[a:a + cc["comp_len"]] = bytes(x ^ 0xA5 for x in Tj[a:a + cc["comp_len"]])
                        out.append({"name": "t%d-cut-mid-chunk%d" % (i, frac), "T": core.b64(bytes(Tj)), "Bt": core.b64(Bt), "srcs": [core.b64(cutS)], "skinds": ["cut-mid-chunk"],
                                    "mode": "copy", "reset": r.random() < 0.5, "zh": ctx["zh"], "setfd": False})
            if i % 8 == 1 and nch >= 5:
                # the target's chunks come from two sources in file order (first part, second part), the descriptor re-opened in between:
                # the second copy continues exactly where the first one stopped writing
                m = r.randrange(2, nch - 1)
                parts = [zckref.make_file(pieces[:m], comp_type=comp, dict_bytes=db, chunk_hash_type=cht, uncomp=uncomp),
                         zckref.make_file(pieces[m:], comp_type=comp, dict_bytes=db, chunk_hash_type=cht, uncomp=uncomp)]
                Tz = bytearray(Bt)
                for c in pT.chunks[1:]:
                    a = pT.header_len + c["start"]
                    Tz[a:a + c["comp_len"]] = bytes(c["comp_len"])
                out.append({"name": "t%d-two-parts-setfd" % i, "T": core.b64(bytes(Tz)), "Bt": core.b64(Bt), "srcs": [core.b64(x) for x in parts], "skinds": ["first-part", "second-part"],
                            "mode": "copy", "reset": True, "zh": ctx["zh"], "setfd": True})
            if i % 8 == 2:
                # index-only matching across compression types (both files carry uncompressed checksums): a target entry whose UNCOMPRESSED
                # checksum equals a source chunk's STORED checksum (same length) must not be paired with it
                sp = [gen.content("text", r.randrange(20, 300), r.random()) for _ in range(4)]
                S = zckref.make_file(sp, comp_type=2, chunk_hash_type=1, uncomp=True)
                pS = zckref.parse(S)
                Tm = zckref.make_file([r.randbytes(c["len"]) for c in pS.chunks[1:]], comp_type=0, chunk_hash_type=1, uncomp=True)
                pTm = zckref.parse(Tm)
                ch = [(c["digest"], c["udigest"], c["comp_len"], c["len"]) for c in pTm.chunks]
                for k in range(1, len(ch)):
                    ch[k] = (ch[k][0], pS.chunks[k]["digest"], ch[k][2], ch[k][3])
                Tm = basefiles.rebuild(pTm, Tm, chunks=ch, data_digest=pTm.data_digest)
                pTm = zckref.parse(Tm)
                Tz = bytearray(Tm)
                for c in pTm.chunks[1:]:
                    a = pTm.header_len + c["start"]
                    Tz[a:a + c["comp_len"]] = bytes(c["comp_len"])      # nothing there yet: every chunk is a candidate for matching
                out.append({"name": "t%d-stored-digest-as-uncompressed" % i, "T": core.b64(bytes(Tz)), "Bt": core.b64(Tm), "srcs": [core.b64(S)], "skinds": ["stored-digest-as-uncompressed"],
                            "mode": "match", "reset": True, "zh": ctx["zh"]})
            # multi-step: a source validated while intact and damaged afterwards; a damaged source vouched for by index matching
            if i % 2 == 0:
                good = zckref.make_file(pieces, comp_type=comp, dict_bytes=db, chunk_hash_type=cht, uncomp=uncomp)
                pg = zckref.parse(good)
                writes = []
                for c in pg.chunks:
                    if c["comp_len"] and r.random() < 0.7:
                        off = pg.header_len + c["start"] + (c["comp_len"] - 1 if c["comp_len"] > 32768 else r.randrange(c["comp_len"]))
                        writes.append((off, bytes([good[off] ^ 0x20]).hex()))
                if writes:
                    out.append({"name": "t%d-validated-then-damaged" % i, "T": core.b64(T), "Bt": core.b64(Bt), "srcs": [core.b64(good)], "skinds": ["validated-then-damaged"],
                                "mode": "copy", "reset": r.random() < 0.5, "zh": ctx["zh"], "pokes": [{"pre": r.choice(["vc", "fv", "vd"]), "writes": writes}]})
                    dmg = bytearray(good)
                    for off, hx in writes:
                        dmg[off] = bytes.fromhex(hx)[0]
                    out.append({"name": "t%d-match-then-copy" % i, "T": core.b64(T), "Bt": core.b64(Bt), "srcs": [core.b64(good), core.b64(bytes(dmg))],
                                "skinds": ["intact-voucher", "damaged-vouched"], "mode": "match-then-copy", "reset": r.random() < 0.5, "zh": ctx["zh"]})
        return out
