/* h_hdrmut - in-process header mutation / pin enumeration (C06, C07).
 *
 *   h_hdrmut <cases> <out> <marker> file0 [file1 ...]
 *
 * Case lines:
 *   X <fileidx> <lo> <hi> [<mode> [<hash type> <hex digest string>]]
 *       every position in [lo,hi) x every other byte value: substitute, open
 *       the image.  mode 0 (default): zck_init_read; 1: zck_init_adv_read +
 *       zck_read_lead + zck_read_header; 2: as 1 with the header pinned to the
 *       given (genuine) hash type and digest string first; 3: the pins are set
 *       AFTER zck_read_lead (setter results ignored, error cleared); 4: as 1, but every failing step is followed by
 *       zck_clear_error and repeated (up to three attempts each).  Output:
 *       "S <fileidx> <pos> <val> <mode>" for each open that SUCCEEDED, then
 *       "XEND <fileidx> <opens> <successes>".
 *   P <id> <fileidx> <patches|-> <ops...>
 *       patches (comma separated, applied left to right to a copy of the file):
 *         s<pos>:<hex>  substitute bytes   d<pos>:<n>  delete n bytes
 *         i<pos>:<hex>  insert bytes       t<len>      truncate to len
 *       ops: T<int> pin hash type   D<hex of the raw string bytes> pin digest
 *            L<int> pin header length   v validate_lead   l read_lead
 *            h read_header   o zck_init_read (lead+header)   c clear_error
 *            a zck_init_adv_read (implicit before the first op)
 *            U<0|1> set ZCK_UNCOMP_HEADER on the (reading) context   W<fileidx> the file is rewritten in place with file <fileidx>'s bytes
 *            Fpipe | Fsock | Ffifo : (first op) the image is presented through a pipe / a socket pair / a named FIFO instead of a
 *                    regular file (everything is queued before the library reads)
 *            Foff  : (first op) the image follows a pristine copy of the whole unpatched file in the same descriptor, which is
 *                    positioned at the image's first byte
 *       Output: "R <id> r1,r2,..." (one result per op).
 * The id of the case being executed is written to <marker> (pwrite) before it
 * runs, so a crash is attributable.  No oracle logic here. */
#define _GNU_SOURCE
#include <errno.h>
#include <fcntl.h>
#include <stdio.h>
#include <stdlib.h>
#include <string.h>
#include <sys/mman.h>
#include <signal.h>
#include <sys/socket.h>
#include <sys/wait.h>
#include <sys/stat.h>
#include <unistd.h>
#include <zck.h>

#define MAXF 64
static unsigned char *fdata[MAXF];
static size_t flen[MAXF];
static int nfiles;
static int memfd = -1;
static int marker = -1;
static int curfd = -1;          /* descriptor the ops of the current P line use */
static int extra_fds[4], n_extra;
static pid_t feeders[4];
static int n_feeders;
static FILE *out;

static void mark(const char *id) {
    char b[64];
    int n = snprintf(b, sizeof(b), "%-40.40s\n", id);
    if(pwrite(marker, b, n, 0) < 0) {}
}

static void set_image(const unsigned char *p, size_t n) {
    if(ftruncate(memfd, 0) < 0 || pwrite(memfd, p, n, 0) != (ssize_t)n) { perror("memfd"); exit(3); }
    lseek(memfd, 0, SEEK_SET);
}

static void poke(size_t pos, unsigned char v) {
    if(pwrite(memfd, &v, 1, pos) != 1) { perror("poke"); exit(3); }
    lseek(memfd, 0, SEEK_SET);
}

static int try_open(void) {
    zckCtx *z = zck_create();
    if(!z) exit(3);
    int r = zck_init_read(z, memfd) ? 1 : 0;
    zck_free(&z);
    return r;
}

static int try_open_mode(int mode, int htype, const char *hexdigest) {
    if(mode == 0) return try_open();
    zckCtx *z = zck_create();
    if(!z) exit(3);
    int r = zck_init_adv_read(z, memfd) ? 1 : 0;
    if(r && mode == 2) {
        r = zck_set_ioption(z, ZCK_VAL_HEADER_HASH_TYPE, htype) &&
            zck_set_soption(z, ZCK_VAL_HEADER_DIGEST, hexdigest, strlen(hexdigest));
        if(!r) { fprintf(stderr, "pin refused\n"); exit(3); }
    }
    if(mode == 3) {
        r = r && zck_read_lead(z);
        if(r) {
            bool a = zck_set_ioption(z, ZCK_VAL_HEADER_HASH_TYPE, htype);
            bool b = zck_set_soption(z, ZCK_VAL_HEADER_DIGEST, hexdigest, strlen(hexdigest));
            (void)a; (void)b;
            zck_clear_error(z);
            r = zck_read_header(z);
        }
    } else if(mode == 5) {
        /* options an application may have set on the context before it opens the file for reading (accepted or not, they are
         * not part of what authenticates the header) */
        if(r) {
            bool a = zck_set_ioption(z, ZCK_UNCOMP_HEADER, 1);
            bool b = zck_set_ioption(z, ZCK_HASH_CHUNK_TYPE, ZCK_HASH_SHA512);
            bool c = zck_set_ioption(z, ZCK_MANUAL_CHUNK, 1);
            (void)a; (void)b; (void)c;
            zck_clear_error(z);
        }
        r = r && zck_read_lead(z) && zck_read_header(z);
    } else if(mode == 4) {
        /* a caller that does not give up at the first failure: clear the error and ask again (each step up to three times) */
        int l = 0, h = 0;
        for(int k = 0; r && k < 3 && !l; k++) { l = zck_read_lead(z); if(!l) zck_clear_error(z); }
        for(int k = 0; r && l && k < 3 && !h; k++) { h = zck_read_header(z); if(!h) zck_clear_error(z); }
        r = r && l && h;
    } else {
        r = r && zck_read_lead(z) && zck_read_header(z);
    }
    zck_free(&z);
    return r ? 1 : 0;
}

static int hv(int c) {
    if(c >= '0' && c <= '9') return c - '0';
    if(c >= 'a' && c <= 'f') return c - 'a' + 10;
    if(c >= 'A' && c <= 'F') return c - 'A' + 10;
    return 0;
}
static size_t unhex(const char *h, unsigned char *dst) {
    size_t n = strlen(h) / 2;
    for(size_t i = 0; i < n; i++) dst[i] = hv(h[2 * i]) * 16 + hv(h[2 * i + 1]);
    return n;
}

static unsigned char *apply_patches(int fi, char *patches, size_t *outlen) {
    size_t cap = flen[fi] + 65536 + strlen(patches);
    unsigned char *b = malloc(cap);
    size_t n = flen[fi];
    memcpy(b, fdata[fi], n);
    if(strcmp(patches, "-")) {
        char *save = NULL;
        for(char *p = strtok_r(patches, ",", &save); p; p = strtok_r(NULL, ",", &save)) {
            char k = p[0];
            char *colon = strchr(p, ':');
            size_t pos = strtoull(p + 1, NULL, 10);
            if(k == 't') { if(pos < n) n = pos; continue; }
            if(!colon) { fprintf(stderr, "bad patch %s\n", p); exit(3); }
            if(k == 's') {
                unsigned char tmp[4096];
                size_t l = unhex(colon + 1, tmp);
                if(pos + l <= n) memcpy(b + pos, tmp, l);
            } else if(k == 'd') {
                size_t l = strtoull(colon + 1, NULL, 10);
                if(pos + l <= n) { memmove(b + pos, b + pos + l, n - pos - l); n -= l; }
            } else if(k == 'i') {
                unsigned char tmp[4096];
                size_t l = unhex(colon + 1, tmp);
                if(pos <= n && n + l < cap) { memmove(b + pos + l, b + pos, n - pos); memcpy(b + pos, tmp, l); n += l; }
            }
        }
    }
    *outlen = n;
    return b;
}

int main(int argc, char **argv) {
    if(argc < 5) { fprintf(stderr, "usage\n"); return 3; }
    FILE *cf = fopen(argv[1], "r");
    out = fopen(argv[2], "w");
    marker = open(argv[3], O_WRONLY | O_CREAT | O_TRUNC, 0644);
    if(!cf || !out || marker < 0) { perror("open"); return 3; }
    for(int i = 4; i < argc && nfiles < MAXF; i++) {
        int fd = open(argv[i], O_RDONLY);
        struct stat st;
        if(fd < 0 || fstat(fd, &st) < 0) { perror(argv[i]); return 3; }
        fdata[nfiles] = malloc(st.st_size + 1);
        if(read(fd, fdata[nfiles], st.st_size) != st.st_size) { perror("read"); return 3; }
        flen[nfiles] = st.st_size;
        close(fd);
        nfiles++;
    }
    signal(SIGPIPE, SIG_IGN);
    memfd = memfd_create("hdrmut", 0);
    if(memfd < 0) { perror("memfd_create"); return 3; }
    zck_set_log_level(ZCK_LOG_NONE);
    char *line = NULL;
    size_t cap = 0;
    ssize_t n;
    while((n = getline(&line, &cap, cf)) > 0) {
        while(n > 0 && (line[n - 1] == '\n')) line[--n] = 0;
        if(!n) continue;
        if(line[0] == 'X') {
            int fi; size_t lo, hi;
            int mode = 0, htype = 0;
            char hexd[300] = "";
            int got = sscanf(line + 1, "%d %zu %zu %d %d %299s", &fi, &lo, &hi, &mode, &htype, hexd);
            if(got < 3 || fi >= nfiles || (mode >= 2 && got < 6)) return 3;
            char id[64];
            snprintf(id, sizeof(id), "X-%d-%zu", fi, lo);
            mark(id);
            set_image(fdata[fi], flen[fi]);
            long opens = 0, succ = 0;
            for(size_t pos = lo; pos < hi && pos < flen[fi]; pos++) {
                unsigned char orig = fdata[fi][pos];
                for(int v = 0; v < 256; v++) {
                    if(v == orig) continue;
                    poke(pos, (unsigned char)v);
                    opens++;
                    if(try_open_mode(mode, htype, hexd)) { succ++; fprintf(out, "S %d %zu %d %d\n", fi, pos, v, mode); }
                }
                poke(pos, orig);
            }
            fprintf(out, "XEND %d %ld %ld\n", fi, opens, succ);
            fflush(out);
        } else if(line[0] == 'P') {
            char *save = NULL;
            strtok_r(line, " ", &save);
            char *id = strtok_r(NULL, " ", &save);
            char *fis = strtok_r(NULL, " ", &save);
            char *patches = strtok_r(NULL, " ", &save);
            if(!id || !fis || !patches) return 3;
            int fi = atoi(fis);
            if(fi >= nfiles) return 3;
            mark(id);
            size_t il;
            unsigned char *img = apply_patches(fi, patches, &il);
            set_image(img, il);
            free(img);
            curfd = memfd;
            n_extra = 0;
            zckCtx *z = zck_create();
            fprintf(out, "R %s ", id);
            int first = 1;
            int inited = 0, presented = 0;
            for(char *op = strtok_r(NULL, " ", &save); op; op = strtok_r(NULL, " ", &save)) {
                int r = -9;
                if(op[0] == 'F') {
                    /* how the image reaches the library */
                    presented = 1;
                    struct stat st;
                    fstat(memfd, &st);
                    size_t il2 = st.st_size;
                    unsigned char *img2 = malloc(il2 ? il2 : 1);
                    if(pread(memfd, img2, il2, 0) != (ssize_t)il2) exit(3);
                    if(!strcmp(op, "Foff")) {
                        if(ftruncate(memfd, 0) < 0 || pwrite(memfd, fdata[fi], flen[fi], 0) != (ssize_t)flen[fi] ||
                           pwrite(memfd, img2, il2, flen[fi]) != (ssize_t)il2) exit(3);
                        lseek(memfd, flen[fi], SEEK_SET);
                    } else {
                        int pfd[2];
                        if(!strcmp(op, "Fsock")) {
                            if(socketpair(AF_UNIX, SOCK_STREAM, 0, pfd) < 0) exit(3);
                            int sz = (int)il2 + 65536;
                            setsockopt(pfd[1], SOL_SOCKET, SO_SNDBUF, &sz, sizeof(sz));
                            int t0 = pfd[0]; pfd[0] = pfd[1]; pfd[1] = t0;   /* write to [1], read from [0] */
                        } else if(!strcmp(op, "Ffifo")) {
                            char fp[64];
                            snprintf(fp, sizeof(fp), "fifo.%d", (int)getpid());
                            unlink(fp);
                            if(mkfifo(fp, 0600) < 0) exit(3);
                            pfd[0] = open(fp, O_RDONLY | O_NONBLOCK);
                            pfd[1] = open(fp, O_WRONLY);
                            fcntl(pfd[0], F_SETFL, fcntl(pfd[0], F_GETFL) & ~O_NONBLOCK);
                            unlink(fp);
                        } else if(pipe(pfd) < 0) exit(3);
                        if(strcmp(op, "Fsock")) fcntl(pfd[1], F_SETPIPE_SZ, (int)il2 + 65536);
                        /* a child process feeds the bytes (the image may be larger than the channel's capacity) */
                        fflush(out);
                        pid_t feeder = fork();
                        if(feeder == 0) {
                            close(pfd[0]);
                            size_t done = 0;
                            while(done < il2) {
                                ssize_t w = write(pfd[1], img2 + done, il2 - done);
                                if(w <= 0) break;
                                done += w;
                            }
                            _exit(0);
                        }
                        close(pfd[1]);
                        feeders[n_feeders++] = feeder;
                        curfd = pfd[0];
                        extra_fds[n_extra++] = pfd[0];
                    }
                    free(img2);
                    continue;
                }
                if(!inited && op[0] != 'o' && op[0] != 'a') { zck_init_adv_read(z, curfd); inited = 1; }
                switch(op[0]) {
                case 'T': r = zck_set_ioption(z, ZCK_VAL_HEADER_HASH_TYPE, atoll(op + 1)); break;
                case 'L': r = zck_set_ioption(z, ZCK_VAL_HEADER_LENGTH, atoll(op + 1)); break;
                case 'D': {
                    size_t l = strlen(op + 1) / 2;
                    /* exact-size heap copy, not NUL terminated: over-reads are ASan reports */
                    unsigned char *s = malloc(l ? l : 1);
                    unhex(op + 1, s);
                    r = zck_set_soption(z, ZCK_VAL_HEADER_DIGEST, (char *)s, l);
                    free(s);
                    break;
                }
                case 'v': r = zck_validate_lead(z); break;
                case 'l': r = zck_read_lead(z); break;
                case 'h': r = zck_read_header(z); break;
                case 'o': if(!presented) lseek(memfd, 0, SEEK_SET); r = zck_init_read(z, curfd); inited = 1; break;
                case 'c': r = zck_clear_error(z); break;
                case 'U': r = zck_set_ioption(z, ZCK_UNCOMP_HEADER, atoll(op + 1)); break;
                case 'W': {
                    /* the file behind the descriptor is rewritten in place (another file's bytes), position back at its start */
                    int fj = atoi(op + 1);
                    if(fj < 0 || fj >= nfiles) return 3;
                    set_image(fdata[fj], flen[fj]);
                    r = 1;
                    break;
                }
                case 'a': r = zck_init_adv_read(z, curfd); inited = 1; break;
                default: return 3;
                }
                fprintf(out, "%s%d", first ? "" : ",", r);
                first = 0;
            }
            fprintf(out, "\n");
            zck_free(&z);
            for(int k = 0; k < n_extra; k++) close(extra_fds[k]);
            for(int k = 0; k < n_feeders; k++) { int st; waitpid(feeders[k], &st, 0); }
            n_feeders = 0;
        } else if(line[0] != '#') {
            fprintf(stderr, "bad case line\n");
            return 3;
        }
    }
    mark("END");
    fprintf(out, "END\n");
    fclose(out);
    return 0;
}
