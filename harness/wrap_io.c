/* Link-time interposer (-Wl,--wrap=...) for every system call the tree makes
 * on data descriptors.  Classifies descriptors, keeps per-(syscall,class)
 * counters, logs io events, injects faults / kill points on request. */
#define _GNU_SOURCE
#include <errno.h>
#include <fcntl.h>
#include <stdarg.h>
#include <stdio.h>
#include <stdlib.h>
#include <string.h>
#include <sys/sendfile.h>
#include <sys/uio.h>
#include <unistd.h>
#include "zhlog.h"

#define MAXFD 1024
#define MAXFAULT 8

static char cls[MAXFD][12];
static int io_log = 0;

struct fault { char cls[12]; char sys[12]; long k; int kind; long arg; int fired; };
static struct fault faults[MAXFAULT];
static int nfaults = 0;

struct counter { char cls[12]; char sys[12]; long n; };
static struct counter counters[64];
static int ncounters = 0;

ssize_t __real_read(int fd, void *buf, size_t n);
ssize_t __real_write(int fd, const void *buf, size_t n);
off_t __real_lseek(int fd, off_t off, int wh);
int __real_ftruncate(int fd, off_t len);
int __real_mkstemp(char *t);
int __real_close(int fd);
ssize_t __real_pread(int fd, void *buf, size_t n, off_t off);
ssize_t __real_pwrite(int fd, const void *buf, size_t n, off_t off);
ssize_t __real_readv(int fd, const struct iovec *iov, int cnt);
ssize_t __real_writev(int fd, const struct iovec *iov, int cnt);

ssize_t __real_sendfile(int out_fd, int in_fd, off_t *off, size_t n);
ssize_t __real_copy_file_range(int fd_in, off_t *off_in, int fd_out, off_t *off_out, size_t n, unsigned int flags);
ssize_t __real_splice(int fd_in, off_t *off_in, int fd_out, off_t *off_out, size_t n, unsigned int flags);

ssize_t real_write(int fd, const void *buf, size_t n) { return __real_write(fd, buf, n); }
ssize_t real_read(int fd, void *buf, size_t n) { return __real_read(fd, buf, n); }
off_t real_lseek(int fd, off_t off, int wh) { return __real_lseek(fd, off, wh); }
ssize_t real_pwrite(int fd, const void *buf, size_t n, off_t off) { return __real_pwrite(fd, buf, n, off); }
ssize_t real_pread(int fd, void *buf, size_t n, off_t off) { return __real_pread(fd, buf, n, off); }
int real_ftruncate(int fd, off_t len) { return __real_ftruncate(fd, len); }

void io_register(int fd, const char *c) {
    if(fd >= 0 && fd < MAXFD) {
        strncpy(cls[fd], c, sizeof(cls[fd]) - 1);
        cls[fd][sizeof(cls[fd]) - 1] = 0;
    }
}
void io_unregister(int fd) { if(fd >= 0 && fd < MAXFD) cls[fd][0] = 0; }
void io_set_log(int on) { io_log = on; }

int io_add_fault(const char *c, const char *sys, long k, int kind, long arg) {
    if(nfaults >= MAXFAULT) return 0;
    struct fault *f = &faults[nfaults++];
    memset(f, 0, sizeof(*f));
    strncpy(f->cls, c, sizeof(f->cls) - 1);
    strncpy(f->sys, sys, sizeof(f->sys) - 1);
    f->k = k; f->kind = kind; f->arg = arg;
    return 1;
}

/* ---- write watch: every write on class `wcls` must lie inside the allowed extents */
static char wcls[12];
static long long wext[4096][2];
static int nwext = 0;
long io_oob_count = 0;
long io_watch_writes = 0;
void io_watch(const char *c, const char *spec) {
    strncpy(wcls, c ? c : "", sizeof(wcls) - 1);
    nwext = 0;
    io_oob_count = 0;
    io_watch_writes = 0;
    const char *p = spec;
    while(p && *p && nwext < 4096) {
        char *e;
        long long a = strtoll(p, &e, 10);
        if(*e != '-') break;
        long long b = strtoll(e + 1, &e, 10);
        wext[nwext][0] = a; wext[nwext][1] = b; nwext++;
        if(*e == ',') e++;
        p = e;
    }
}
static void watch_check(const char *c, long long off, long long n, const char *via) {
    if(!wcls[0] || strcmp(c, wcls) || n <= 0) return;
    io_watch_writes++;
    for(int i = 0; i < nwext; i++)
        if(off >= wext[i][0] && off + n - 1 <= wext[i][1]) return;
    if(io_oob_count++ < 5)
        zh_log("{\"ev\":\"oob_write\",\"cls\":\"%s\",\"off\":%lld,\"len\":%lld,\"via\":\"%s\"}", c, off, n, via);
}

static const char *klass(int fd) {
    if(fd >= 0 && fd < MAXFD && cls[fd][0]) return cls[fd];
    return NULL;
}

static long count(const char *c, const char *sys) {
    for(int i = 0; i < ncounters; i++)
        if(!strcmp(counters[i].cls, c) && !strcmp(counters[i].sys, sys))
            return ++counters[i].n;
    if(ncounters < 64) {
        strncpy(counters[ncounters].cls, c, 11);
        strncpy(counters[ncounters].sys, sys, 11);
        counters[ncounters].n = 1;
        ncounters++;
        return 1;
    }
    return 0;
}

void io_dump_counts(void) {
    for(int i = 0; i < ncounters; i++)
        zh_log("{\"ev\":\"iocount\",\"cls\":\"%s\",\"sys\":\"%s\",\"n\":%ld}", counters[i].cls, counters[i].sys, counters[i].n);
}

static struct fault *match(const char *c, const char *sys, long n) {
    for(int i = 0; i < nfaults; i++) {
        struct fault *f = &faults[i];
        if(!f->fired && f->k == n && !strcmp(f->cls, c) && !strcmp(f->sys, sys)) {
            f->fired = 1;
            return f;
        }
    }
    return NULL;
}

static int fault_errno(int kind) {
    switch(kind) { case 1: return EIO; case 2: return ENOSPC; case 3: return EINTR; }
    return EIO;
}

ssize_t __wrap_read(int fd, void *buf, size_t n) {
    const char *c = klass(fd);
    if(!c) return __real_read(fd, buf, n);
    long k = count(c, "read");
    off_t off = io_log ? __real_lseek(fd, 0, SEEK_CUR) : 0;
    struct fault *f = match(c, "read", k);
    ssize_t r;
    if(f) {
        if(f->kind <= 3) { r = -1; errno = fault_errno(f->kind); }
        else if(f->kind == 5) r = 0;
        else if(f->kind == 4) { size_t m = (size_t)f->arg < n ? (size_t)f->arg : n; r = __real_read(fd, buf, m); }
        else r = __real_read(fd, buf, n);
        int e = errno;
        zh_log("{\"ev\":\"io\",\"INJECTED\":%d,\"sys\":\"read\",\"cls\":\"%s\",\"k\":%ld,\"len\":%zu,\"ret\":%zd}", f->kind, c, k, n, r);
        errno = e;
        return r;
    }
    r = __real_read(fd, buf, n);
    if(io_log) { int e = errno; zh_log("{\"ev\":\"io\",\"sys\":\"read\",\"cls\":\"%s\",\"k\":%ld,\"off\":%lld,\"len\":%zu,\"ret\":%zd}", c, k, (long long)off, n, r); errno = e; }
    return r;
}

ssize_t __wrap___read_chk(int fd, void *buf, size_t n, size_t buflen) { (void)buflen; return __wrap_read(fd, buf, n); }

ssize_t __wrap_write(int fd, const void *buf, size_t n) {
    const char *c = klass(fd);
    if(!c) return __real_write(fd, buf, n);
    long k = count(c, "write");
    off_t off = __real_lseek(fd, 0, SEEK_CUR);
    struct fault *f = match(c, "write", k);
    ssize_t r;
    if(f) {
        if(f->kind == 6) {
            size_t j = f->arg >= 0 ? (size_t)f->arg : (f->arg == -1 ? n / 2 : (n ? n - 1 : 0));
            if(j > n) j = n;
            ssize_t w = j ? __real_write(fd, buf, j) : 0;
            zh_log("{\"ev\":\"io\",\"INJECTED\":6,\"sys\":\"write\",\"cls\":\"%s\",\"k\":%ld,\"off\":%lld,\"len\":%zu,\"ret\":%zd,\"kill\":1}", c, k, (long long)off, n, w);
            _exit(77);
        }
        if(f->kind <= 3) { r = -1; errno = fault_errno(f->kind); }
        else if(f->kind == 4) { size_t m = (size_t)f->arg < n ? (size_t)f->arg : n; r = m ? __real_write(fd, buf, m) : 0; }
        else r = __real_write(fd, buf, n);
        int e = errno;
        zh_log("{\"ev\":\"io\",\"INJECTED\":%d,\"sys\":\"write\",\"cls\":\"%s\",\"k\":%ld,\"off\":%lld,\"len\":%zu,\"ret\":%zd}", f->kind, c, k, (long long)off, n, r);
        errno = e;
        return r;
    }
    r = __real_write(fd, buf, n);
    if(r > 0) { int e = errno; watch_check(c, off, r, "write"); errno = e; }
    if(io_log) { int e = errno; zh_log("{\"ev\":\"io\",\"sys\":\"write\",\"cls\":\"%s\",\"k\":%ld,\"off\":%lld,\"len\":%zu,\"ret\":%zd}", c, k, (long long)off, n, r); errno = e; }
    return r;
}

off_t __wrap_lseek(int fd, off_t off, int wh) {
    const char *c = klass(fd);
    if(!c) return __real_lseek(fd, off, wh);
    long k = count(c, "lseek");
    struct fault *f = match(c, "lseek", k);
    if(f) {
        zh_log("{\"ev\":\"io\",\"INJECTED\":%d,\"sys\":\"lseek\",\"cls\":\"%s\",\"k\":%ld,\"ret\":-1}", f->kind, c, k);
        errno = fault_errno(f->kind);
        return -1;
    }
    return __real_lseek(fd, off, wh);
}
off_t __wrap_lseek64(int fd, off_t off, int wh) { return __wrap_lseek(fd, off, wh); }

int __wrap_ftruncate(int fd, off_t len) {
    const char *c = klass(fd);
    if(c) {
        long kf = count(c, "ftrunc");
        struct fault *f = match(c, "ftrunc", kf);
        if(f) {
            zh_log("{\"ev\":\"io\",\"INJECTED\":%d,\"sys\":\"ftrunc\",\"cls\":\"%s\",\"k\":%ld,\"ret\":-1}", f->kind, c, kf);
            errno = fault_errno(f->kind);
            return -1;
        }
    }
    if(c) {
        if(wcls[0] && !strcmp(c, wcls)) { if(io_oob_count++ < 5) zh_log("{\"ev\":\"oob_write\",\"cls\":\"%s\",\"via\":\"ftruncate\",\"len\":%lld}", c, (long long)len); }
        count(c, "ftruncate");
        zh_log("{\"ev\":\"io\",\"sys\":\"ftruncate\",\"cls\":\"%s\",\"len\":%lld}", c, (long long)len);
    }
    return __real_ftruncate(fd, len);
}
int __wrap_ftruncate64(int fd, off_t len) { return __wrap_ftruncate(fd, len); }

int __wrap_mkstemp(char *t) {
    int fd = __real_mkstemp(t);
    if(fd >= 0) io_register(fd, "temp");
    zh_log("{\"ev\":\"io\",\"sys\":\"mkstemp\",\"ret\":%d}", fd);
    return fd;
}
int __wrap_mkstemp64(char *t) { return __wrap_mkstemp(t); }

int __wrap_close(int fd) {
    io_unregister(fd);
    return __real_close(fd);
}

/* Not used by the tree today; wrapped so a refactor stays observable. */
ssize_t __wrap_pread(int fd, void *buf, size_t n, off_t off) {
    const char *c = klass(fd);
    if(c) { long k = count(c, "read"); if(io_log) zh_log("{\"ev\":\"io\",\"sys\":\"pread\",\"cls\":\"%s\",\"k\":%ld,\"off\":%lld,\"len\":%zu}", c, k, (long long)off, n); }
    return __real_pread(fd, buf, n, off);
}
ssize_t __wrap_pread64(int fd, void *buf, size_t n, off_t off) { return __wrap_pread(fd, buf, n, off); }
ssize_t __wrap_pwrite(int fd, const void *buf, size_t n, off_t off) {
    const char *c = klass(fd);
    if(c) watch_check(c, off, n, "pwrite");
    if(c) { long k = count(c, "write"); zh_log("{\"ev\":\"io\",\"sys\":\"write\",\"via\":\"pwrite\",\"cls\":\"%s\",\"k\":%ld,\"off\":%lld,\"len\":%zu,\"ret\":%zu}", c, k, (long long)off, n, n); }
    return __real_pwrite(fd, buf, n, off);
}
ssize_t __wrap_pwrite64(int fd, const void *buf, size_t n, off_t off) { return __wrap_pwrite(fd, buf, n, off); }
ssize_t __wrap_readv(int fd, const struct iovec *iov, int cnt) {
    const char *c = klass(fd);
    if(c) count(c, "read");
    return __real_readv(fd, iov, cnt);
}
ssize_t __wrap_writev(int fd, const struct iovec *iov, int cnt) {
    const char *c = klass(fd);
    if(c) {
        long k = count(c, "write");
        off_t off = __real_lseek(fd, 0, SEEK_CUR);
        size_t n = 0;
        for(int i = 0; i < cnt; i++) n += iov[i].iov_len;
        watch_check(c, off, n, "writev");
        zh_log("{\"ev\":\"io\",\"sys\":\"write\",\"via\":\"writev\",\"cls\":\"%s\",\"k\":%ld,\"off\":%lld,\"len\":%zu,\"ret\":%zu}", c, k, (long long)off, n, n);
    }
    return __real_writev(fd, iov, cnt);
}

/* Kernel-side copies: not used by the tree today.  A refactor that moves bytes with them is counted and faulted as writes on the
 * receiving descriptor's class (error kinds fail the call; the short kind transfers only that many bytes). */
static ssize_t kcopy(const char *via, int out_fd, size_t n, ssize_t (*doit)(size_t m, void *ctx), void *ctx) {
    const char *c = klass(out_fd);
    if(!c) return doit(n, ctx);
    long k = count(c, "write");
    off_t off = __real_lseek(out_fd, 0, SEEK_CUR);
    struct fault *f = match(c, "write", k);
    ssize_t r;
    if(f && f->kind != 6) {
        if(f->kind <= 3) { r = -1; errno = fault_errno(f->kind); }
        else if(f->kind == 4) { size_t m = (size_t)f->arg < n ? (size_t)f->arg : n; r = m ? doit(m, ctx) : 0; }
        else r = doit(n, ctx);
        int e = errno;
        zh_log("{\"ev\":\"io\",\"INJECTED\":%d,\"sys\":\"write\",\"via\":\"%s\",\"cls\":\"%s\",\"k\":%ld,\"off\":%lld,\"len\":%zu,\"ret\":%zd}", f->kind, via, c, k, (long long)off, n, r);
        errno = e;
        return r;
    }
    r = doit(n, ctx);
    if(r > 0) { int e = errno; watch_check(c, off, r, via); errno = e; }
    { int e = errno; zh_log("{\"ev\":\"io\",\"sys\":\"write\",\"via\":\"%s\",\"cls\":\"%s\",\"k\":%ld,\"off\":%lld,\"len\":%zu,\"ret\":%zd}", via, c, k, (long long)off, n, r); errno = e; }
    return r;
}
struct sf_ctx { int out_fd, in_fd; off_t *off; };
static ssize_t do_sendfile(size_t m, void *v) { struct sf_ctx *x = v; return __real_sendfile(x->out_fd, x->in_fd, x->off, m); }
ssize_t __wrap_sendfile(int out_fd, int in_fd, off_t *off, size_t n) { struct sf_ctx x = {out_fd, in_fd, off}; return kcopy("sendfile", out_fd, n, do_sendfile, &x); }
ssize_t __wrap_sendfile64(int out_fd, int in_fd, off_t *off, size_t n) { return __wrap_sendfile(out_fd, in_fd, off, n); }
struct cfr_ctx { int fd_in; off_t *off_in; int fd_out; off_t *off_out; unsigned int flags; int splice; };
static ssize_t do_cfr(size_t m, void *v) {
    struct cfr_ctx *x = v;
    return x->splice ? __real_splice(x->fd_in, x->off_in, x->fd_out, x->off_out, m, x->flags) : __real_copy_file_range(x->fd_in, x->off_in, x->fd_out, x->off_out, m, x->flags);
}
ssize_t __wrap_copy_file_range(int fd_in, off_t *off_in, int fd_out, off_t *off_out, size_t n, unsigned int flags) {
    struct cfr_ctx x = {fd_in, off_in, fd_out, off_out, flags, 0};
    return kcopy("copy_file_range", fd_out, n, do_cfr, &x);
}
ssize_t __wrap_splice(int fd_in, off_t *off_in, int fd_out, off_t *off_out, size_t n, unsigned int flags) {
    struct cfr_ctx x = {fd_in, off_in, fd_out, off_out, flags, 1};
    return kcopy("splice", fd_out, n, do_cfr, &x);
}
