/* C20: guard-page enumeration of the compressed-integer codec.
 *
 *   h_compint <mode> <shard> <nshards> [asan]
 * modes: short   all byte strings of length 0..3 (exhaustive), cursors 0,1,7
 *        short4  all byte strings of length 4 (thorough tier)
 *        long    lengths 8..11, every value in the last three positions over fixed prefixes
 *        enc     encode/decode all v < 2^21, 2^k, 2^k +/- 1, random 64-bit
 *        beyond  cursor already past the limit (a caller that skipped a declared size without checking it): must fail without
 *                touching memory; the decoder's pointer then lies inside the inaccessible page
 *        sample  prints "hex cursor -> ok val consumed" lines for a PRNG sample (cross-checked in Python)
 *
 * Buffer convention of the real callers: the decoder receives ptr = buf+cursor,
 * *length = cursor, max_length = total size of buf.  buf is placed flush
 * against a PROT_NONE page, so any read past its end faults; the fault is
 * caught and recorded with the input that caused it. */
#define _GNU_SOURCE
#include <fcntl.h>
#include <setjmp.h>
#include <signal.h>
#include <stdint.h>
#include <stdio.h>
#include <stdlib.h>
#include <string.h>
#include <sys/mman.h>
#include <unistd.h>
#include <zck.h>
#include "zck_private.h"

typedef unsigned __int128 u128;
static sigjmp_buf jb;
static volatile int in_call = 0;
static char *page;      /* two pages; second is PROT_NONE */
static long pagesz;
static zckCtx *zck;
static int use_malloc = 0;

static unsigned long long n_dec = 0, n_ok = 0, n_fail = 0, n_viol = 0, n_fault = 0, n_enc = 0;
static int printed = 0;

static void on_segv(int sig) {
    (void)sig;
    if(in_call) siglongjmp(jb, 1);
    _exit(99);
}

static void reset_err(void) {
    if(zck->error_state) {
        free(zck->msg);
        zck->msg = NULL;
        zck->error_state = 0;
    }
}

static void report(const char *what, const unsigned char *w, int L, int cursor, int isint, unsigned long long got, size_t gotlen) {
    n_viol++;
    if(printed++ < 40) {
        printf("{\"viol\":\"%s\",\"fn\":\"%s\",\"cursor\":%d,\"L\":%d,\"bytes\":\"", what, isint ? "compint_to_int" : "compint_to_size", cursor, L);
        for(int i = 0; i < L; i++) printf("%02x", w[i]);
        printf("\",\"got\":%llu,\"gotlen\":%zu}\n", got, gotlen);
    }
}

/* exact expectation */
static int expect(const unsigned char *w, int L, int isint, unsigned long long *v, int *used) {
    u128 acc = 0;
    for(int i = 0;; i++) {
        if(i >= L) return 0;          /* unterminated inside the buffer */
        if(i >= 10) return 0;         /* longer than ten bytes */
        acc |= ((u128)(w[i] & 0x7f)) << (7 * i);
        if(w[i] & 0x80) {
            if(acc >> 64) return 0;   /* does not fit 64 bits */
            if(isint && acc > 0x7fffffffULL) return 0;
            *v = (unsigned long long)acc;
            *used = i + 1;
            return 1;
        }
    }
}

static void one(const unsigned char *w, int L, int cursor, int isint) {
    int limit = cursor + L;
    char *buf;
    char *heap = NULL;
    if(use_malloc) {
        heap = malloc(limit ? limit : 1);
        buf = heap;
        if(!limit) { /* zero-size buffer: give the decoder a pointer one past a 1-byte block */ buf = heap + 1; }
    } else {
        buf = page + pagesz - limit;
    }
    for(int i = 0; i < cursor; i++) buf[i] = 0x55;
    memcpy(buf + cursor, w, L);
    unsigned long long ev = 0;
    int eused = 0;
    int eok = expect(w, L, isint, &ev, &eused);
    size_t length = cursor;
    size_t val = 0;
    int ival = 0;
    int rc;
    n_dec++;
    in_call = 1;
    if(sigsetjmp(jb, 1) == 0) {
        if(isint) rc = compint_to_int(zck, &ival, buf + cursor, &length, limit);
        else rc = compint_to_size(zck, &val, buf + cursor, &length, limit);
        in_call = 0;
    } else {
        in_call = 0;
        n_fault++;
        report("read-past-end-of-buffer", w, L, cursor, isint, 0, 0);
        reset_err();
        if(heap) free(heap);
        return;
    }
    unsigned long long got = isint ? (unsigned long long)(long long)ival : (unsigned long long)val;
    if(rc) {
        n_ok++;
        if(!eok) report("accepted-invalid", w, L, cursor, isint, got, length);
        else if(got != ev) report("wrong-value", w, L, cursor, isint, got, length);
        else if(length != (size_t)(cursor + eused)) report("wrong-consumed-length", w, L, cursor, isint, got, length);
    } else {
        n_fail++;
        if(eok) report("rejected-valid", w, L, cursor, isint, got, length);
    }
    reset_err();
    if(heap) free(heap);
}

static void enc_one(unsigned long long v) {
    char out[16];
    memset(out, 0xAA, sizeof(out));
    size_t len = 0;
    compint_from_size(out, (size_t)v, &len);
    n_enc++;
    if(len < 1 || len > 10 || (unsigned char)out[len] != 0xAA) { report("encode-length", (unsigned char *)out, 11, 0, 0, v, len); return; }
    size_t back = 0, used = 0;
    int rc = compint_to_size(zck, &back, out, &used, len);
    if(!rc || back != v || used != len) report("roundtrip", (unsigned char *)out, (int)len, 0, 0, back, used);
    reset_err();
    /* the int encoder: values that fit must round-trip, negatives must be refused */
    if(v <= 0x7fffffffULL) {
        char o2[16];
        size_t l2 = 0;
        int r2 = compint_from_int(zck, o2, (int)v, &l2);
        int b2 = 0;
        size_t u2 = 0;
        if(!r2 || l2 != len || memcmp(o2, out, len) || !compint_to_int(zck, &b2, o2, &u2, l2) || (unsigned long long)b2 != v || u2 != l2)
            report("roundtrip-int", (unsigned char *)o2, (int)l2, 0, 1, (unsigned long long)b2, u2);
        reset_err();
    }
}

static uint64_t xs = 0x9E3779B97F4A7C15ULL;
static uint64_t rnd(void) { xs ^= xs << 13; xs ^= xs >> 7; xs ^= xs << 17; return xs; }

int main(int argc, char **argv) {
    if(argc < 4) return 3;
    const char *mode = argv[1];
    int shard = atoi(argv[2]), nsh = atoi(argv[3]);
    use_malloc = argc > 4 && !strcmp(argv[4], "asan");
    unsigned long long seed = argc > 5 ? strtoull(argv[5], NULL, 10) : 1;
    xs ^= seed * 0x2545F4914F6CDD1DULL + shard;
    zck_set_log_level(ZCK_LOG_NONE);
    if(getenv("HC_DDEBUG")) {
        /* the most verbose log level (what the tools set with -vvvv), output discarded: message formatting must not touch the buffer either */
        int nfd = open("/dev/null", O_WRONLY);
        if(nfd >= 0) { zck_set_log_fd(nfd); zck_set_log_level(ZCK_LOG_DDEBUG); }
    }
    zck = zck_create();
    pagesz = sysconf(_SC_PAGESIZE);
    page = mmap(NULL, 2 * pagesz, PROT_READ | PROT_WRITE, MAP_PRIVATE | MAP_ANONYMOUS, -1, 0);
    mprotect(page + pagesz, pagesz, PROT_NONE);
    struct sigaction sa;
    memset(&sa, 0, sizeof(sa));
    sa.sa_handler = on_segv;
    sa.sa_flags = SA_NODEFER;
    if(!use_malloc) { sigaction(SIGSEGV, &sa, NULL); sigaction(SIGBUS, &sa, NULL); }
    static const int cursors[] = {0, 1, 7};
    unsigned char w[16];
    if(!strcmp(mode, "short")) {
        if(shard == 0) for(int ci = 0; ci < 3; ci++) for(int f = 0; f < 2; f++) one(w, 0, cursors[ci], f);
        for(int a = shard; a < 256; a += nsh) {
            w[0] = a;
            for(int ci = 0; ci < 3; ci++) for(int f = 0; f < 2; f++) one(w, 1, cursors[ci], f);
            for(int b = 0; b < 256; b++) {
                w[1] = b;
                for(int ci = 0; ci < 3; ci++) for(int f = 0; f < 2; f++) one(w, 2, cursors[ci], f);
                for(int c = 0; c < 256; c++) {
                    w[2] = c;
                    for(int f = 0; f < 2; f++) one(w, 3, cursors[(a + b + c) % 3], f);
                }
            }
        }
    } else if(!strcmp(mode, "short4")) {
        /* thorough tier: every byte string of length 4 as well (2^32 strings), one cursor and one decoder per string */
        for(int a = shard; a < 256; a += nsh) {
            w[0] = a;
            for(int b = 0; b < 256; b++) {
                w[1] = b;
                for(int c = 0; c < 256; c++) {
                    w[2] = c;
                    for(int d = 0; d < 256; d++) {
                        w[3] = d;
                        one(w, 4, cursors[(a + b + c + d) % 3], (c + d) & 1);
                    }
                }
            }
        }
    } else if(!strcmp(mode, "long")) {
        static const unsigned char fill[] = {0x00, 0x7f, 0x01, 0x55};
        for(int L = 8; L <= 11; L++)
            for(int pf = 0; pf < 4; pf++) {
                memset(w, fill[pf], sizeof(w));
                for(int a = shard; a < 256; a += nsh) {
                    w[L - 3] = a;
                    for(int b = 0; b < 256; b++) {
                        w[L - 2] = b;
                        for(int c = 0; c < 256; c++) {
                            w[L - 1] = c;
                            one(w, L, cursors[(a + c) % 3], (b + c) & 1);
                        }
                    }
                }
            }
    } else if(!strcmp(mode, "longq")) {
        /* quick variant: last two positions exhaustive, third-last sampled */
        static const unsigned char fill[] = {0x00, 0x7f, 0x01};
        for(int L = 8; L <= 11; L++)
            for(int pf = 0; pf < 3; pf++) {
                memset(w, fill[pf], sizeof(w));
                for(int a = shard; a < 256; a += nsh * 8) {
                    w[L - 3] = a;
                    for(int b = 0; b < 256; b++) {
                        w[L - 2] = b;
                        for(int c = 0; c < 256; c++) {
                            w[L - 1] = c;
                            one(w, L, cursors[(a + c) % 3], (b + c) & 1);
                        }
                    }
                }
            }
    } else if(!strcmp(mode, "far")) {
        /* the cursor convention with positions far into a (notional) huge buffer: ptr = base + cursor, *length = cursor, max_length =
         * cursor + L.  Only the L bytes at ptr exist (flush against the guard page); results must not depend on the cursor's magnitude */
        static const unsigned long long bases[] = {0xfffffff0ULL, 0xffffffffULL, 0x100000000ULL, 0x100000005ULL, 0x200000000ULL, 0x7fffffffffffff00ULL};
        for(unsigned bi = 0; bi < sizeof(bases) / sizeof(bases[0]); bi++)
            for(int L = 0; L <= 11; L++)
                for(int rep = 0; rep < 400; rep++) {
                    if((int)((bi * 12 + L + rep) % nsh) != shard) continue;
                    for(int k = 0; k < L; k++) { unsigned r = rnd(); w[k] = (r % 3 == 0) ? (r >> 8) : ((r >> 8) & 0x7f); }
                    if(L && (rnd() % 3)) w[L - 1] |= 0x80;
                    int isint = rep & 1;
                    char *buf = page + pagesz - L;
                    memcpy(buf, w, L);
                    unsigned long long ev = 0; int eused = 0;
                    int eok = expect(w, L, isint, &ev, &eused);
                    size_t length = bases[bi], val = 0;
                    int ival = 0, rc = -1;
                    n_dec++;
                    in_call = 1;
                    if(sigsetjmp(jb, 1) == 0) {
                        rc = isint ? compint_to_int(zck, &ival, buf, &length, bases[bi] + L) : compint_to_size(zck, &val, buf, &length, bases[bi] + L);
                        in_call = 0;
                        unsigned long long got = isint ? (unsigned long long)(long long)ival : (unsigned long long)val;
                        if(rc) {
                            n_ok++;
                            if(!eok) report("accepted-invalid", w, L, -1, isint, got, length);
                            else if(got != ev) report("wrong-value", w, L, -1, isint, got, length);
                            else if(length != bases[bi] + eused) report("wrong-consumed-length", w, L, -1, isint, got, length);
                        } else {
                            n_fail++;
                            if(eok) report("rejected-valid-at-far-cursor", w, L, -1, isint, got, length);
                        }
                    } else {
                        in_call = 0;
                        n_fault++;
                        report("read-past-end-of-buffer", w, L, -1, isint, 0, 0);
                    }
                    reset_err();
                }
        /* ... and a limit that leaves k*2^32 + r bytes of room behind the cursor (r smaller than the number): the number is complete, so it
         * must decode, however the room is computed */
        for(int used = 1; used <= 10; used++)
            for(int r_ = 0; r_ < used; r_++)
                for(int k = 1; k <= 3; k += 2)
                    for(int rep = 0; rep < 6; rep++) {
                        if((used + r_ + k + rep) % nsh != shard) continue;
                        for(int q = 0; q < used; q++) w[q] = (rnd() >> 8) & 0x7f;
                        w[used - 1] |= 0x80;
                        if(used == 10) w[9] = 0x81;                     /* keep the value inside 64 bits */
                        int isint = rep & 1;
                        if(isint && used > 4) { for(int q = 4; q < used - 1; q++) w[q] = 0; w[used - 1] = 0x80; w[3] &= 0x07; }
                        unsigned long long ev = 0; int eused = 0;
                        int eok = expect(w, used, isint, &ev, &eused);
                        char *buf = page + pagesz - used;
                        memcpy(buf, w, used);
                        size_t cursor = rep * 1000, val = 0, length = cursor;
                        size_t limit = cursor + ((size_t)k << 32) + r_;
                        int ival = 0, rc = -1;
                        n_dec++;
                        in_call = 1;
                        if(sigsetjmp(jb, 1) == 0) {
                            rc = isint ? compint_to_int(zck, &ival, buf, &length, limit) : compint_to_size(zck, &val, buf, &length, limit);
                            in_call = 0;
                            unsigned long long got = isint ? (unsigned long long)(long long)ival : (unsigned long long)val;
                            if(rc && eok && (got != ev || length != cursor + eused)) report("wrong-value", w, used, r_, isint, got, length);
                            else if(rc && !eok) report("accepted-invalid", w, used, r_, isint, got, length);
                            else if(!rc && eok) report("rejected-valid-with-room-beyond-4GiB", w, used, r_, isint, got, length);
                            if(rc) n_ok++; else n_fail++;
                        } else {
                            in_call = 0;
                            n_fault++;
                            report("read-past-end-of-buffer", w, used, r_, isint, 0, 0);
                        }
                        reset_err();
                    }
    } else if(!strcmp(mode, "beyond")) {
        static const long over[] = {1, 2, 9, 10, 11, 100, 4000};
        for(int limit = 0; limit <= 12; limit++)
            for(unsigned oi = 0; oi < sizeof(over) / sizeof(over[0]); oi++)
                for(int f = 0; f < 2; f++) {
                    if((limit * 14 + (int)oi * 2 + f) % nsh != shard) continue;
                    char *buf = page + pagesz - limit;
                    memset(buf, 0x85, limit);            /* every byte a complete one-byte number: a decoder that looks finds one */
                    size_t length = limit + over[oi], val = 0;
                    int ival = 0, rc = -1;
                    n_dec++;
                    in_call = 1;
                    if(sigsetjmp(jb, 1) == 0) {
                        rc = f ? compint_to_int(zck, &ival, buf + length, &length, limit) : compint_to_size(zck, &val, buf + length, &length, limit);
                        in_call = 0;
                        if(rc) { n_ok++; report("accepted-with-cursor-past-limit", (unsigned char *)buf, limit, (int)(limit + over[oi]), f, f ? (unsigned long long)ival : val, length); }
                        else n_fail++;
                    } else {
                        in_call = 0;
                        n_fault++;
                        report("read-past-end-of-buffer", (unsigned char *)buf, limit, (int)(limit + over[oi]), f, 0, 0);
                    }
                    reset_err();
                }
    } else if(!strcmp(mode, "enc")) {
        for(unsigned long long v = shard; v < (1ULL << 21); v += nsh) enc_one(v);
        if(shard == 0) {
            for(int k = 0; k < 64; k++) {
                enc_one(1ULL << k);
                enc_one((1ULL << k) - 1);
                enc_one((1ULL << k) + 1);
            }
            enc_one(~0ULL);
        }
        long nr = atol(argc > 6 ? argv[6] : "100000");
        for(long i = 0; i < nr; i++) {
            unsigned long long v = rnd();
            enc_one(v >> (rnd() % 64));
        }
    } else if(!strcmp(mode, "sample")) {
        long nr = atol(argc > 6 ? argv[6] : "2000");
        for(long i = 0; i < nr; i++) {
            int L = rnd() % 13;
            for(int k = 0; k < L; k++) {
                unsigned r = rnd();
                w[k] = (r % 4 == 0) ? (r >> 8) : ((r >> 8) & 0x7f);  /* mostly continuation bytes */
            }
            if(L && (rnd() % 3)) w[L - 1] |= 0x80;
            int cursor = cursors[rnd() % 3];
            int isint = rnd() & 1;
            char *buf = page + pagesz - (cursor + L);
            memset(buf, 0x55, cursor);
            memcpy(buf + cursor, w, L);
            size_t length = cursor, val = 0;
            int ival = 0, rc = -1;
            in_call = 1;
            if(sigsetjmp(jb, 1) == 0) {
                rc = isint ? compint_to_int(zck, &ival, buf + cursor, &length, cursor + L) : compint_to_size(zck, &val, buf + cursor, &length, cursor + L);
            }
            in_call = 0;
            printf("S %d %d ", isint, cursor);
            for(int k = 0; k < L; k++) printf("%02x", w[k]);
            printf(" %d %llu %zu\n", rc, isint ? (unsigned long long)(long long)ival : (unsigned long long)val, length);
            reset_err();
        }
    } else return 3;
    printf("{\"summary\":1,\"mode\":\"%s\",\"shard\":%d,\"decodes\":%llu,\"accepted\":%llu,\"rejected\":%llu,\"faults\":%llu,\"encodes\":%llu,\"violations\":%llu}\n",
           mode, shard, n_dec, n_ok, n_fail, n_fault, n_enc, n_viol);
    return 0;
}
