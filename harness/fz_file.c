/* libFuzzer target for C03: byte 0 bit 0 = re-seal the header checksum so
 * the parsers behind the gate are reached, byte 1 selects an API program, the
 * rest is the file image.  No oracle: ASan/UBSan and libFuzzer's timeout are
 * the monitors. */
#define _GNU_SOURCE
#include <fcntl.h>
#include <stdint.h>
#include <stdio.h>
#include <stdlib.h>
#include <string.h>
#include <sys/mman.h>
#include <unistd.h>
#include <zck.h>
#include "zck_private.h"

static int fd1 = -1, fd2 = -1;

static void put(int fd, const uint8_t *p, size_t n) {
    if(ftruncate(fd, 0) < 0) abort();
    if(n && pwrite(fd, p, n, 0) != (ssize_t)n) abort();
    lseek(fd, 0, SEEK_SET);
}

static int ci(const uint8_t *b, size_t len, size_t *pos, uint64_t *v) {
    *v = 0;
    for(int i = 0; i < 10; i++) {
        if(*pos >= len) return 0;
        uint8_t c = b[(*pos)++];
        *v |= (uint64_t)(c & 0x7f) << (7 * i);
        if(c & 0x80) return 1;
    }
    return 0;
}

static void reseal(uint8_t *img, size_t len) {
    if(len < 8) return;
    size_t pos = 5;
    uint64_t ht, hs;
    if(!ci(img, len, &pos, &ht) || ht > 3) return;
    if(!ci(img, len, &pos, &hs)) return;
    size_t ds = ht == 0 ? 20 : ht == 1 ? 32 : ht == 2 ? 64 : 16;
    if(pos + ds > len) return;
    size_t lead = pos + ds;
    size_t avail = len - lead;
    if(hs > avail) return; /* short file: leave it to the reader */
    zckCtx *z = zck_create();
    zckHashType t = {0};
    zckHash h = {0};
    if(hash_setup(z, &t, (int)ht) && hash_init(z, &h, &t)) {
        hash_update(z, &h, "\0ZCK1", 5);
        hash_update(z, &h, (const char *)img + 5, pos - 5);
        if(hs) hash_update(z, &h, (const char *)img + lead, hs);
        char *d = hash_finalize(z, &h);
        if(d) { memcpy(img + pos, d, ds); free(d); }
    }
    hash_close(&h);
    zck_free(&z);
}

int LLVMFuzzerInitialize(int *argc, char ***argv) {
    (void)argc; (void)argv;
    fd1 = memfd_create("fz1", 0);
    fd2 = memfd_create("fz2", 0);
    zck_set_log_level(ZCK_LOG_NONE);
    if(getenv("FZ_DEBUG_LOG")) {
        /* message formatting sees the hostile bytes too (what the tools do with -vv); output discarded */
        int nfd = open("/dev/null", O_WRONLY);
        if(nfd >= 0) { zck_set_log_fd(nfd); zck_set_log_level(ZCK_LOG_DEBUG); }
    }
    return 0;
}

static void drain(zckCtx *z, size_t bs) {
    char *b = malloc(bs);
    size_t total = 0;
    ssize_t r;
    while((r = zck_read(z, b, bs)) > 0) {
        total += r;
        if(total > (256u << 20)) break;
    }
    free(b);
}

int LLVMFuzzerTestOneInput(const uint8_t *data, size_t size) {
    if(size < 3) return 0;
    uint8_t mode = data[0], prog = data[1];
    size_t len = size - 2;
    uint8_t *img = malloc(len);
    memcpy(img, data + 2, len);
    if(mode & 1) reseal(img, len);
    put(fd1, img, len);
    zckCtx *z = zck_create();
    bool ok;
    if(mode & 2) {
        ok = zck_init_adv_read(z, fd1) && zck_read_lead(z) && zck_read_header(z);
    } else {
        ok = zck_init_read(z, fd1);
    }
    if(!ok) { zck_free(&z); free(img); return 0; }
    switch(prog % 7) {
    case 0: {
        zck_get_flags(z); zck_get_length(z); zck_get_data_length(z); zck_get_header_length(z); zck_get_lead_length(z);
        zck_get_chunk_count(z); zck_is_detached_header(z);
        free(zck_get_header_digest(z)); free(zck_get_data_digest(z));
        long n = 0;
        for(zckChunk *c = zck_get_first_chunk(z); c && n < 100000; c = zck_get_next_chunk(c), n++) {
            zck_get_chunk_start(c); zck_get_chunk_size(c); zck_get_chunk_comp_size(c); zck_get_chunk_number(c); zck_get_chunk_valid(c);
            if(n < 64) { free(zck_get_chunk_digest(c)); free(zck_get_chunk_digest_uncompressed(c)); }
        }
        zck_generate_hashdb(z);
        zckRange *r = zck_get_missing_range(z, (int)(prog >> 4) - 1);
        if(r) { free(zck_get_range_char(z, r)); zck_get_range_count(r); zck_range_free(&r); }
        break;
    }
    case 1: {
        long n = 0;
        for(zckChunk *c = zck_get_first_chunk(z); c && n < 48; c = zck_get_next_chunk(c), n++) {
            ssize_t s = zck_get_chunk_size(c), cs = zck_get_chunk_comp_size(c);
            if(s < 0 || cs < 0) continue;
            if(s > (4 << 20)) s = 4 << 20;
            if(cs > (4 << 20)) cs = 4 << 20;
            char *b = malloc(s ? s : 1);
            zck_get_chunk_data(c, b, s);
            free(b);
            b = malloc(cs ? cs : 1);
            zck_get_chunk_comp_data(c, b, cs);
            free(b);
            if(zck_is_error(z)) zck_clear_error(z);
        }
        /* reverse order, dictionary in the middle */
        zckChunk *c = zck_get_chunk(z, (prog >> 3) & 7);
        if(c) { char b[512]; zck_get_chunk_data(c, b, sizeof(b)); }
        break;
    }
    case 2:
        zck_validate_checksums(z);
        drain(z, 4096);
        zck_close(z);
        break;
    case 3: {
        zck_find_valid_chunks(z);
        zck_reset_failed_chunks(z);
        zck_missing_chunks(z); zck_failed_chunks(z);
        zckRange *r = zck_get_missing_range(z, (int)(prog >> 4));
        if(r) { free(zck_get_range_char(z, r)); zck_range_free(&r); }
        zck_validate_data_checksum(z);
        drain(z, 1 + (prog >> 3));
        break;
    }
    case 4:
        drain(z, 1 + (size_t)(prog >> 3) * 37);
        zck_close(z);
        break;
    case 5: {
        /* same image as source and as (writable) target */
        put(fd2, img, len);
        zckCtx *t = zck_create();
        if(zck_init_read(t, fd2)) {
            zck_find_valid_chunks(t);
            zck_reset_failed_chunks(t);
            if(prog & 8) zck_copy_chunks(z, t); else zck_find_matching_chunks(z, t);
            for(zckChunk *c = zck_get_first_chunk(t); c; c = zck_get_next_chunk(c)) zck_get_src_chunk(c);
        }
        zck_free(&t);
        break;
    }
    case 6: {
        /* download path on the hostile header: range, dl context, feed own bytes back */
        zck_find_valid_chunks(z);
        zck_reset_failed_chunks(z);
        zckDL *dl = zck_dl_init(z);
        zckRange *r = zck_get_missing_range(z, 2);
        if(dl && r && zck_dl_set_range(dl, r)) {
            size_t off = zck_get_header_length(z) > 0 ? (size_t)zck_get_header_length(z) : 0;
            if(off < len) {
                size_t n = len - off;
                if(n > 16384) n = 16384;
                char *cp = malloc(n);
                memcpy(cp, img + off, n);
                /* target must be writable: fd1 is */
                zck_write_chunk_cb(cp, 1, n, dl);
                free(cp);
            }
        }
        if(dl) zck_dl_free(&dl);
        if(r) zck_range_free(&r);
        break;
    }
    }
    zck_free(&z);
    free(img);
    return 0;
}
