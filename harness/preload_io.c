/* LD_PRELOAD fault / kill-point shim for the real command-line tools.
 *
 * Descriptors are classified by the path they were opened with:
 *   ZCKV_CLASSES="input=/abs/in.dat;output=out.zck;target=tgt.zck"   (suffix match)
 *   mkstemp -> class "temp";  fd 1 -> class "stdout" when ZCKV_STDOUT=1; fd 0 -> "stdin" when ZCKV_STDIN=1
 * Fault:  ZCKV_FAULT="cls:sys:k:kind:arg"   kind as in zhlog.h
 *         (1 EIO, 2 ENOSPC, 3 EINTR, 4 short with real transfer of arg bytes, 5 read returns 0, 6 kill after arg bytes)
 * Log:    ZCKV_LOG=<file>   one JSON line per injected fault, and the per-(class,syscall) counters at exit.
 * Only read/write/lseek/ftruncate on classified descriptors are counted. */
#define _GNU_SOURCE
#include <dlfcn.h>
#include <errno.h>
#include <fcntl.h>
#include <stdarg.h>
#include <stdio.h>
#include <stdlib.h>
#include <string.h>
#include <sys/types.h>
#include <unistd.h>

#define MAXFD 1024
static char cls[MAXFD][12];
static int inited = 0;
static int logfd = -1;
struct pfault { char cls[12], sys[12]; long k, arg; int kind, fired; };
static struct pfault pf[2] = {{"", "", -1, 0, 0, 0}, {"", "", -1, 0, 0, 0}};
static int f_kind = 0; static long f_arg = 0; static int f_fired = 0;   /* the fault that matched last */
struct counter { char cls[12]; char sys[12]; long n; };
static struct counter counters[64];
static int ncounters = 0;
struct pat { char cls[12]; char suffix[256]; };
static struct pat pats[16];
static int npats = 0;

static ssize_t (*r_read)(int, void *, size_t);
static ssize_t (*r_write)(int, const void *, size_t);
static off_t (*r_lseek)(int, off_t, int);
static int (*r_ftruncate)(int, off_t);
static int (*r_close)(int);
static int (*r_mkstemp)(char *);

static void plog(const char *fmt, ...) {
    if(logfd < 0) return;
    char b[512];
    va_list ap;
    va_start(ap, fmt);
    int n = vsnprintf(b, sizeof(b) - 1, fmt, ap);
    va_end(ap);
    if(n > 0) { if(n > (int)sizeof(b) - 2) n = sizeof(b) - 2; b[n] = '\n'; r_write(logfd, b, n + 1); }
}

static void dump(void) {
    for(int i = 0; i < ncounters; i++)
        plog("{\"ev\":\"iocount\",\"cls\":\"%s\",\"sys\":\"%s\",\"n\":%ld}", counters[i].cls, counters[i].sys, counters[i].n);
    plog("{\"ev\":\"exit\",\"fired\":%d}", f_fired);
}

static void init(void) {
    if(inited) return;
    inited = 1;
    r_read = dlsym(RTLD_NEXT, "read");
    r_write = dlsym(RTLD_NEXT, "write");
    r_lseek = dlsym(RTLD_NEXT, "lseek");
    r_ftruncate = dlsym(RTLD_NEXT, "ftruncate");
    r_close = dlsym(RTLD_NEXT, "close");
    r_mkstemp = dlsym(RTLD_NEXT, "mkstemp");
    const char *lp = getenv("ZCKV_LOG");
    if(lp) {
        int (*r_open)(const char *, int, ...) = dlsym(RTLD_NEXT, "open");
        int fd = r_open(lp, O_WRONLY | O_CREAT | O_APPEND, 0644);
        if(fd >= 0) { logfd = fcntl(fd, F_DUPFD, 240); r_close(fd); }
    }
    const char *c = getenv("ZCKV_CLASSES");
    while(c && *c && npats < 16) {
        const char *eq = strchr(c, '=');
        const char *sc = strchr(c, ';');
        if(!eq) break;
        size_t cl = eq - c, sl = (sc ? (size_t)(sc - eq - 1) : strlen(eq + 1));
        if(cl < 12 && sl < 256) {
            memcpy(pats[npats].cls, c, cl); pats[npats].cls[cl] = 0;
            memcpy(pats[npats].suffix, eq + 1, sl); pats[npats].suffix[sl] = 0;
            npats++;
        }
        if(!sc) break;
        c = sc + 1;
    }
    if(getenv("ZCKV_STDOUT")) strcpy(cls[1], "stdout");
    if(getenv("ZCKV_STDIN")) strcpy(cls[0], "stdin");
    for(int i = 0; i < 2; i++) {
        const char *f = getenv(i ? "ZCKV_FAULT2" : "ZCKV_FAULT");
        if(!f) continue;
        char tmp[128];
        strncpy(tmp, f, sizeof(tmp) - 1); tmp[sizeof(tmp) - 1] = 0;
        char *p1 = strtok(tmp, ":"), *p2 = strtok(NULL, ":"), *p3 = strtok(NULL, ":"), *p4 = strtok(NULL, ":"), *p5 = strtok(NULL, ":");
        if(p1 && p2 && p3 && p4) {
            strncpy(pf[i].cls, p1, 11); strncpy(pf[i].sys, p2, 11);
            pf[i].k = atol(p3); pf[i].kind = atoi(p4); pf[i].arg = p5 ? atol(p5) : 0;
        }
    }
    atexit(dump);
}

static void classify(int fd, const char *path) {
    if(fd < 0 || fd >= MAXFD || !path) return;
    size_t pl = strlen(path);
    for(int i = 0; i < npats; i++) {
        size_t sl = strlen(pats[i].suffix);
        if(sl <= pl && !strcmp(path + pl - sl, pats[i].suffix)) { strcpy(cls[fd], pats[i].cls); return; }
    }
}

static const char *klass(int fd) { return (fd >= 0 && fd < MAXFD && cls[fd][0]) ? cls[fd] : NULL; }

static long count(const char *c, const char *sys) {
    for(int i = 0; i < ncounters; i++)
        if(!strcmp(counters[i].cls, c) && !strcmp(counters[i].sys, sys)) return ++counters[i].n;
    if(ncounters < 64) {
        strncpy(counters[ncounters].cls, c, 11); strncpy(counters[ncounters].sys, sys, 11);
        counters[ncounters].n = 1;
        return counters[ncounters++].n;
    }
    return 0;
}

static int hit(const char *c, const char *sys, long k) {
    for(int i = 0; i < 2; i++) {
        if(pf[i].fired || pf[i].k != k || strcmp(pf[i].cls, c) || strcmp(pf[i].sys, sys)) continue;
        pf[i].fired = 1;
        f_kind = pf[i].kind; f_arg = pf[i].arg; f_fired++;
        return 1;
    }
    return 0;
}

static int ferrno(int kind) { return kind == 2 ? ENOSPC : (kind == 3 ? EINTR : EIO); }

int open(const char *path, int flags, ...) {
    init();
    int (*r_open)(const char *, int, ...) = dlsym(RTLD_NEXT, "open");
    mode_t m = 0;
    if(flags & (O_CREAT | O_TMPFILE)) { va_list ap; va_start(ap, flags); m = va_arg(ap, mode_t); va_end(ap); }
    int fd = r_open(path, flags, m);
    if(fd >= 0 && fd < MAXFD) { cls[fd][0] = 0; classify(fd, path); }
    return fd;
}
int open64(const char *path, int flags, ...) {
    init();
    int (*r_open)(const char *, int, ...) = dlsym(RTLD_NEXT, "open64");
    mode_t m = 0;
    if(flags & (O_CREAT | O_TMPFILE)) { va_list ap; va_start(ap, flags); m = va_arg(ap, mode_t); va_end(ap); }
    int fd = r_open(path, flags, m);
    if(fd >= 0 && fd < MAXFD) { cls[fd][0] = 0; classify(fd, path); }
    return fd;
}
int mkstemp(char *t) {
    init();
    int fd = r_mkstemp(t);
    if(fd >= 0 && fd < MAXFD) strcpy(cls[fd], "temp");
    return fd;
}
int mkstemp64(char *t) { return mkstemp(t); }
int close(int fd) {
    init();
    if(fd >= 0 && fd < MAXFD && fd != logfd) cls[fd][0] = 0;
    if(fd == logfd) return 0;
    return r_close(fd);
}

ssize_t read(int fd, void *buf, size_t n) {
    init();
    const char *c = klass(fd);
    if(!c) return r_read(fd, buf, n);
    long k = count(c, "read");
    if(hit(c, "read", k)) {
        ssize_t r;
        if(f_kind <= 3) { r = -1; errno = ferrno(f_kind); }
        else if(f_kind == 5) r = 0;
        else { size_t m = (size_t)f_arg < n ? (size_t)f_arg : n; r = r_read(fd, buf, m); }
        int e = errno;
        plog("{\"ev\":\"io\",\"INJECTED\":%d,\"sys\":\"read\",\"cls\":\"%s\",\"k\":%ld,\"len\":%zu,\"ret\":%zd}", f_kind, c, k, n, r);
        errno = e;
        return r;
    }
    return r_read(fd, buf, n);
}
ssize_t __read_chk(int fd, void *buf, size_t n, size_t bl) { (void)bl; return read(fd, buf, n); }

ssize_t write(int fd, const void *buf, size_t n) {
    init();
    const char *c = klass(fd);
    if(!c) return r_write(fd, buf, n);
    long k = count(c, "write");
    if(hit(c, "write", k)) {
        ssize_t r;
        off_t off = r_lseek(fd, 0, SEEK_CUR);
        if(f_kind == 6) {
            size_t j = f_arg >= 0 ? (size_t)f_arg : (f_arg == -1 ? n / 2 : (n ? n - 1 : 0));
            if(j > n) j = n;
            ssize_t w = j ? r_write(fd, buf, j) : 0;
            plog("{\"ev\":\"io\",\"INJECTED\":6,\"sys\":\"write\",\"cls\":\"%s\",\"k\":%ld,\"off\":%lld,\"len\":%zu,\"ret\":%zd,\"kill\":1}", c, k, (long long)off, n, w);
            dump();
            _exit(77);
        }
        if(f_kind <= 3) { r = -1; errno = ferrno(f_kind); }
        else { size_t m = (size_t)f_arg < n ? (size_t)f_arg : n; r = m ? r_write(fd, buf, m) : 0; }
        int e = errno;
        plog("{\"ev\":\"io\",\"INJECTED\":%d,\"sys\":\"write\",\"cls\":\"%s\",\"k\":%ld,\"off\":%lld,\"len\":%zu,\"ret\":%zd}", f_kind, c, k, (long long)off, n, r);
        errno = e;
        return r;
    }
    return r_write(fd, buf, n);
}

off_t lseek(int fd, off_t off, int wh) {
    init();
    const char *c = klass(fd);
    if(!c) return r_lseek(fd, off, wh);
    long k = count(c, "lseek");
    if(hit(c, "lseek", k)) {
        plog("{\"ev\":\"io\",\"INJECTED\":%d,\"sys\":\"lseek\",\"cls\":\"%s\",\"k\":%ld,\"ret\":-1}", f_kind, c, k);
        errno = ferrno(f_kind);
        return -1;
    }
    return r_lseek(fd, off, wh);
}
off_t lseek64(int fd, off_t off, int wh) { return lseek(fd, off, wh); }

int ftruncate(int fd, off_t len) {
    init();
    const char *c = klass(fd);
    if(c) {
        long k = count(c, "ftruncate");
        if(hit(c, "ftruncate", k)) {
            plog("{\"ev\":\"io\",\"INJECTED\":%d,\"sys\":\"ftruncate\",\"cls\":\"%s\",\"k\":%ld,\"ret\":-1}", f_kind, c, k);
            errno = ferrno(f_kind);
            return -1;
        }
    }
    return r_ftruncate(fd, len);
}
int ftruncate64(int fd, off_t len) { return ftruncate(fd, len); }
