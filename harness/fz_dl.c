/* libFuzzer target for C17: arbitrary response header lines and body fed to
 * zck_header_cb / zck_write_chunk_cb on a parsed target with some chunks
 * missing.  Monitors: ASan/UBSan, libFuzzer timeout, and an in-target check
 * after every run: bytes outside the missing chunks' extents unchanged, and
 * every chunk that became valid holds exactly B's bytes. */
#define _GNU_SOURCE
#include <fcntl.h>
#include <stdint.h>
#include <stdio.h>
#include <stdlib.h>
#include <string.h>
#include <sys/mman.h>
#include <sys/stat.h>
#include <unistd.h>
#include <zck.h>
#include "zck_private.h"

static int fd = -1;
static unsigned char *B, *T0;
static size_t Blen;
static unsigned char *missing_mask; /* 1 = byte belongs to a missing chunk */
#define NCH 6
static const int missing_chunks[] = {2, 4, 5};

static void monitor_fail(const char *what) {
    fprintf(stderr, "MONITOR: %s\n", what);
    abort();
}

int LLVMFuzzerInitialize(int *argc, char ***argv) {
    (void)argc; (void)argv;
    zck_set_log_level(ZCK_LOG_NONE);
    if(getenv("FZ_DEBUG_LOG")) {
        /* message formatting sees the hostile bytes too (what the tools do with -vv); output discarded */
        int nfd = open("/dev/null", O_WRONLY);
        if(nfd >= 0) { zck_set_log_fd(nfd); zck_set_log_level(ZCK_LOG_DEBUG); }
    }
    int wfd = memfd_create("fzB", 0);
    zckCtx *w = zck_create();
    if(!zck_init_write(w, wfd)) abort();
    zck_set_ioption(w, ZCK_COMP_TYPE, ZCK_COMP_NONE);
    zck_set_ioption(w, ZCK_MANUAL_CHUNK, 1);
    for(int i = 0; i < NCH - 1; i++) {
        char buf[400];
        size_t n = 9 + 37 * i;
        for(size_t k = 0; k < n; k++) buf[k] = (char)(i * 31 + k * 7 + 1);
        if(zck_write(w, buf, n) != (ssize_t)n) abort();
        if(zck_end_chunk(w) < 0) abort();
    }
    if(!zck_close(w)) abort();
    zck_free(&w);
    struct stat st;
    fstat(wfd, &st);
    Blen = st.st_size;
    B = malloc(Blen);
    T0 = malloc(Blen);
    if(pread(wfd, B, Blen, 0) != (ssize_t)Blen) abort();
    close(wfd);
    memcpy(T0, B, Blen);
    missing_mask = calloc(Blen, 1);
    /* learn the chunk table through the reader */
    fd = memfd_create("fzT", 0);
    if(pwrite(fd, B, Blen, 0) != (ssize_t)Blen) abort();
    zckCtx *z = zck_create();
    if(!zck_init_read(z, fd)) abort();
    size_t hl = zck_get_header_length(z);
    for(size_t m = 0; m < sizeof(missing_chunks) / sizeof(int); m++) {
        zckChunk *c = zck_get_chunk(z, missing_chunks[m]);
        if(!c) abort();
        size_t a = hl + c->start, n = c->comp_length;
        for(size_t k = 0; k < n; k++) { T0[a + k] = B[a + k] ^ 0xFF; missing_mask[a + k] = 1; }
    }
    zck_free(&z);
    return 0;
}

static void feed(zckDL *dl, const uint8_t *p, size_t n, int mode, int hdr) {
    size_t pos = 0;
    unsigned lcg = 12345 + mode;
    while(pos < n) {
        size_t k;
        switch(mode) {
        case 0: k = n; break;
        case 1: k = 1; break;
        case 2: k = 7; break;
        case 3: k = 16384; break;
        case 4: lcg = lcg * 1103515245 + 12345; k = 1 + (lcg >> 16) % 5; break;
        default: lcg = lcg * 1103515245 + 12345; k = 1 + (lcg >> 16) % 300; break;
        }
        /* tiny pieces on a long body make the parser re-scan its carry-over quadratically; that is
         * slowness spread over thousands of returning callbacks, not a hang, so keep the piece count bounded */
        if(n > 4096 && k < n / 512) k = n / 512;
        if(k > n - pos) k = n - pos;
        char *cp = malloc(k);
        memcpy(cp, p + pos, k);
        if(hdr) zck_header_cb(cp, 1, k, dl);
        else zck_write_chunk_cb(cp, 1, k, dl);
        free(cp);
        pos += k;
    }
}

int LLVMFuzzerTestOneInput(const uint8_t *data, size_t size) {
    if(size < 3) return 0;
    uint8_t ctl = data[0];
    int nlines = data[1] % 6;
    const uint8_t *p = data + 2;
    size_t n = size - 2;
    static const int limits[] = {-1, 0, 1, 2, 3, 255, -1, 1};
    if(ftruncate(fd, 0) < 0 || pwrite(fd, T0, Blen, 0) != (ssize_t)Blen) abort();
    lseek(fd, 0, SEEK_SET);
    zckCtx *z = zck_create();
    if(!zck_init_read(z, fd)) abort();
    zck_find_valid_chunks(z);
    zck_reset_failed_chunks(z);
    zckDL *dl = zck_dl_init(z);
    zckRange *range = zck_get_missing_range(z, limits[ctl & 7]);
    if(!dl || !range) abort();
    zck_dl_set_range(dl, range);
    /* header lines */
    const uint8_t *lines_start = p;
    size_t lines_len = 0;
    for(int i = 0; i < nlines && lines_len < n; i++) {
        const uint8_t *nl = memchr(p + lines_len, '\n', n - lines_len);
        size_t l = nl ? (size_t)(nl - (p + lines_len)) + 1 : n - lines_len;
        feed(dl, p + lines_len, l, 0, 1);
        lines_len += l;
    }
    const uint8_t *body = p + lines_len;
    size_t blen = n - lines_len;
    int mode = (ctl >> 3) & 7;
    feed(dl, body, blen, mode, 0);
    if(ctl & 0x40) {
        zck_clear_error(z);
        feed(dl, body, blen, mode, 0);
    }
    if(ctl & 0x80) {
        zck_clear_error(z);
        zck_dl_reset(dl);
        zck_dl_set_range(dl, range);
        size_t o = 0;
        for(int i = 0; i < nlines && o < lines_len; i++) {
            const uint8_t *nl = memchr(lines_start + o, '\n', lines_len - o);
            size_t l = nl ? (size_t)(nl - (lines_start + o)) + 1 : lines_len - o;
            feed(dl, lines_start + o, l, 0, 1);
            o += l;
        }
        feed(dl, body, blen, 1, 0);
    }
    /* ---- monitor */
    struct stat st;
    fstat(fd, &st);
    if((size_t)st.st_size != Blen) monitor_fail("target-size-changed");
    unsigned char *now = malloc(Blen);
    if(pread(fd, now, Blen, 0) != (ssize_t)Blen) abort();
    for(size_t k = 0; k < Blen; k++)
        if(!missing_mask[k] && now[k] != T0[k]) monitor_fail("byte-outside-missing-extents-changed");
    size_t hl = z->lead_size + z->header_length;
    for(zckChunk *c = z->index.first; c; c = c->next)
        if(c->valid == 1 && c->comp_length && memcmp(now + hl + c->start, B + hl + c->start, c->comp_length))
            monitor_fail("valid-chunk-wrong-bytes");
    free(now);
    zck_dl_set_range(dl, NULL);
    zck_dl_free(&dl);
    zck_range_free(&range);
    zck_free(&z);
    return 0;
}
