/* zh - op interpreter over the public libzck API.
 *
 *   zh <script> <log> <out>
 *
 * One op per line.  Before an op runs, {"i":N,"call":"..."} is appended to
 * the log with write(2); after it returns, {"i":N,"op":...,"rc":...}.  The
 * log therefore survives aborts, signals and _exit, and an op that never
 * returns stays open.  Bytes delivered by the library are appended to <out>.
 * No oracle logic lives here; the Python side judges the log. */
#define _GNU_SOURCE
#include <errno.h>
#include <fcntl.h>
#include <signal.h>
#include <stdarg.h>
#include <stdint.h>
#include <stdio.h>
#include <stdlib.h>
#include <string.h>
#include <sys/resource.h>
#include <sys/stat.h>
#include <time.h>
#include <unistd.h>
#include <zck.h>
#include "zck_private.h"
#include "zhlog.h"

#define NSLOT 16
int zh_log_fd = -1;
static int out_fd = -1;
static off_t out_off = 0;

static zckCtx *ctx[NSLOT];
static int fds[NSLOT];
static zckDL *dls[NSLOT];
static zckRange *ranges[NSLOT];
static int opi = 0;

void zh_log(const char *fmt, ...) {
    char sbuf[4096];
    char *buf = sbuf;
    va_list ap;
    va_start(ap, fmt);
    int n = vsnprintf(sbuf, sizeof(sbuf) - 1, fmt, ap);
    va_end(ap);
    if(n < 0) return;
    if((size_t)n >= sizeof(sbuf) - 1) {
        buf = malloc(n + 2);
        if(!buf) return;
        va_start(ap, fmt);
        vsnprintf(buf, n + 1, fmt, ap);
        va_end(ap);
    }
    buf[n] = '\n';
    if(zh_log_fd >= 0) {
        ssize_t w = real_write(zh_log_fd, buf, n + 1);
        (void)w;
    }
    if(buf != sbuf) free(buf);
}

static void die(const char *msg, const char *arg) {
    zh_log("{\"ev\":\"harness_error\",\"i\":%d,\"msg\":\"%s %s\"}", opi, msg, arg ? arg : "");
    _exit(3);
}

static double cpu_now(void) {
    struct timespec ts;
    clock_gettime(CLOCK_PROCESS_CPUTIME_ID, &ts);
    return ts.tv_sec * 1e3 + ts.tv_nsec / 1e6;
}

static int no_out = 0;
static void out_append(const void *p, size_t n) {
    const char *c = p;
    if(no_out) { out_off += n; return; }
    while(n > 0) {
        ssize_t w = real_write(out_fd, c, n);
        if(w <= 0) die("out write failed", NULL);
        c += w; n -= w; out_off += w;
    }
}

static int hexval(int c) {
    if(c >= '0' && c <= '9') return c - '0';
    if(c >= 'a' && c <= 'f') return c - 'a' + 10;
    if(c >= 'A' && c <= 'F') return c - 'A' + 10;
    return -1;
}

/* data argument: x:<hex> | f:<path>[:off:len] | z:<n> (n zero bytes) | s:<text-without-spaces> */
static char *get_data(const char *arg, size_t *len) {
    if(!arg) die("missing data arg", NULL);
    if(!strncmp(arg, "x:", 2)) {
        size_t n = strlen(arg + 2) / 2;
        char *b = malloc(n + 1);
        for(size_t i = 0; i < n; i++)
            b[i] = (char)(hexval(arg[2 + 2 * i]) * 16 + hexval(arg[3 + 2 * i]));
        b[n] = 0;
        *len = n;
        return b;
    }
    if(!strncmp(arg, "z:", 2)) {
        size_t n = strtoull(arg + 2, NULL, 10);
        char *b = calloc(n + 1, 1);
        *len = n;
        return b;
    }
    if(!strncmp(arg, "s:", 2)) {
        *len = strlen(arg + 2);
        return strdup(arg + 2);
    }
    if(!strncmp(arg, "f:", 2)) {
        char *path = strdup(arg + 2);
        long long off = 0, l = -1;
        char *c = strchr(path, ':');
        if(c) {
            *c = 0;
            sscanf(c + 1, "%lld:%lld", &off, &l);
        }
        int fd = open(path, O_RDONLY);
        if(fd < 0) die("cannot open data file", path);
        struct stat st;
        fstat(fd, &st);
        if(l < 0) l = st.st_size - off;
        char *b = malloc(l + 1);
        ssize_t r = pread(fd, b, l, off);
        if(r != l) die("short data file", path);
        close(fd);
        free(path);
        *len = l;
        return b;
    }
    die("bad data arg", arg);
    return NULL;
}

static int slot(const char *a) {
    if(!a) die("missing slot", NULL);
    int s = atoi(a);
    if(s < 0 || s >= NSLOT) die("bad slot", a);
    return s;
}
static zckCtx *C(const char *a) { return ctx[slot(a)]; }

static void json_escape(char *dst, size_t cap, const char *s) {
    size_t o = 0;
    for(; s && *s && o + 8 < cap; s++) {
        unsigned char c = *s;
        if(c == '"' || c == '\\') { dst[o++] = '\\'; dst[o++] = c; }
        else if(c < 0x20 || c >= 0x7f) o += snprintf(dst + o, cap - o, "\\u%04x", c);
        else dst[o++] = c;
    }
    dst[o] = 0;
}

static void dump_meta(zckCtx *z) {
    char *hd = zck_get_header_digest(z);
    char *dd = zck_get_data_digest(z);
    zh_log("{\"i\":%d,\"op\":\"meta\",\"flags\":%zd,\"full_hash_type\":%d,\"full_digest_size\":%zd,"
           "\"chunk_hash_type\":%d,\"chunk_digest_size\":%zd,\"lead_length\":%zd,\"header_length\":%zd,"
           "\"data_length\":%zd,\"length\":%zd,\"header_digest\":\"%s\",\"data_digest\":\"%s\","
           "\"chunk_count\":%zd,\"detached\":%d}",
           opi, zck_get_flags(z), zck_get_full_hash_type(z), zck_get_full_digest_size(z),
           zck_get_chunk_hash_type(z), zck_get_chunk_digest_size(z), zck_get_lead_length(z),
           zck_get_header_length(z), zck_get_data_length(z), zck_get_length(z), hd ? hd : "", dd ? dd : "",
           zck_get_chunk_count(z), (int)zck_is_detached_header(z));
    free(hd);
    free(dd);
    long n = 0;
    for(zckChunk *c = zck_get_first_chunk(z); c; c = zck_get_next_chunk(c)) {
        char *d = zck_get_chunk_digest(c);
        char *u = zck_get_chunk_digest_uncompressed(c);
        zh_log("{\"i\":%d,\"op\":\"chunk\",\"number\":%zd,\"start\":%zd,\"comp_size\":%zd,\"size\":%zd,"
               "\"valid\":%d,\"digest\":\"%s\",\"udigest\":\"%s\"}",
               opi, zck_get_chunk_number(c), zck_get_chunk_start(c), zck_get_chunk_comp_size(c),
               zck_get_chunk_size(c), zck_get_chunk_valid(c), d ? d : "", u ? u : "");
        free(d);
        free(u);
        if(++n > 2000000) break;
    }
    zh_log("{\"i\":%d,\"op\":\"meta_end\",\"iterated\":%ld}", opi, n);
}

static void dump_flags(zckCtx *z) {
    size_t cap = 1 << 16, o = 0;
    char *b = malloc(cap);
    long n = 0;
    /* read the markings directly: the getters refuse while an error is pending */
    for(zckChunk *c = z ? z->index.first : NULL; c; c = c->next) {
        if(o + 16 > cap) { cap *= 2; b = realloc(b, cap); }
        o += snprintf(b + o, cap - o, "%s%d", n ? "," : "", c->valid);
        n++;
    }
    b[o] = 0;
    zh_log("{\"i\":%d,\"op\":\"flags\",\"valid\":[%s]}", opi, b);
    free(b);
}

/* ---- download side -------------------------------------------------- */
static int feed_quiet;
static volatile double cb_started_ms = -1;   /* >= 0 while inside a library call made by feed() */
static volatile long cb_index = 0;
static void on_xcpu(int sig) {
    (void)sig;
    double now = cpu_now();
    zh_log("{\"ev\":\"xcpu\",\"i\":%d,\"in_callback\":%d,\"cb_index\":%ld,\"cb_cpu_ms\":%.1f}", opi, cb_started_ms >= 0, cb_index,
           cb_started_ms >= 0 ? now - cb_started_ms : 0.0);
    _exit(98);
}
/* ---- chained application callbacks ------------------------------------
 * The documented way for an application to have its own transfer callbacks is to hang them behind the library's
 * (zck_dl_set_write_cb / zck_dl_set_header_cb + the data pointers): `chain 1` makes every download context the harness
 * creates from then on carry such callbacks, which accept everything (as an application that just counts bytes or draws
 * a progress bar does); `chain 2 K` makes the K-th application call refuse.  What the transport sees - the value the
 * library's callback returns - is judged by the same oracles as without them; the counters go to the evidence. */
static int g_chain = 0;
static long g_chain_failat = -1;
static struct { long calls, in_cb, seen_ok, mismatched, lost_result; const void *ptr; size_t l, c, ret; int data_ok; } chn;
static int chain_tok_w, chain_tok_h;
static size_t chain_write_cb(void *ptr, size_t l, size_t c, void *data) {
    chn.in_cb++; chn.ptr = ptr; chn.l = l; chn.c = c; chn.data_ok = (data == (void *)&chain_tok_w);
    size_t r = l * c;
    if(g_chain == 2 && chn.calls == g_chain_failat) r = 0;
    chn.calls++;
    chn.ret = r;
    return r;
}
static size_t chain_header_cb(char *b, size_t l, size_t c, void *data) {
    chn.in_cb++; chn.ptr = b; chn.l = l; chn.c = c; chn.data_ok = (data == (void *)&chain_tok_h);
    chn.calls++;
    chn.ret = l * c;
    return l * c;
}
static zckDL *zh_dl_init(zckCtx *z) {
    zckDL *dl = zck_dl_init(z);
    if(dl && g_chain) {
        if(!zck_dl_set_write_cb(dl, chain_write_cb) || !zck_dl_set_write_data(dl, &chain_tok_w) ||
           !zck_dl_set_header_cb(dl, (zck_wcb)chain_header_cb) || !zck_dl_set_header_data(dl, &chain_tok_h))
            die("cannot install chained callbacks", NULL);
    }
    return dl;
}
/* after one library callback: bookkeeping about the application callback behind it */
static void chain_account(const void *ptr, size_t n, size_t r) {
    if(!g_chain) return;
    if(chn.in_cb == 1) {
        if(chn.ptr == ptr && chn.l * chn.c == n && chn.data_ok) chn.seen_ok++; else chn.mismatched++;
        if(r != chn.ret) chn.lost_result++;
    } else if(chn.in_cb > 1) chn.mismatched++;
}

static size_t feed(zckDL *dl, char *data, size_t len, const char *fragspec, int kind, int keep_going) {
    /* fragspec: "all" | "n:<size>" | "cuts:a,b,c" (ascending offsets) */
    size_t pos = 0, ncb = 0;
    size_t *cuts = NULL, ncuts = 0;
    size_t uni = 0;
    if(!fragspec || !strcmp(fragspec, "all")) uni = len ? len : 1;
    else if(!strncmp(fragspec, "n:", 2)) uni = strtoull(fragspec + 2, NULL, 10);
    else if(!strncmp(fragspec, "cuts:", 5)) {
        cuts = calloc(strlen(fragspec) + 2, sizeof(size_t));
        const char *p = fragspec + 5;
        while(*p) {
            cuts[ncuts++] = strtoull(p, (char **)&p, 10);
            if(*p == ',') p++;
        }
    } else die("bad fragspec", fragspec);
    size_t ci = 0;
    int failed = 0;
    double worst_cb = 0;
    while(pos < len) {
        size_t end;
        if(cuts) {
            while(ci < ncuts && cuts[ci] <= pos) ci++;
            end = ci < ncuts ? cuts[ci] : len;
            if(end > len) end = len;
        } else {
            end = pos + uni;
            if(end > len) end = len;
        }
        size_t n = end - pos;
        /* hand the library a private copy, exact size, so overreads are visible */
        char *copy = malloc(n ? n : 1);
        memcpy(copy, data + pos, n);
        size_t r;
        cb_index = ncb;
        cb_started_ms = cpu_now();
        chn.in_cb = 0;
        if(kind == 0) r = zck_write_chunk_cb(copy, 1, n, dl);
        else if(kind == 1) r = zck_write_zck_header_cb(copy, 1, n, dl);
        else r = zck_header_cb(copy, 1, n, dl);
        double took = cpu_now() - cb_started_ms;
        cb_started_ms = -1;
        if(took > worst_cb) worst_cb = took;
        chain_account(copy, n, r);
        free(copy);
        ncb++;
        if(r != n) {
            if(!feed_quiet) zh_log("{\"i\":%d,\"ev\":\"cb\",\"kind\":%d,\"pos\":%zu,\"len\":%zu,\"ret\":%zu,\"err\":1}", opi, kind, pos, n, r);
            failed = 1;
            if(!keep_going) break;
        }
        pos = end;
    }
    free(cuts);
    if(!feed_quiet) zh_log("{\"i\":%d,\"op\":\"feed\",\"kind\":%d,\"len\":%zu,\"callbacks\":%zu,\"delivered\":%zu,\"failed\":%d,\"mp_state\":%d,\"mp_buffered\":%zu,\"worst_cb_ms\":%.1f}",
           opi, kind, len, ncb, pos, failed, dl->mp ? dl->mp->state : -1, dl->mp ? dl->mp->buffer_len : 0, worst_cb);
    return failed ? 0 : 1;
}

#include "zh_serve.h"

/* State an application that uses the same libraries legitimately leaves behind: an (already handled) error on OpenSSL's
 * per-thread error queue - from a failed BIO_new_file() of its own - and a non-zero errno.  Enabled by ZCKV_APP_NOISE=1. */
#include <dlfcn.h>
#include <errno.h>
static int app_noise_on = -1;
static long app_noise_made = 0;
static void app_noise(void) {
    if(app_noise_on < 0) app_noise_on = getenv("ZCKV_APP_NOISE") != NULL;
    if(!app_noise_on) return;
    void *(*bio_new_file)(const char *, const char *) = (void *(*)(const char *, const char *))dlsym(RTLD_DEFAULT, "BIO_new_file");
    if(bio_new_file) {
        void *b = bio_new_file("/nonexistent-zckv/no-such-file", "r");
        if(!b) app_noise_made++;
    }
    errno = EINTR;
}

/* a second writer in the same thread, fed a piece after every write call of `writeseq` (an application producing several
 * archives side by side): `companion C f:path piece` */
static zckCtx *cmp_ctx = NULL;
static char *cmp_data = NULL;
static size_t cmp_len = 0, cmp_pos = 0, cmp_piece = 0;
static long cmp_calls = 0, cmp_bad = 0;
static void companion_step(zckCtx *main_ctx) {
    if(!cmp_ctx || cmp_ctx == main_ctx || cmp_pos >= cmp_len) return;
    size_t n = cmp_piece < cmp_len - cmp_pos ? cmp_piece : cmp_len - cmp_pos;
    char *cp = malloc(n ? n : 1);
    memcpy(cp, cmp_data + cmp_pos, n);
    ssize_t r = zck_write(cmp_ctx, cp, n);
    free(cp);
    cmp_calls++;
    if(r != (ssize_t)n) cmp_bad++;
    cmp_pos += n;
}

/* ---- main loop ------------------------------------------------------ */
#define MAXTOK 8192
int main(int argc, char **argv) {
    if(argc < 4) { fprintf(stderr, "usage: zh script log out\n"); return 3; }
    zh_log_fd = open(argv[2], O_WRONLY | O_CREAT | O_APPEND, 0644);
    out_fd = open(argv[3], O_WRONLY | O_CREAT | O_TRUNC, 0644);
    if(zh_log_fd < 0 || out_fd < 0) { perror("zh open"); return 3; }
    /* keep log/out away from low descriptor numbers scripts may close */
    int nfd = fcntl(zh_log_fd, F_DUPFD, 200); close(zh_log_fd); zh_log_fd = nfd;
    nfd = fcntl(out_fd, F_DUPFD, 201); close(out_fd); out_fd = nfd;
    FILE *sf = fopen(argv[1], "r");
    if(!sf) { perror("zh script"); return 3; }
    int sfd = fcntl(fileno(sf), F_DUPFD, 202);
    fclose(sf);
    sf = fdopen(sfd, "r");
    signal(SIGXFSZ, SIG_IGN);
    signal(SIGXCPU, on_xcpu);
    for(int i = 0; i < NSLOT; i++) fds[i] = -1;
    zck_set_log_level(ZCK_LOG_NONE);
    const char *ll = getenv("ZH_LOGLEVEL");
    if(ll) zck_set_log_level(atoi(ll));

    char *line = NULL;
    size_t lcap = 0;
    ssize_t ll_n;
    while((ll_n = getline(&line, &lcap, sf)) > 0) {
        while(ll_n > 0 && (line[ll_n - 1] == '\n' || line[ll_n - 1] == '\r')) line[--ll_n] = 0;
        if(!ll_n || line[0] == '#') continue;
        opi++;
        {
            size_t cl = ll_n > 200 ? 200 : ll_n;
            char tmp[256], esc[1400];
            memcpy(tmp, line, cl); tmp[cl] = 0;
            json_escape(esc, sizeof(esc), tmp);
            zh_log("{\"i\":%d,\"call\":\"%s\"}", opi, esc);
        }
        app_noise();
        char *t[MAXTOK] = {0};
        int nt = 0;
        for(char *p = strtok(line, " "); p && nt < MAXTOK - 1; p = strtok(NULL, " ")) t[nt++] = p;
        const char *op = t[0];
        double c0 = cpu_now();
#define RET(fmt, ...) zh_log("{\"i\":%d,\"op\":\"%s\",\"cpu_ms\":%.1f," fmt "}", opi, op, cpu_now() - c0, __VA_ARGS__)
        if(!strcmp(op, "closefd")) {
            int r = close(atoi(t[1]));
            RET("\"rc\":%d", r);
        } else if(!strcmp(op, "fopen")) {
            /* fopen F path mode class */
            int s = slot(t[1]);
            int fl = O_RDONLY;
            if(!strcmp(t[3], "rw")) fl = O_RDWR;
            else if(!strcmp(t[3], "w")) fl = O_WRONLY | O_CREAT | O_TRUNC;
            else if(!strcmp(t[3], "rwc")) fl = O_RDWR | O_CREAT;
            else if(!strcmp(t[3], "wo")) fl = O_WRONLY;
            else if(!strcmp(t[3], "wa")) fl = O_WRONLY | O_APPEND;
            int fd;
            if(!strcmp(t[3], "pipe")) {
                /* the file's bytes, all queued in a pipe before the library sees the read end (deterministic: no short reads) */
                size_t l;
                char a[600];
                snprintf(a, sizeof(a), "f:%s", t[2]);
                char *d = get_data(a, &l);
                int pfd[2];
                if(pipe(pfd) < 0) die("pipe", NULL);
                if(fcntl(pfd[1], F_SETPIPE_SZ, (int)l + 65536) < (int)l) die("pipe too small for", t[2]);
                size_t done = 0;
                while(done < l) {
                    ssize_t w = real_write(pfd[1], d + done, l - done);
                    if(w <= 0) die("pipe fill", NULL);
                    done += w;
                }
                close(pfd[1]);
                free(d);
                fd = pfd[0];
            } else
                fd = open(t[2], fl, 0644);
            if(fd < 0) die("fopen failed", t[2]);
            fds[s] = fd;
            io_register(fd, t[4] ? t[4] : "file");
            /* optional 5th argument: the descriptor is handed over positioned at this offset (something else precedes the image) */
            if(t[4] && t[5]) real_lseek(fd, atoll(t[5]), SEEK_SET);
            RET("\"fd\":%d", fd);
        } else if(!strcmp(op, "fclose")) {
            int s = slot(t[1]);
            int r = close(fds[s]);
            fds[s] = -1;
            RET("\"rc\":%d", r);
        } else if(!strcmp(op, "fsize")) {
            struct stat st;
            fstat(fds[slot(t[1])], &st);
            RET("\"size\":%lld", (long long)st.st_size);
        } else if(!strcmp(op, "tell")) {
            RET("\"pos\":%lld", (long long)real_lseek(fds[slot(t[1])], 0, SEEK_CUR));
        } else if(!strcmp(op, "seek")) {
            RET("\"pos\":%lld", (long long)real_lseek(fds[slot(t[1])], atoll(t[2]), SEEK_SET));
        } else if(!strcmp(op, "poke")) {
            /* poke F off data : overwrite bytes of an open file behind the library's back (harness I/O, not interposed) */
            size_t l;
            char *d = get_data(t[3], &l);
            ssize_t w = real_pwrite(fds[slot(t[1])], d, l, atoll(t[2]));
            free(d);
            RET("\"rc\":%zd", w);
        } else if(!strcmp(op, "fput")) {
            /* fput F path : replace the whole content of an open file by the content of `path` */
            size_t l;
            char a[600];
            snprintf(a, sizeof(a), "f:%s", t[2]);
            char *d = get_data(a, &l);
            int fd = fds[slot(t[1])];
            int r1 = real_ftruncate(fd, 0);
            ssize_t w = real_pwrite(fd, d, l, 0);
            free(d);
            RET("\"rc\":%zd,\"trunc\":%d", w, r1);
        } else if(!strcmp(op, "noout")) {
            no_out = atoi(t[1]);
            RET("\"rc\":%d", 1);
        } else if(!strcmp(op, "iolog")) {
            io_set_log(atoi(t[1]));
            RET("\"rc\":%d", 1);
        } else if(!strcmp(op, "fault")) {
            /* fault class sys k kind arg */
            int r = io_add_fault(t[1], t[2], atol(t[3]), atoi(t[4]), t[5] ? atol(t[5]) : 0);
            RET("\"rc\":%d", r);
        } else if(!strcmp(op, "create")) {
            int s = slot(t[1]);
            ctx[s] = zck_create();
            RET("\"rc\":%d", ctx[s] != NULL);
        } else if(!strcmp(op, "init_read")) {
            bool r = zck_init_read(C(t[1]), fds[slot(t[2])]);
            RET("\"rc\":%d", (int)r);
        } else if(!strcmp(op, "init_adv_read")) {
            bool r = zck_init_adv_read(C(t[1]), fds[slot(t[2])]);
            RET("\"rc\":%d", (int)r);
        } else if(!strcmp(op, "init_write")) {
            bool r = zck_init_write(C(t[1]), fds[slot(t[2])]);
            zckCtx *z = C(t[1]);
            RET("\"rc\":%d,\"temp_fd\":%d", (int)r, z ? z->temp_fd : -99);
        } else if(!strcmp(op, "setfd")) {
            /* setfd C F : point context C at the descriptor in slot F (zck_set_fd) */
            bool r = zck_set_fd(C(t[1]), fds[slot(t[2])]);
            RET("\"rc\":%d", (int)r);
        } else if(!strcmp(op, "read_lead")) {
            bool r = zck_read_lead(C(t[1]));
            RET("\"rc\":%d", (int)r);
        } else if(!strcmp(op, "validate_lead")) {
            bool r = zck_validate_lead(C(t[1]));
            RET("\"rc\":%d", (int)r);
        } else if(!strcmp(op, "read_header")) {
            bool r = zck_read_header(C(t[1]));
            RET("\"rc\":%d", (int)r);
        } else if(!strcmp(op, "iopt")) {
            bool r = zck_set_ioption(C(t[1]), atoi(t[2]), atoll(t[3]));
            RET("\"rc\":%d,\"opt\":%d,\"val\":%lld", (int)r, atoi(t[2]), atoll(t[3]));
        } else if(!strcmp(op, "sopt")) {
            size_t l;
            char *d = get_data(t[3], &l);
            bool r = zck_set_soption(C(t[1]), atoi(t[2]), d, l);
            free(d);
            RET("\"rc\":%d,\"opt\":%d,\"len\":%zu", (int)r, atoi(t[2]), l);
        } else if(!strcmp(op, "write")) {
            size_t l;
            char *d = get_data(t[2], &l);
            /* exact-size private copy so an over-read is an ASan report */
            char *cp = malloc(l ? l : 1);
            memcpy(cp, d, l);
            free(d);
            ssize_t r = zck_write(C(t[1]), cp, l);
            free(cp);
            RET("\"rc\":%zd,\"n\":%zu", r, l);
        } else if(!strcmp(op, "writeseq")) {
            /* writeseq C f:path <sizes...>  : whole file delivered through calls of the
             * given sizes (cycled); 'e' tokens end a chunk.  One event per call. */
            size_t l;
            char *d = get_data(t[2], &l);
            size_t pos = 0;
            int k = 3;
            long calls = 0, ends = 0;
            int bad = 0;
            double worst = 0;
            while(pos < l && !bad) {
                if(!t[k]) k = 3;
                if(!t[k]) die("writeseq needs sizes", NULL);
                if(!strcmp(t[k], "e")) {
                    ssize_t r = zck_end_chunk(C(t[1]));
                    ends++;
                    if(r < 0) { bad = 1; zh_log("{\"i\":%d,\"ev\":\"end_chunk\",\"pos\":%zu,\"rc\":%zd}", opi, pos, r); }
                    k++;
                    continue;
                }
                size_t n = strtoull(t[k++], NULL, 10);
                if(n > l - pos) n = l - pos;
                char *cp = malloc(n ? n : 1);
                memcpy(cp, d + pos, n);
                double w0 = cpu_now();
                ssize_t r = zck_write(C(t[1]), cp, n);
                double w = cpu_now() - w0;
                if(w > worst) worst = w;
                free(cp);
                calls++;
                if(r != (ssize_t)n) { bad = 1; zh_log("{\"i\":%d,\"ev\":\"write\",\"pos\":%zu,\"n\":%zu,\"rc\":%zd}", opi, pos, n, r); }
                pos += n;
                companion_step(C(t[1]));
                if(n == 0 && calls > (long)l + 1000) break;
            }
            free(d);
            RET("\"rc\":%d,\"bytes\":%zu,\"calls\":%ld,\"ends\":%ld,\"worst_call_ms\":%.1f", bad ? -1 : 0, pos, calls, ends, worst);
        } else if(!strcmp(op, "companion")) {
            cmp_ctx = C(t[1]);
            cmp_data = get_data(t[2], &cmp_len);
            cmp_pos = 0;
            cmp_piece = strtoull(t[3], NULL, 10);
            RET("\"rc\":%d,\"bytes\":%zu", 1, cmp_len);
        } else if(!strcmp(op, "companion_stat")) {
            RET("\"calls\":%ld,\"bad\":%ld,\"fed\":%zu", cmp_calls, cmp_bad, cmp_pos);
        } else if(!strcmp(op, "end_chunk")) {
            ssize_t r = zck_end_chunk(C(t[1]));
            RET("\"rc\":%zd", r);
        } else if(!strcmp(op, "wstate")) {
            zckCtx *z = C(t[1]);
            RET("\"auto_min\":%d,\"auto_max\":%d,\"min\":%d,\"max\":%d,\"manual\":%d,\"comp\":%d,\"started\":%d",
                z->chunk_auto_min, z->chunk_auto_max, z->chunk_min_size, z->chunk_max_size, z->manual_chunk,
                (int)z->comp.type, z->comp.started);
        } else if(!strcmp(op, "close")) {
            bool r = zck_close(C(t[1]));
            RET("\"rc\":%d", (int)r);
        } else if(!strcmp(op, "free")) {
            int s = slot(t[1]);
            zck_free(&ctx[s]);
            RET("\"rc\":%d", 1);
        } else if(!strcmp(op, "read")) {
            /* read C n */
            size_t n = strtoull(t[2], NULL, 10);
            char *b = malloc(n ? n : 1);
            ssize_t r = zck_read(C(t[1]), b, n);
            off_t o = out_off;
            if(r > 0) out_append(b, r > (ssize_t)n ? n : (size_t)r);
            free(b);
            RET("\"rc\":%zd,\"n\":%zu,\"off\":%lld", r, n, (long long)o);
        } else if(!strcmp(op, "readall")) {
            /* readall C extra s1 s2 ... : read with cycling sizes until rc<=0, then `extra` more calls */
            int extra = atoi(t[2]);
            int k = 3;
            long calls = 0;
            int after = -1;
            while(1) {
                if(!t[k]) k = 3;
                size_t n = strtoull(t[k++], NULL, 10);
                char *b = malloc(n ? n : 1);
                double r0 = cpu_now();
                ssize_t r = zck_read(C(t[1]), b, n);
                off_t o = out_off;
                if(r > 0) out_append(b, r > (ssize_t)n ? n : (size_t)r);
                free(b);
                calls++;
                zh_log("{\"i\":%d,\"ev\":\"read\",\"n\":%zu,\"rc\":%zd,\"off\":%lld,\"cpu_ms\":%.1f}", opi, n, r, (long long)o, cpu_now() - r0);
                if(after >= 0) { if(++after >= extra) break; }
                else if(r <= 0) { if(extra <= 0) break; after = 0; }
                if(calls > 50000000) break;
            }
            RET("\"calls\":%ld,\"total\":%lld", calls, (long long)out_off);
        } else if(!strcmp(op, "readretry")) {
            /* readretry C maxerr s1 s2 ... : a reader that does not give up at a failed call: it clears the error (if the library lets
             * it) and calls again, up to maxerr times; stops at end of data (rc 0) or when the error cannot be cleared */
            int maxerr = atoi(t[2]);
            int k = 3, errs = 0, stuck = 0;
            long calls = 0;
            while(1) {
                if(!t[k]) k = 3;
                size_t n = strtoull(t[k++], NULL, 10);
                char *b = malloc(n ? n : 1);
                ssize_t r = zck_read(C(t[1]), b, n);
                off_t o = out_off;
                if(r > 0) out_append(b, r > (ssize_t)n ? n : (size_t)r);
                free(b);
                calls++;
                zh_log("{\"i\":%d,\"ev\":\"read\",\"n\":%zu,\"rc\":%zd,\"off\":%lld}", opi, n, r, (long long)o);
                if(r == 0) break;
                if(r < 0) {
                    if(++errs > maxerr || !zck_clear_error(C(t[1]))) { stuck = 1; break; }
                }
                if(calls > 50000000) break;
            }
            RET("\"calls\":%ld,\"total\":%lld,\"errors\":%d,\"gave_up\":%d", calls, (long long)out_off, errs, stuck);
        } else if(!strcmp(op, "vc")) {
            int r = zck_validate_checksums(C(t[1]));
            RET("\"rc\":%d", r);
        } else if(!strcmp(op, "vd")) {
            int r = zck_validate_data_checksum(C(t[1]));
            RET("\"rc\":%d", r);
        } else if(!strcmp(op, "fv")) {
            int r = zck_find_valid_chunks(C(t[1]));
            RET("\"rc\":%d", r);
        } else if(!strcmp(op, "meta")) {
            dump_meta(C(t[1]));
        } else if(!strcmp(op, "flags")) {
            dump_flags(C(t[1]));
        } else if(!strcmp(op, "missing")) {
            RET("\"rc\":%d", zck_missing_chunks(C(t[1])));
        } else if(!strcmp(op, "failed")) {
            RET("\"rc\":%d", zck_failed_chunks(C(t[1])));
        } else if(!strcmp(op, "reset_failed")) {
            zck_reset_failed_chunks(C(t[1]));
            RET("\"rc\":%d", 1);
        } else if(!strcmp(op, "is_error")) {
            char esc[600];
            json_escape(esc, sizeof(esc), zck_get_error(C(t[1])));
            RET("\"rc\":%d,\"msg\":\"%s\"", zck_is_error(C(t[1])), esc);
        } else if(!strcmp(op, "clear_error")) {
            RET("\"rc\":%d", (int)zck_clear_error(C(t[1])));
        } else if(!strcmp(op, "chunkdata") || !strcmp(op, "chunkcomp")) {
            /* chunkdata C k [bufsize|-1=declared] */
            zckChunk *c = zck_get_chunk(C(t[1]), strtoull(t[2], NULL, 10));
            if(!c) { RET("\"rc\":%d,\"nochunk\":1", -9); continue; }
            int comp = !strcmp(op, "chunkcomp");
            ssize_t want = comp ? zck_get_chunk_comp_size(c) : zck_get_chunk_size(c);
            if(t[3] && atoll(t[3]) >= 0) want = atoll(t[3]);
            if(want < 0) { RET("\"rc\":%d,\"badsize\":%zd", -8, want); continue; }
            /* a caller may always offer a smaller buffer than the declared size */
            if(want > (16LL << 20)) want = 16LL << 20;
            char *b = malloc(want ? want : 1);
            if(!b) die("malloc", NULL);
            ssize_t r = comp ? zck_get_chunk_comp_data(c, b, want) : zck_get_chunk_data(c, b, want);
            off_t o = out_off;
            if(r > 0) out_append(b, r > want ? (size_t)want : (size_t)r);
            free(b);
            RET("\"rc\":%zd,\"k\":%s,\"want\":%zd,\"off\":%lld,\"valid\":%d", r, t[2], want, (long long)o, zck_get_chunk_valid(c));
        } else if(!strcmp(op, "chunkat")) {
            /* chunkat C k... : zck_get_chunk lookups by number, in the given order, on one context */
            for(int a = 2; t[a]; a++) {
                long long k = atoll(t[a]);
                zckChunk *c = zck_get_chunk(C(t[1]), (size_t)k);
                if(!c) { zh_log("{\"i\":%d,\"op\":\"chunkat\",\"k\":%lld,\"nochunk\":1}", opi, k); zck_clear_error(C(t[1])); continue; }
                char *d = zck_get_chunk_digest(c);
                zh_log("{\"i\":%d,\"op\":\"chunkat\",\"k\":%lld,\"number\":%zd,\"start\":%zd,\"comp_size\":%zd,\"size\":%zd,\"digest\":\"%s\"}", opi, k,
                       zck_get_chunk_number(c), zck_get_chunk_start(c), zck_get_chunk_comp_size(c), zck_get_chunk_size(c), d ? d : "");
                free(d);
            }
        } else if(!strcmp(op, "copy")) {
            bool r = zck_copy_chunks(C(t[1]), C(t[2]));
            RET("\"rc\":%d", (int)r);
        } else if(!strcmp(op, "match")) {
            bool r = zck_find_matching_chunks(C(t[1]), C(t[2]));
            /* dump pairings */
            zckCtx *tg = C(t[2]);
            for(zckChunk *c = tg ? zck_get_first_chunk(tg) : NULL; c; c = zck_get_next_chunk(c)) {
                zckChunk *s = zck_get_src_chunk(c);
                if(s && s != c)
                    zh_log("{\"i\":%d,\"ev\":\"pair\",\"tgt\":%zd,\"src\":%zd,\"src_is_other\":%d}", opi, zck_get_chunk_number(c),
                           zck_get_chunk_number(s), zck_get_chunk_ctx(s) != tg);
            }
            RET("\"rc\":%d", (int)r);
        } else if(!strcmp(op, "cmpchunk")) {
            /* cmpchunk C1 k1 C2 k2 : zck_compare_chunk_digest on chunks of two contexts */
            zckChunk *a = zck_get_chunk(C(t[1]), strtoull(t[2], NULL, 10));
            zckChunk *b = zck_get_chunk(C(t[3]), strtoull(t[4], NULL, 10));
            if(!a || !b) { RET("\"rc\":%d,\"nochunk\":1", -9); continue; }
            bool r = zck_compare_chunk_digest(a, b);
            RET("\"rc\":%d", (int)r);
        } else if(!strcmp(op, "hashdb")) {
            bool r = zck_generate_hashdb(C(t[1]));
            RET("\"rc\":%d", (int)r);
        } else if(!strcmp(op, "range")) {
            /* range R C limit */
            int rs = slot(t[1]);
            zckRange *r = zck_get_missing_range(C(t[2]), atoi(t[3]));
            ranges[rs] = r;
            if(!r) { RET("\"rc\":%d", 0); continue; }
            char *s = zck_get_range_char(C(t[2]), r);
            int cnt = zck_get_range_count(r);
            /* range index: covered chunks in request order */
            size_t cap = 1 << 16, o = 0;
            char *b = malloc(cap);
            long n = 0;
            for(zckChunk *c = r->index.first; c; c = c->next) {
                if(o + 64 > cap) { cap *= 2; b = realloc(b, cap); }
                o += snprintf(b + o, cap - o, "%s[%zu,%zu,%zu]", n ? "," : "", c->src ? c->src->number : (size_t)-1, c->start, c->comp_length);
                n++;
            }
            b[o] = 0;
            size_t sl = s ? strlen(s) : 0;
            char *big = malloc(sl + o + 256);
            sprintf(big, "{\"i\":%d,\"op\":\"range\",\"rc\":1,\"count\":%d,\"str\":\"%s\",\"strnull\":%d,\"index\":[%s]}", opi, cnt, s ? s : "", s == NULL, b);
            strcat(big, "\n");
            real_write(zh_log_fd, big, strlen(big));
            free(big);
            free(b);
            free(s);
        } else if(!strcmp(op, "range_free")) {
            int rs = slot(t[1]);
            if(ranges[rs]) zck_range_free(&ranges[rs]);
            RET("\"rc\":%d", 1);
        } else if(!strcmp(op, "dl_init")) {
            int d = slot(t[1]);
            dls[d] = zh_dl_init(C(t[2]));
            RET("\"rc\":%d", dls[d] != NULL);
        } else if(!strcmp(op, "chain")) {
            g_chain = atoi(t[1]);
            g_chain_failat = t[2] ? atol(t[2]) : -1;
            RET("\"rc\":%d", 1);
        } else if(!strcmp(op, "chainstat")) {
            RET("\"mode\":%d,\"calls\":%ld,\"consistent\":%ld,\"mismatched\":%ld,\"lost_result\":%ld", g_chain, chn.calls, chn.seen_ok, chn.mismatched, chn.lost_result);
        } else if(!strcmp(op, "dl_set_range")) {
            zckRange *r = strcmp(t[2], "null") ? ranges[slot(t[2])] : NULL;
            RET("\"rc\":%d", (int)zck_dl_set_range(dls[slot(t[1])], r));
        } else if(!strcmp(op, "dl_reset")) {
            zck_dl_reset(dls[slot(t[1])]);
            RET("\"rc\":%d", 1);
        } else if(!strcmp(op, "dl_free")) {
            int d = slot(t[1]);
            if(dls[d]) zck_dl_free(&dls[d]);
            RET("\"rc\":%d", 1);
        } else if(!strcmp(op, "dl_stats")) {
            zckDL *d = dls[slot(t[1])];
            RET("\"dl\":%zd,\"ul\":%zd", zck_dl_get_bytes_downloaded(d), zck_dl_get_bytes_uploaded(d));
        } else if(!strcmp(op, "hdrline") || !strcmp(op, "body") || !strcmp(op, "zhdr")) {
            /* hdrline D data | body D data frag [cont] | zhdr D data frag */
            size_t l;
            char *d = get_data(t[2], &l);
            int kind = !strcmp(op, "body") ? 0 : (!strcmp(op, "zhdr") ? 1 : 2);
            size_t ok = feed_frag_kg(dls[slot(t[1])], d, l, t[3], kind, t[4] && !strcmp(t[4], "cont"));
            free(d);
            RET("\"rc\":%zu", ok);
        } else if(!strcmp(op, "update")) {
            do_update(t, nt);
        } else if(!strcmp(op, "serve")) {
            do_serve(t, nt);
        } else if(!strcmp(op, "sweep")) {
            do_sweep(t, nt);
        } else if(!strcmp(op, "watch")) {
            io_watch(t[1], t[2] ? t[2] : "");
            RET("\"rc\":%d", 1);
        } else if(!strcmp(op, "watchstat")) {
            RET("\"oob\":%ld,\"writes\":%ld", io_oob_count, io_watch_writes);
        } else if(!strcmp(op, "iocounts")) {
            io_dump_counts();
        } else if(!strcmp(op, "min_dl_size")) {
            RET("\"rc\":%d", zck_get_min_download_size());
        } else if(!strcmp(op, "names")) {
            char e1[128], e2[128];
            json_escape(e1, sizeof(e1), zck_hash_name_from_type(atoi(t[1])));
            json_escape(e2, sizeof(e2), zck_comp_name_from_type(atoi(t[2])));
            RET("\"hash\":\"%s\",\"comp\":\"%s\"", e1, e2);
        } else {
            die("unknown op", op);
        }
    }
    zh_log("{\"ev\":\"end\",\"ops\":%d,\"app_noise\":%ld}", opi, app_noise_made);
    return 0;
}
