/* h_hash - digests through libzck's hash interface (hash_setup / hash_init /
 * hash_update / hash_finalize) with a given segmentation (C18).
 *
 *   h_hash <msgfile> <cases> <out>
 * case line:  <type> <off> <len> <mode> <param>
 *   mode W whole | B one byte per update | S split once at <param> | R random pieces (seed <param>) | K pieces of <param> bytes
 *        G generated long message: the message file repeated cyclically up to <len> bytes (may exceed 4 GiB), fed in pieces of <param> bytes
 * out line:   <hex digest> <digest_size> <updates>
 * Each message is copied into an exact-size heap buffer first. */
#define _GNU_SOURCE
#include <stdint.h>
#include <stdio.h>
#include <stdlib.h>
#include <string.h>
#include <zck.h>
#include "zck_private.h"

/* State an application that uses the same libraries legitimately leaves behind: an (already handled) error on OpenSSL's
 * per-thread error queue - from a failed BIO_new_file() of its own - and a non-zero errno.  Enabled by ZCKV_APP_NOISE=1. */
#include <dlfcn.h>
#include <errno.h>
static int app_noise_on = -1;
static long app_noise_made = 0;
static void app_noise(void) {
    if(app_noise_on < 0) app_noise_on = getenv("ZCKV_APP_NOISE") != NULL;
    if(!app_noise_on) return;
    void *(*bio_new_file)(const char *, const char *) = (void *(*)(const char *, const char *))dlsym(RTLD_DEFAULT, "BIO_new_file");
    if(bio_new_file) {
        void *b = bio_new_file("/nonexistent-zckv/no-such-file", "r");
        if(!b) app_noise_made++;
    }
    errno = EINTR;
}

int main(int argc, char **argv) {
    if(argc < 4) return 3;
    FILE *mf = fopen(argv[1], "rb");
    FILE *cf = fopen(argv[2], "r");
    FILE *of = fopen(argv[3], "w");
    if(!mf || !cf || !of) { perror("open"); return 3; }
    fseek(mf, 0, SEEK_END);
    long ml = ftell(mf);
    fseek(mf, 0, SEEK_SET);
    unsigned char *msg = malloc(ml);
    if(fread(msg, 1, ml, mf) != (size_t)ml) return 3;
    zck_set_log_level(ZCK_LOG_NONE);
    zckCtx *z = zck_create();
    int type; long off, len; char mode; unsigned long param;
    while(fscanf(cf, "%d %ld %ld %c %lu", &type, &off, &len, &mode, &param) == 5) {
        app_noise();
        if(mode == 'H') {
            /* one single update call over a contiguous buffer of <len> bytes (the message file repeated cyclically) */
            zckHashType t = {0};
            zckHash h = {0};
            if(!hash_setup(z, &t, type) || !hash_init(z, &h, &t)) { fprintf(of, "ERR-setup 0 0\n"); zck_clear_error(z); continue; }
            char *big = malloc(len ? len : 1);
            if(!big) { fprintf(of, "ERR-alloc 0 0\n"); continue; }
            for(long pos = 0; pos < len; pos += ml) {
                memcpy(big + pos, msg, (len - pos) < ml ? (size_t)(len - pos) : (size_t)ml);
                /* every block starts with its own number: the buffer is not periodic, so hashing the wrong part of it shows */
                uint64_t j = (uint64_t)(pos / ml);
                if(len - pos >= 8) memcpy(big + pos, &j, 8);
            }
            int ok = hash_update(z, &h, big, len);
            char *d = ok ? hash_finalize(z, &h) : NULL;
            if(!d) fprintf(of, "ERR-final 0 1\n");
            else {
                for(int i = 0; i < t.digest_size; i++) fprintf(of, "%02x", (unsigned char)d[i]);
                fprintf(of, " %d 1\n", t.digest_size);
                free(d);
            }
            hash_close(&h);
            free(big);
            continue;
        }
        if(mode == 'G') {
            zckHashType t = {0};
            zckHash h = {0};
            if(!hash_setup(z, &t, type) || !hash_init(z, &h, &t)) { fprintf(of, "ERR-setup 0 0\n"); zck_clear_error(z); continue; }
            long pos = 0, ups = 0;
            int ok = 1;
            if(param == 0 || (long)param > ml) param = ml;
            while(pos < len && ok) {
                long at = pos % ml;
                long n = (long)param;
                if(n > ml - at) n = ml - at;
                if(n > len - pos) n = len - pos;
                ok = hash_update(z, &h, (const char *)msg + at, n);
                pos += n;
                ups++;
            }
            char *d = ok ? hash_finalize(z, &h) : NULL;
            if(!d) fprintf(of, "ERR-final 0 %ld\n", ups);
            else {
                for(int i = 0; i < t.digest_size; i++) fprintf(of, "%02x", (unsigned char)d[i]);
                fprintf(of, " %d %ld\n", t.digest_size, ups);
                free(d);
            }
            hash_close(&h);
            continue;
        }
        if(off < 0 || len < 0 || off + len > ml) return 3;
        char *m = malloc(len ? len : 1);
        memcpy(m, msg + off, len);
        zckHashType t = {0};
        zckHash h = {0};
        if(!hash_setup(z, &t, type) || !hash_init(z, &h, &t)) { fprintf(of, "ERR-setup 0 0\n"); free(m); zck_clear_error(z); continue; }
        long pos = 0, ups = 0;
        uint64_t s = param * 2654435761ULL + 88172645463325252ULL;
        int ok = 1;
        while(pos < len && ok) {
            long n;
            switch(mode) {
            case 'W': n = len; break;
            case 'B': n = 1; break;
            case 'S': n = pos == 0 ? (long)param : len - pos; if(n <= 0) n = len - pos; break;
            case 'K': n = param ? (long)param : 1; break;
            default: s ^= s << 13; s ^= s >> 7; s ^= s << 17; n = 1 + (long)(s % 300); if(s % 11 == 0) n = 1 + (long)(s % 70000); break;
            }
            if(n > len - pos) n = len - pos;
            /* each piece from its own exact-size buffer */
            char *pc = malloc(n);
            memcpy(pc, m + pos, n);
            ok = hash_update(z, &h, pc, n);
            free(pc);
            pos += n;
            ups++;
        }
        char *d = ok ? hash_finalize(z, &h) : NULL;
        if(!d) { fprintf(of, "ERR-final 0 %ld\n", ups); }
        else {
            for(int i = 0; i < t.digest_size; i++) fprintf(of, "%02x", (unsigned char)d[i]);
            fprintf(of, " %d %ld\n", t.digest_size, ups);
            free(d);
        }
        hash_close(&h);
        free(m);
    }
    fprintf(of, "NOISE %ld\n", app_noise_made);
    fprintf(of, "END\n");
    fclose(of);
    zck_free(&z);
    return 0;
}
