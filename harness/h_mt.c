/* h_mt - independent contexts driven from different threads (C19).
 *
 *   h_mt <nthreads> <rounds> <seed> <workdir> <par|ser> <fixtures-dir> [log]
 *
 * Thread k runs `rounds` rounds of scenarios on its OWN contexts and files
 * under <workdir>/t<k>/ and appends every return value and a fingerprint of
 * every output to <workdir>/t<k>.log; op start/end times go to t<k>.times.
 * In `ser` mode the same per-thread programs run one after another in the
 * main thread's order, so t<k>.log of a parallel run must equal t<k>.log of
 * a serial run.  Logging settings are fixed before any thread starts. */
#define _GNU_SOURCE
#include <errno.h>
#include <fcntl.h>
#include <pthread.h>
#include <sched.h>
#include <stdarg.h>
#include <stdint.h>
#include <stdio.h>
#include <stdlib.h>
#include <string.h>
#include <sys/stat.h>
#include <time.h>
#include <unistd.h>
#include <zck.h>

static int nthreads, rounds, logmode;
/* messages the library delivered to the (process-wide, set-once) log callback while THIS thread was inside it */
static __thread long tl_msgs;
static void log_cb(const char *function, zck_log_type lt, const char *format, va_list args) {
    (void)function; (void)lt; (void)format; (void)args;
    tl_msgs++;
}
static unsigned long seed;
static const char *workdir, *fixtures;

struct T {
    int k;
    FILE *log, *times;
    uint64_t rng;
    char dir[512];
    /* a context created and opened by the MAIN thread before the workers start, then used by this worker alone */
    zckCtx *hand;
    int hand_fd, hand_ok;
    size_t hand_n;
    uint64_t hand_want;
};

static uint64_t nxt(struct T *t) { t->rng ^= t->rng << 13; t->rng ^= t->rng >> 7; t->rng ^= t->rng << 17; return t->rng; }
static uint64_t fnv(const void *p, size_t n, uint64_t h) {
    const unsigned char *c = p;
    for(size_t i = 0; i < n; i++) { h ^= c[i]; h *= 1099511628211ULL; }
    return h;
}
static double now(void) { struct timespec ts; clock_gettime(CLOCK_MONOTONIC, &ts); return ts.tv_sec + ts.tv_nsec / 1e9; }

static void L(struct T *t, const char *fmt, ...) {
    va_list ap;
    va_start(ap, fmt);
    vfprintf(t->log, fmt, ap);
    va_end(ap);
    fputc('\n', t->log);
}
#define OP(t, name, ...) do { double _a = now(); __VA_ARGS__; fprintf((t)->times, "%s %.6f %.6f\n", name, _a, now()); if(nxt(t) % 3 == 0) sched_yield(); } while(0)

static uint64_t file_fnv(const char *path) {
    int fd = open(path, O_RDONLY);
    if(fd < 0) return 0;
    char buf[65536];
    uint64_t h = 1469598103934665603ULL;
    ssize_t r;
    while((r = read(fd, buf, sizeof(buf))) > 0) h = fnv(buf, r, h);
    close(fd);
    return h;
}

static char *gen_content(struct T *t, size_t n, unsigned variant) {
    char *b = malloc(n ? n : 1);
    uint64_t s = 0x9E3779B97F4A7C15ULL * (t->k + 1) + variant * 7919 + seed;
    static const char *words[] = {"alpha ", "beta ", "<text:p>", "</text:p>\n", "zchunk ", "0123456789", "lorem ipsum ", "\n"};
    size_t o = 0;
    while(o < n) {
        s ^= s << 13; s ^= s >> 7; s ^= s << 17;
        if((s & 15) == 0) { b[o++] = (char)(s >> 8); continue; }
        const char *w = words[(s >> 4) % 8];
        size_t l = strlen(w);
        if(l > n - o) l = n - o;
        memcpy(b + o, w, l);
        o += l;
    }
    return b;
}

/* extra writer options for the next write_file call of this thread */
static __thread int tw_cmax, tw_chunk_hash = -1, tw_full_hash = -1;
static int write_file(struct T *t, const char *path, const char *data, size_t n, int comp, int use_dict, int manual) {
    int fd = open(path, O_WRONLY | O_CREAT | O_TRUNC, 0644);
    if(fd < 0) return -100;
    zckCtx *z = zck_create();
    int rc = 0;
    if(!zck_init_write(z, fd)) { rc = -1; goto out; }
    if(!zck_set_ioption(z, ZCK_COMP_TYPE, comp)) { rc = -2; goto out; }
    if(comp == ZCK_COMP_ZSTD) zck_set_ioption(z, ZCK_ZSTD_COMP_LEVEL, 1);
    if(manual) zck_set_ioption(z, ZCK_MANUAL_CHUNK, 1);
    if(tw_chunk_hash >= 0 && !zck_set_ioption(z, ZCK_HASH_CHUNK_TYPE, tw_chunk_hash)) { rc = -7; goto out; }
    if(tw_full_hash >= 0 && !zck_set_ioption(z, ZCK_HASH_FULL_TYPE, tw_full_hash)) { rc = -8; goto out; }
    if(tw_cmax > 0 && !zck_set_ioption(z, ZCK_CHUNK_MAX, tw_cmax)) { rc = -9; goto out; }
    if(use_dict && comp == ZCK_COMP_ZSTD) {
        char *d = gen_content(t, 2000, 99);
        if(!zck_set_soption(z, ZCK_COMP_DICT, d, 2000)) rc = -3;
        free(d);
        if(rc) goto out;
    }
    size_t pos = 0;
    while(pos < n) {
        size_t c = 1 + nxt(t) % 30000;
        if(c > n - pos) c = n - pos;
        if(zck_write(z, data + pos, c) != (ssize_t)c) { rc = -4; goto out; }
        pos += c;
        if(manual && zck_end_chunk(z) < 0) { rc = -5; goto out; }
    }
    if(!zck_close(z)) rc = -6;
out:
    zck_free(&z);
    close(fd);
    return rc;
}

static void scenario_round(struct T *t, int round) {
    char p1[600], p2[600], pt[600];
    snprintf(p1, sizeof(p1), "%s/a.zck", t->dir);
    snprintf(p2, sizeof(p2), "%s/b.zck", t->dir);
    snprintf(pt, sizeof(pt), "%s/tgt.zck", t->dir);
    int comp = ((t->k + round) % 2) ? ZCK_COMP_ZSTD : ZCK_COMP_NONE;
    int use_dict = (t->k + round) % 3 == 0;
    size_t n = 30000 + (nxt(t) % 170000);
    char *A = gen_content(t, n, round * 2);
    /* B = A with an edit in the middle: shares chunks with A */
    char *B = malloc(n + 100);
    size_t cut = n / 2;
    memcpy(B, A, cut);
    memset(B + cut, 'x' + (t->k % 3), 100);
    memcpy(B + cut + 100, A + cut, n - cut);
    int rc;
    OP(t, "write", rc = write_file(t, p1, A, n, comp, use_dict, 0));
    L(t, "r%d write a rc=%d fnv=%016llx", round, rc, (unsigned long long)file_fnv(p1));
    OP(t, "write", rc = write_file(t, p2, B, n + 100, comp, use_dict, 0));
    L(t, "r%d write b rc=%d fnv=%016llx", round, rc, (unsigned long long)file_fnv(p2));

    /* read back */
    {
        int fd = open(p1, O_RDONLY);
        zckCtx *z = zck_create();
        int ok = 0;
        uint64_t h = 1469598103934665603ULL;
        size_t total = 0;
        OP(t, "read", {
            ok = zck_init_read(z, fd);
            if(ok) {
                char buf[7001];
                ssize_t r;
                while((r = zck_read(z, buf, sizeof(buf))) > 0) { h = fnv(buf, r, h); total += r; }
                ok = (r == 0) && zck_close(z);
            }
        });
        L(t, "r%d read ok=%d total=%zu fnv=%016llx want=%016llx", round, ok, total, (unsigned long long)h, (unsigned long long)fnv(A, n, 1469598103934665603ULL));
        zck_free(&z);
        close(fd);
    }
    /* validate + random access */
    {
        int fd = open(p2, O_RDONLY);
        zckCtx *z = zck_create();
        int v = -9;
        OP(t, "validate", { if(zck_init_read(z, fd)) v = zck_validate_checksums(z); });
        L(t, "r%d validate rc=%d chunks=%zd", round, v, zck_get_chunk_count(z));
        ssize_t cnt = zck_get_chunk_count(z);
        for(int i = 0; i < 4 && cnt > 1; i++) {
            zckChunk *c = zck_get_chunk(z, 1 + nxt(t) % (cnt - 1));
            ssize_t sz = zck_get_chunk_size(c);
            char *b = malloc(sz > 0 ? sz : 1);
            ssize_t r = -9;
            OP(t, "chunkdata", r = zck_get_chunk_data(c, b, sz));
            L(t, "r%d chunk %zd rc=%zd fnv=%016llx", round, zck_get_chunk_number(c), r, (unsigned long long)(r > 0 ? fnv(b, r, 1469598103934665603ULL) : 0));
            free(b);
        }
        zck_free(&z);
        close(fd);
    }
    /* copy_chunks: target = header of b + zeros; source a */
    {
        int sfd = open(p1, O_RDONLY);
        int bfd = open(p2, O_RDONLY);
        zckCtx *src = zck_create();
        zckCtx *bz = zck_create();
        if(zck_init_read(src, sfd) && zck_init_read(bz, bfd)) {
            ssize_t hl = zck_get_header_length(bz), tl = zck_get_length(bz);
            char *img = calloc(tl, 1);
            if(pread(bfd, img, hl, 0) != hl) { L(t, "r%d copy setup failed", round); }
            int tfd = open(pt, O_RDWR | O_CREAT | O_TRUNC, 0644);
            if(write(tfd, img, tl) != tl) { L(t, "r%d copy setup failed", round); }
            lseek(tfd, 0, SEEK_SET);
            zckCtx *tg = zck_create();
            int ok = zck_init_read(tg, tfd);
            int fv = -9, cp = -9;
            OP(t, "find_valid", fv = zck_find_valid_chunks(tg));
            OP(t, "copy", cp = zck_copy_chunks(src, tg));
            uint64_t fh = 1469598103934665603ULL;
            int nvalid = 0, nfailed = 0;
            for(zckChunk *c = zck_get_first_chunk(tg); c; c = zck_get_next_chunk(c)) {
                int v = zck_get_chunk_valid(c);
                fh = fnv(&v, sizeof(v), fh);
                nvalid += v == 1; nfailed += v == -1;
            }
            L(t, "r%d copy open=%d fv=%d cp=%d valid=%d failed=%d flags=%016llx", round, ok, fv, cp, nvalid, nfailed, (unsigned long long)fh);
            /* match on a fresh target context */
            zckCtx *tg2 = zck_create();
            int tfd2 = open(pt, O_RDONLY);
            int mt = -9, nm = 0;
            if(zck_init_read(tg2, tfd2)) {
                OP(t, "match", mt = zck_find_matching_chunks(src, tg2));
                for(zckChunk *c = zck_get_first_chunk(tg2); c; c = zck_get_next_chunk(c)) nm += zck_get_chunk_valid(c) == 1;
            }
            L(t, "r%d match rc=%d matched=%d", round, mt, nm);
            zck_free(&tg2);
            close(tfd2);
            /* missing range + callbacks: fetch what is still missing from b */
            zck_reset_failed_chunks(tg);
            zckDL *dl = zck_dl_init(tg);
            int rounds_dl = 0, okdl = 1;
            while(zck_missing_chunks(tg) > 0 && rounds_dl < 2000 && okdl) {
                rounds_dl++;
                zck_dl_reset(dl);
                zckRange *rg = zck_get_missing_range(tg, 1);
                if(!rg) { okdl = 0; break; }
                zck_dl_set_range(dl, rg);
                char *rs = zck_get_range_char(tg, rg);
                unsigned long long a = 0, b = 0;
                if(!rs || sscanf(rs, "%llu-%llu", &a, &b) != 2 || b < a || b >= (unsigned long long)tl) okdl = 0;
                else {
                    size_t ln = b - a + 1;
                    char *pay = malloc(ln);
                    if(pread(bfd, pay, ln, a) != (ssize_t)ln) okdl = 0;
                    size_t pos = 0;
                    OP(t, "callbacks", {
                        while(pos < ln && okdl) {
                            size_t c = 1 + nxt(t) % 16384;
                            if(c > ln - pos) c = ln - pos;
                            if(zck_write_chunk_cb(pay + pos, 1, c, dl) != c) okdl = 0;
                            pos += c;
                        }
                    });
                    free(pay);
                }
                free(rs);
                zck_dl_set_range(dl, NULL);
                zck_range_free(&rg);
            }
            int vd = -9;
            OP(t, "validate_data", vd = zck_validate_data_checksum(tg));
            L(t, "r%d download ok=%d rounds=%d missing=%d vd=%d tgt=%016llx b=%016llx", round, okdl, rounds_dl, zck_missing_chunks(tg), vd,
              (unsigned long long)file_fnv(pt), (unsigned long long)file_fnv(p2));
            zck_dl_free(&dl);
            zck_free(&tg);
            close(tfd);
            free(img);
        } else L(t, "r%d copy: open failed", round);
        zck_free(&src);
        zck_free(&bz);
        close(sfd);
        close(bfd);
    }
    /* malformed fixtures: unknown checksum / compression types, per-thread values */
    for(int which = 0; which < 2; which++) {
        char fp[700];
        snprintf(fp, sizeof(fp), "%s/%s%d.zck", fixtures, which ? "comp" : "hash", t->k % 16);
        int fd = open(fp, O_RDONLY);
        if(fd < 0) continue;
        zckCtx *z = zck_create();
        int ok = -9;
        char msg[400] = "";
        OP(t, "open_malformed", { ok = zck_init_read(z, fd); const char *e = zck_get_error(z); if(e) snprintf(msg, sizeof(msg), "%s", e); });
        for(char *c = msg; *c; c++) if(*c == '\n') *c = ' ';
        L(t, "r%d malformed %s ok=%d err=%s", round, which ? "comp" : "hash", ok, msg);
        const char *hn = NULL, *cn = NULL;
        char hcopy[64], ccopy[64];
        OP(t, "names", { hn = zck_hash_name_from_type(40 + t->k); snprintf(hcopy, sizeof(hcopy), "%s", hn); cn = zck_comp_name_from_type(50 + t->k); snprintf(ccopy, sizeof(ccopy), "%s", cn); });
        L(t, "r%d names %s %s", round, hcopy, ccopy);
        zck_free(&z);
        close(fd);
    }
    free(A);
    free(B);
}


/* ---- second scenario block: step-by-step and pinned opens, getters, stored-bytes access, digest comparison,
 * multipart downloads through zck_header_cb + zck_write_chunk_cb (incl. a corrupted part), header download
 * through zck_write_zck_header_cb ------------------------------------------------------------------------- */
static size_t build_multipart(const char *rstr, int bfd, size_t total, const char *boundary, int quoted, char **hdr, char **body, int corrupt_first) {
    size_t cap = 1 << 16, len = 0;
    char *b = malloc(cap);
    const char *p = rstr;
    int part = 0;
    while(*p) {
        char *e;
        unsigned long long a = strtoull(p, &e, 10);
        if(*e != '-') break;
        unsigned long long z = strtoull(e + 1, &e, 10);
        if(*e == ',') e++;
        p = e;
        if(z < a || z >= total) break;
        size_t ln = z - a + 1;
        if(len + ln + 512 > cap) { cap = (len + ln + 512) * 2; b = realloc(b, cap); }
        len += snprintf(b + len, cap - len, "\r\n--%s\r\nContent-Type: application/octet-stream\r\nContent-Range: bytes %llu-%llu/%zu\r\n\r\n", boundary, a, z, total);
        if(pread(bfd, b + len, ln, a) != (ssize_t)ln) break;
        if(corrupt_first && part == 0) b[len + ln / 2] ^= 0x5a;
        len += ln;
        part++;
    }
    if(len + 256 > cap) { cap = len + 256; b = realloc(b, cap); }
    len += snprintf(b + len, cap - len, "\r\n--%s--\r\n", boundary);
    *body = b;
    *hdr = malloc(400);
    if(quoted) snprintf(*hdr, 400, "Content-Type: multipart/byteranges; boundary=\"%s\"\r\n", boundary);
    else snprintf(*hdr, 400, "Content-Type: multipart/byteranges; boundary=%s\r\n", boundary);
    return len;
}

/* A writer whose output device refuses every byte (/dev/full): zck_close must fail, and nothing this context does on its way out may
 * touch what belongs to other threads (descriptor numbers are process-wide: a descriptor closed twice is somebody else's the second time) */
static void scenario_failing_writer(struct T *t, int round) {
    int fd = open("/dev/full", O_WRONLY);
    if(fd < 0) { L(t, "r%d failing-writer: no /dev/full", round); return; }
    zckCtx *z = zck_create();
    int iw = -9, w = -9, cl = -9;
    char *d = gen_content(t, 20000, 50 + round);
    OP(t, "failing_write", {
        iw = zck_init_write(z, fd);
        if(iw) { w = (int)zck_write(z, d, 20000); cl = zck_close(z); }
    });
    /* an application reports the failure before it cleans up */
    struct timespec ts = {0, 300000 + (long)(nxt(t) % 700000)};
    nanosleep(&ts, NULL);
    sched_yield();
    OP(t, "failing_free", zck_free(&z));
    close(fd);
    free(d);
    L(t, "r%d failing-writer init=%d write=%d close=%d", round, iw, w, cl);
}

static void scenario_round2(struct T *t, int round) {
    char p1[600], p2[600], pt[600], ph[600];
    snprintf(p1, sizeof(p1), "%s/a.zck", t->dir);
    snprintf(p2, sizeof(p2), "%s/c.zck", t->dir);
    snprintf(pt, sizeof(pt), "%s/tgt2.zck", t->dir);
    snprintf(ph, sizeof(ph), "%s/hdr.zck", t->dir);
    {
        /* c.zck: many small chunks, checksum types that differ from thread to thread */
        size_t n = 40000 + (nxt(t) % 60000);
        char *Cc = gen_content(t, n, round * 2 + 1);
        int rc;
        tw_cmax = 1500 + 100 * (t->k % 8);
        tw_chunk_hash = (t->k + round) % 4;
        tw_full_hash = (t->k / 2 + round) % 4;
        OP(t, "write", rc = write_file(t, p2, Cc, n, ((t->k + round) % 3) ? ZCK_COMP_ZSTD : ZCK_COMP_NONE, (t->k % 4) == 1, 0));
        tw_cmax = 0; tw_chunk_hash = -1; tw_full_hash = -1;
        L(t, "r%d write c rc=%d fnv=%016llx", round, rc, (unsigned long long)file_fnv(p2));
        free(Cc);
    }
    /* getters + pinned, step-by-step open of a.zck */
    char *hdig = NULL;
    int htype = -1;
    ssize_t hlen = -1;
    {
        int fd = open(p1, O_RDONLY);
        zckCtx *z = zck_create();
        int ok = 0;
        OP(t, "getters", {
            ok = zck_init_read(z, fd);
            if(ok) {
                hdig = zck_get_header_digest(z);
                char *dd = zck_get_data_digest(z);
                htype = zck_get_full_hash_type(z);
                hlen = zck_get_header_length(z);
                uint64_t h = 1469598103934665603ULL;
                for(zckChunk *c = zck_get_first_chunk(z); c; c = zck_get_next_chunk(c)) {
                    char *cd = zck_get_chunk_digest(c);
                    if(cd) { h = fnv(cd, strlen(cd), h); free(cd); }
                    ssize_t v[4] = {zck_get_chunk_start(c), zck_get_chunk_comp_size(c), zck_get_chunk_size(c), zck_get_chunk_number(c)};
                    h = fnv(v, sizeof(v), h);
                }
                L(t, "r%d getters flags=%zd fht=%d fds=%zd cht=%d cds=%zd lead=%zd hdr=%zd data=%zd len=%zd det=%d hd=%s dd=%s chunks=%016llx", round,
                  zck_get_flags(z), htype, zck_get_full_digest_size(z), zck_get_chunk_hash_type(z), zck_get_chunk_digest_size(z), zck_get_lead_length(z),
                  hlen, zck_get_data_length(z), zck_get_length(z), (int)zck_is_detached_header(z), hdig ? hdig : "-", dd ? dd : "-", (unsigned long long)h);
                free(dd);
            }
        });
        if(!ok) L(t, "r%d getters open failed", round);
        /* stored bytes of a few chunks, digest comparison, hash table */
        ssize_t cnt = ok ? zck_get_chunk_count(z) : 0;
        for(int i = 0; i < 3 && cnt > 1; i++) {
            zckChunk *c = zck_get_chunk(z, nxt(t) % cnt);
            ssize_t sz = zck_get_chunk_comp_size(c);
            char *b = malloc(sz > 0 ? sz : 1);
            ssize_t r = -9;
            OP(t, "chunkcomp", r = zck_get_chunk_comp_data(c, b, sz));
            L(t, "r%d chunkcomp %zd rc=%zd fnv=%016llx", round, zck_get_chunk_number(c), r, (unsigned long long)(r > 0 ? fnv(b, r, 1469598103934665603ULL) : 0));
            free(b);
        }
        if(cnt > 2) {
            int hd = -9, c1 = -9, c2 = -9;
            OP(t, "hashdb", hd = zck_generate_hashdb(z));
            OP(t, "cmpchunk", { c1 = zck_compare_chunk_digest(zck_get_chunk(z, 1), zck_get_chunk(z, 1)); c2 = zck_compare_chunk_digest(zck_get_chunk(z, 1), zck_get_chunk(z, 2)); });
            L(t, "r%d hashdb=%d cmp_same=%d cmp_other=%d", round, hd, c1, c2);
        }
        zck_free(&z);
        close(fd);
    }
    for(int variant = 0; variant < 3 && hdig; variant++) {
        /* 0: genuine pins, validate_lead first; 1: genuine pins incl. length; 2: wrong digest (must be refused) */
        int fd = open(p1, O_RDONLY);
        zckCtx *z = zck_create();
        int r0 = -9, r1 = -9, r2 = -9, r3 = -9, r4 = -9, r5 = -9, r6 = -9;
        char *pin = strdup(hdig);
        if(variant == 2) pin[3] = pin[3] == '0' ? '1' : '0';
        OP(t, "pinned_open", {
            r0 = zck_init_adv_read(z, fd);
            r1 = zck_set_ioption(z, ZCK_VAL_HEADER_HASH_TYPE, htype);
            r2 = zck_set_soption(z, ZCK_VAL_HEADER_DIGEST, pin, strlen(pin));
            if(variant == 1) r3 = zck_set_ioption(z, ZCK_VAL_HEADER_LENGTH, hlen);
            if(variant != 1) r4 = zck_validate_lead(z);
            r5 = zck_read_lead(z);
            r6 = r5 ? zck_read_header(z) : -1;
        });
        L(t, "r%d pinned v%d adv=%d type=%d digest=%d length=%d validate_lead=%d read_lead=%d read_header=%d", round, variant, r0, r1, r2, r3, r4, r5, r6);
        free(pin);
        zck_free(&z);
        close(fd);
    }
    free(hdig);
    /* multipart download of b.zck into a fresh target, through the header callback */
    {
        int bfd = open(p2, O_RDONLY);
        zckCtx *bz = zck_create();
        if(zck_init_read(bz, bfd)) {
            ssize_t hl = zck_get_header_length(bz), tl = zck_get_length(bz);
            /* the header itself arrives through zck_write_zck_header_cb */
            int hfd = open(ph, O_RDWR | O_CREAT | O_TRUNC, 0644);
            zckCtx *hz = zck_create();
            int hok = zck_init_adv_read(hz, hfd);
            zckDL *hdl = zck_dl_init(hz);
            char *himg = malloc(hl);
            if(pread(bfd, himg, hl, 0) != hl) hok = 0;
            OP(t, "header_cb_download", {
                size_t pos = 0;
                while(pos < (size_t)hl && hok) {
                    size_t c = 1 + nxt(t) % 700;
                    if(c > hl - pos) c = hl - pos;
                    if(zck_write_zck_header_cb(himg + pos, 1, c, hdl) != c) hok = 0;
                    pos += c;
                }
            });
            lseek(hfd, 0, SEEK_SET);
            int rl = hok ? zck_read_lead(hz) : -1;
            int rh = rl == 1 ? zck_read_header(hz) : -1;
            L(t, "r%d header-download ok=%d read_lead=%d read_header=%d dl=%zd chunks=%zd", round, hok, rl, rh, zck_dl_get_bytes_downloaded(hdl), rh == 1 ? zck_get_chunk_count(hz) : -1);
            zck_dl_free(&hdl);
            free(himg);
            /* body: continue on the same file with a full context */
            if(ftruncate(hfd, tl) < 0) {}
            /* every other chunk is already there, so that the missing extents are not contiguous */
            for(zckChunk *c = zck_get_first_chunk(bz); c; c = zck_get_next_chunk(c)) {
                ssize_t cs = zck_get_chunk_comp_size(c), st = zck_get_chunk_start(c);
                if(zck_get_chunk_number(c) % 2 == 1 && cs > 0) {
                    char *tmp = malloc(cs);
                    if(pread(bfd, tmp, cs, st) == cs && pwrite(hfd, tmp, cs, st) != cs) {}
                    free(tmp);
                }
            }
            zck_free(&hz);
            lseek(hfd, 0, SEEK_SET);
            zckCtx *tg = zck_create();
            int ok = zck_init_read(tg, hfd);
            int fv = -9;
            OP(t, "find_valid", fv = zck_find_valid_chunks(tg));
            zckDL *dl = zck_dl_init(tg);
            char boundary[80];
            static const char *shapes[] = {"%08x%08x", "gc0p4Jq0M:%x'(%x)", "----=_Part_%x.%x", "a.b+c?d_%x,%x/e=f"};
            int rounds_dl = 0, okdl = ok, corrupted = 0, failed_seen = 0;
            while(okdl && zck_missing_chunks(tg) + zck_failed_chunks(tg) > 0 && rounds_dl < 500) {
                rounds_dl++;
                if(zck_failed_chunks(tg) > 0) { failed_seen += zck_failed_chunks(tg); zck_reset_failed_chunks(tg); }
                zck_dl_reset(dl);
                zckRange *rg = zck_get_missing_range(tg, 2 + (t->k + rounds_dl) % 5);
                if(!rg) { okdl = 0; break; }
                zck_dl_set_range(dl, rg);
                char *rs = zck_get_range_char(tg, rg);
                int nr = zck_get_range_count(rg);
                snprintf(boundary, sizeof(boundary), shapes[(t->k + rounds_dl) % 4], (unsigned)(nxt(t) & 0xffffff), (unsigned)t->k);
                char *hdr = NULL, *body = NULL;
                int corrupt = (rounds_dl == 2 && !corrupted);
                corrupted |= corrupt;
                size_t blen = 0;
                if(!rs) okdl = 0;
                else if(nr >= 2) {
                    blen = build_multipart(rs, bfd, tl, boundary, (t->k + rounds_dl) % 2, &hdr, &body, corrupt);
                    OP(t, "header_cb", { if(zck_header_cb(hdr, 1, strlen(hdr), dl) != strlen(hdr)) okdl = 0; });
                } else {
                    unsigned long long a = 0, z = 0;
                    if(sscanf(rs, "%llu-%llu", &a, &z) != 2 || z < a || z >= (unsigned long long)tl) okdl = 0;
                    else { blen = z - a + 1; body = malloc(blen); if(pread(bfd, body, blen, a) != (ssize_t)blen) okdl = 0; if(corrupt) body[blen / 2] ^= 0x5a; }
                }
                int cbfail = 0;
                OP(t, "multipart_callbacks", {
                    size_t pos = 0;
                    while(pos < blen && okdl) {
                        size_t c = 1 + nxt(t) % 9000;
                        if(c > blen - pos) c = blen - pos;
                        if(zck_write_chunk_cb(body + pos, 1, c, dl) != c) { cbfail = 1; break; }
                        pos += c;
                    }
                });
                if(cbfail && !corrupt) okdl = 0;   /* only the corrupted response may be refused */
                L(t, "r%d mp-round %d ranges=%d corrupt=%d cbfail=%d missing=%d failed=%d", round, rounds_dl, nr, corrupt, cbfail, zck_missing_chunks(tg), zck_failed_chunks(tg));
                free(hdr); free(body); free(rs);
                zck_dl_set_range(dl, NULL);
                zck_range_free(&rg);
            }
            int vd = -9;
            OP(t, "validate_data", vd = zck_validate_data_checksum(tg));
            L(t, "r%d mp-download ok=%d rounds=%d failed_seen=%d missing=%d vd=%d tgt=%016llx b=%016llx dl=%zd", round, okdl, rounds_dl, failed_seen, zck_missing_chunks(tg), vd,
              (unsigned long long)file_fnv(ph), (unsigned long long)file_fnv(p2), zck_dl_get_bytes_downloaded(dl));
            (void)fv;
            zck_dl_free(&dl);
            zck_free(&tg);
            close(hfd);
        } else L(t, "r%d mp: open failed", round);
        zck_free(&bz);
        close(bfd);
    }
    (void)pt;
}

static void prepare_handoff(struct T *t) {
    char p[600];
    snprintf(p, sizeof(p), "%s/hand.zck", t->dir);
    size_t n = 700000 + (nxt(t) % 300000);
    char *A = gen_content(t, n, 77);
    int rc = write_file(t, p, A, n, ZCK_COMP_ZSTD, t->k % 2, 0);
    t->hand_want = fnv(A, n, 1469598103934665603ULL);
    t->hand_n = n;
    free(A);
    t->hand_fd = open(p, O_RDONLY);
    t->hand = zck_create();
    t->hand_ok = rc == 0 && t->hand && t->hand_fd >= 0 && zck_init_read(t->hand, t->hand_fd);
}

static pthread_barrier_t hand_barrier;
static int hand_barrier_on = 0;
static void use_handoff(struct T *t) {
    if(!t->hand) return;
    /* all workers start on their handed-over contexts together */
    if(hand_barrier_on) pthread_barrier_wait(&hand_barrier);
    int ok = t->hand_ok;
    uint64_t h = 1469598103934665603ULL;
    size_t total = 0;
    if(ok) {
        char buf[1009];
        ssize_t r;
        while((r = zck_read(t->hand, buf, sizeof(buf))) > 0) { h = fnv(buf, r, h); total += r; if((total / 1009) % 64 == 0) sched_yield(); }
        ok = (r == 0) && zck_close(t->hand);
    }
    L(t, "r0 handoff ok=%d total=%zu fnv=%016llx want=%016llx", ok, total, (unsigned long long)h, (unsigned long long)t->hand_want);
    zck_free(&t->hand);
    close(t->hand_fd);
}

static void *thread_main(void *arg) {
    struct T *t = arg;
    tl_msgs = 0;
    use_handoff(t);
    for(int r = 0; r < rounds; r++) {
        scenario_round(t, r);
        if((t->k + r) % 2 == 0) scenario_failing_writer(t, r);
        scenario_round2(t, r);
        if((t->k + r) % 2 == 1) scenario_failing_writer(t, r);
        if(logmode) L(t, "r%d log-messages-delivered-in-this-thread %ld", r, tl_msgs);
    }
    return NULL;
}

int main(int argc, char **argv) {
    if(argc < 7) { fprintf(stderr, "usage\n"); return 3; }
    nthreads = atoi(argv[1]);
    rounds = atoi(argv[2]);
    seed = strtoul(argv[3], NULL, 10);
    workdir = argv[4];
    int par = !strcmp(argv[5], "par");
    fixtures = argv[6];
    logmode = argc > 7 && !strcmp(argv[7], "log");
    /* global logging settings: once, before the threads start */
    if(logmode) { zck_set_log_callback(log_cb); zck_set_log_level(ZCK_LOG_DEBUG); }
    else zck_set_log_level(ZCK_LOG_NONE);
    struct T *ts = calloc(nthreads, sizeof(struct T));
    pthread_t *th = calloc(nthreads, sizeof(pthread_t));
    for(int k = 0; k < nthreads; k++) {
        char p[700];
        ts[k].k = k;
        ts[k].rng = seed * 1000003ULL + k * 7919 + 88172645463325252ULL;
        snprintf(ts[k].dir, sizeof(ts[k].dir), "%s/t%d", workdir, k);
        mkdir(ts[k].dir, 0755);
        snprintf(p, sizeof(p), "%s/t%d.log", workdir, k);
        ts[k].log = fopen(p, "w");
        snprintf(p, sizeof(p), "%s/t%d.times", workdir, k);
        ts[k].times = fopen(p, "w");
        if(!ts[k].log || !ts[k].times) { perror("log"); return 3; }
    }
    for(int k = 0; k < nthreads; k++) prepare_handoff(&ts[k]);
    if(par) {
        pthread_barrier_init(&hand_barrier, NULL, nthreads);
        hand_barrier_on = 1;
        for(int k = 0; k < nthreads; k++) pthread_create(&th[k], NULL, thread_main, &ts[k]);
        for(int k = 0; k < nthreads; k++) pthread_join(th[k], NULL);
    } else {
        for(int k = 0; k < nthreads; k++) thread_main(&ts[k]);
    }
    for(int k = 0; k < nthreads; k++) { fclose(ts[k].log); fclose(ts[k].times); }
    mode_t um = umask(022);
    printf("umask_after=%03o\n", um);
    return 0;
}
