/* h_mt - independent contexts driven from different threads (C19).
 *
 *   h_mt <nthreads> <rounds> <seed> <workdir> <par|ser> <fixtures-dir>
 *
 * Thread k runs `rounds` rounds of scenarios on its OWN contexts and files
 * under <workdir>/t<k>/ and appends every return value and a fingerprint of
 * every output to <workdir>/t<k>.log; op start/end times go to t<k>.times.
 * In `ser` mode the same per-thread programs run one after another in the
 * main thread's order, so t<k>.log of a parallel run must equal t<k>.log of
 * a serial run.  Logging settings are fixed before any thread starts. */
#define _GNU_SOURCE
#include <errno.h>
#include <fcntl.h>
#include <pthread.h>
#include <sched.h>
#include <stdarg.h>
#include <stdint.h>
#include <stdio.h>
#include <stdlib.h>
#include <string.h>
#include <sys/stat.h>
#include <time.h>
#include <unistd.h>
#include <zck.h>

static int nthreads, rounds;
static unsigned long seed;
static const char *workdir, *fixtures;

struct T {
    int k;
    FILE *log, *times;
    uint64_t rng;
    char dir[512];
};

static uint64_t nxt(struct T *t) { t->rng ^= t->rng << 13; t->rng ^= t->rng >> 7; t->rng ^= t->rng << 17; return t->rng; }
static uint64_t fnv(const void *p, size_t n, uint64_t h) {
    const unsigned char *c = p;
    for(size_t i = 0; i < n; i++) { h ^= c[i]; h *= 1099511628211ULL; }
    return h;
}
static double now(void) { struct timespec ts; clock_gettime(CLOCK_MONOTONIC, &ts); return ts.tv_sec + ts.tv_nsec / 1e9; }

static void L(struct T *t, const char *fmt, ...) {
    va_list ap;
    va_start(ap, fmt);
    vfprintf(t->log, fmt, ap);
    va_end(ap);
    fputc('\n', t->log);
}
#define OP(t, name, stmt) do { double _a = now(); stmt; fprintf((t)->times, "%s %.6f %.6f\n", name, _a, now()); if(nxt(t) % 3 == 0) sched_yield(); } while(0)

static uint64_t file_fnv(const char *path) {
    int fd = open(path, O_RDONLY);
    if(fd < 0) return 0;
    char buf[65536];
    uint64_t h = 1469598103934665603ULL;
    ssize_t r;
    while((r = read(fd, buf, sizeof(buf))) > 0) h = fnv(buf, r, h);
    close(fd);
    return h;
}

static char *gen_content(struct T *t, size_t n, unsigned variant) {
    char *b = malloc(n ? n : 1);
    uint64_t s = 0x9E3779B97F4A7C15ULL * (t->k + 1) + variant * 7919 + seed;
    static const char *words[] = {"alpha ", "beta ", "<text:p>", "</text:p>\n", "zchunk ", "0123456789", "lorem ipsum ", "\n"};
    size_t o = 0;
    while(o < n) {
        s ^= s << 13; s ^= s >> 7; s ^= s << 17;
        if((s & 15) == 0) { b[o++] = (char)(s >> 8); continue; }
        const char *w = words[(s >> 4) % 8];
        size_t l = strlen(w);
        if(l > n - o) l = n - o;
        memcpy(b + o, w, l);
        o += l;
    }
    return b;
}

static int write_file(struct T *t, const char *path, const char *data, size_t n, int comp, int use_dict, int manual) {
    int fd = open(path, O_WRONLY | O_CREAT | O_TRUNC, 0644);
    if(fd < 0) return -100;
    zckCtx *z = zck_create();
    int rc = 0;
    if(!zck_init_write(z, fd)) { rc = -1; goto out; }
    if(!zck_set_ioption(z, ZCK_COMP_TYPE, comp)) { rc = -2; goto out; }
    if(comp == ZCK_COMP_ZSTD) zck_set_ioption(z, ZCK_ZSTD_COMP_LEVEL, 1);
    if(manual) zck_set_ioption(z, ZCK_MANUAL_CHUNK, 1);
    if(use_dict && comp == ZCK_COMP_ZSTD) {
        char *d = gen_content(t, 2000, 99);
        if(!zck_set_soption(z, ZCK_COMP_DICT, d, 2000)) rc = -3;
        free(d);
        if(rc) goto out;
    }
    size_t pos = 0;
    while(pos < n) {
        size_t c = 1 + nxt(t) % 30000;
        if(c > n - pos) c = n - pos;
        if(zck_write(z, data + pos, c) != (ssize_t)c) { rc = -4; goto out; }
        pos += c;
        if(manual && zck_end_chunk(z) < 0) { rc = -5; goto out; }
    }
    if(!zck_close(z)) rc = -6;
out:
    zck_free(&z);
    close(fd);
    return rc;
}

static void scenario_round(struct T *t, int round) {
    char p1[600], p2[600], pt[600];
    snprintf(p1, sizeof(p1), "%s/a.zck", t->dir);
    snprintf(p2, sizeof(p2), "%s/b.zck", t->dir);
    snprintf(pt, sizeof(pt), "%s/tgt.zck", t->dir);
    int comp = ((t->k + round) % 2) ? ZCK_COMP_ZSTD : ZCK_COMP_NONE;
    int use_dict = (t->k + round) % 3 == 0;
    size_t n = 30000 + (nxt(t) % 170000);
    char *A = gen_content(t, n, round * 2);
    /* B = A with an edit in the middle: shares chunks with A */
    char *B = malloc(n + 100);
    size_t cut = n / 2;
    memcpy(B, A, cut);
    memset(B + cut, 'x' + (t->k % 3), 100);
    memcpy(B + cut + 100, A + cut, n - cut);
    int rc;
    OP(t, "write", rc = write_file(t, p1, A, n, comp, use_dict, 0));
    L(t, "r%d write a rc=%d fnv=%016llx", round, rc, (unsigned long long)file_fnv(p1));
    OP(t, "write", rc = write_file(t, p2, B, n + 100, comp, use_dict, 0));
    L(t, "r%d write b rc=%d fnv=%016llx", round, rc, (unsigned long long)file_fnv(p2));

    /* read back */
    {
        int fd = open(p1, O_RDONLY);
        zckCtx *z = zck_create();
        int ok = 0;
        uint64_t h = 1469598103934665603ULL;
        size_t total = 0;
        OP(t, "read", {
            ok = zck_init_read(z, fd);
            if(ok) {
                char buf[7001];
                ssize_t r;
                while((r = zck_read(z, buf, sizeof(buf))) > 0) { h = fnv(buf, r, h); total += r; }
                ok = (r == 0) && zck_close(z);
            }
        });
        L(t, "r%d read ok=%d total=%zu fnv=%016llx want=%016llx", round, ok, total, (unsigned long long)h, (unsigned long long)fnv(A, n, 1469598103934665603ULL));
        zck_free(&z);
        close(fd);
    }
    /* validate + random access */
    {
        int fd = open(p2, O_RDONLY);
        zckCtx *z = zck_create();
        int v = -9;
        OP(t, "validate", { if(zck_init_read(z, fd)) v = zck_validate_checksums(z); });
        L(t, "r%d validate rc=%d chunks=%zd", round, v, zck_get_chunk_count(z));
        ssize_t cnt = zck_get_chunk_count(z);
        for(int i = 0; i < 4 && cnt > 1; i++) {
            zckChunk *c = zck_get_chunk(z, 1 + nxt(t) % (cnt - 1));
            ssize_t sz = zck_get_chunk_size(c);
            char *b = malloc(sz > 0 ? sz : 1);
            ssize_t r = -9;
            OP(t, "chunkdata", r = zck_get_chunk_data(c, b, sz));
            L(t, "r%d chunk %zd rc=%zd fnv=%016llx", round, zck_get_chunk_number(c), r, (unsigned long long)(r > 0 ? fnv(b, r, 1469598103934665603ULL) : 0));
            free(b);
        }
        zck_free(&z);
        close(fd);
    }
    /* copy_chunks: target = header of b + zeros; source a */
    {
        int sfd = open(p1, O_RDONLY);
        int bfd = open(p2, O_RDONLY);
        zckCtx *src = zck_create();
        zckCtx *bz = zck_create();
        if(zck_init_read(src, sfd) && zck_init_read(bz, bfd)) {
            ssize_t hl = zck_get_header_length(bz), tl = zck_get_length(bz);
            char *img = calloc(tl, 1);
            if(pread(bfd, img, hl, 0) != hl) { L(t, "r%d copy setup failed", round); }
            int tfd = open(pt, O_RDWR | O_CREAT | O_TRUNC, 0644);
            if(write(tfd, img, tl) != tl) { L(t, "r%d copy setup failed", round); }
            lseek(tfd, 0, SEEK_SET);
            zckCtx *tg = zck_create();
            int ok = zck_init_read(tg, tfd);
            int fv = -9, cp = -9;
            OP(t, "find_valid", fv = zck_find_valid_chunks(tg));
            OP(t, "copy", cp = zck_copy_chunks(src, tg));
            uint64_t fh = 1469598103934665603ULL;
            int nvalid = 0, nfailed = 0;
            for(zckChunk *c = zck_get_first_chunk(tg); c; c = zck_get_next_chunk(c)) {
                int v = zck_get_chunk_valid(c);
                fh = fnv(&v, sizeof(v), fh);
                nvalid += v == 1; nfailed += v == -1;
            }
            L(t, "r%d copy open=%d fv=%d cp=%d valid=%d failed=%d flags=%016llx", round, ok, fv, cp, nvalid, nfailed, (unsigned long long)fh);
            /* match on a fresh target context */
            zckCtx *tg2 = zck_create();
            int tfd2 = open(pt, O_RDONLY);
            int mt = -9, nm = 0;
            if(zck_init_read(tg2, tfd2)) {
                OP(t, "match", mt = zck_find_matching_chunks(src, tg2));
                for(zckChunk *c = zck_get_first_chunk(tg2); c; c = zck_get_next_chunk(c)) nm += zck_get_chunk_valid(c) == 1;
            }
            L(t, "r%d match rc=%d matched=%d", round, mt, nm);
            zck_free(&tg2);
            close(tfd2);
            /* missing range + callbacks: fetch what is still missing from b */
            zck_reset_failed_chunks(tg);
            zckDL *dl = zck_dl_init(tg);
            int rounds_dl = 0, okdl = 1;
            while(zck_missing_chunks(tg) > 0 && rounds_dl < 2000 && okdl) {
                rounds_dl++;
                zck_dl_reset(dl);
                zckRange *rg = zck_get_missing_range(tg, 1);
                if(!rg) { okdl = 0; break; }
                zck_dl_set_range(dl, rg);
                char *rs = zck_get_range_char(tg, rg);
                unsigned long long a = 0, b = 0;
                if(!rs || sscanf(rs, "%llu-%llu", &a, &b) != 2 || b < a || b >= (unsigned long long)tl) okdl = 0;
                else {
                    size_t ln = b - a + 1;
                    char *pay = malloc(ln);
                    if(pread(bfd, pay, ln, a) != (ssize_t)ln) okdl = 0;
                    size_t pos = 0;
                    OP(t, "callbacks", {
                        while(pos < ln && okdl) {
                            size_t c = 1 + nxt(t) % 16384;
                            if(c > ln - pos) c = ln - pos;
                            if(zck_write_chunk_cb(pay + pos, 1, c, dl) != c) okdl = 0;
                            pos += c;
                        }
                    });
                    free(pay);
                }
                free(rs);
                zck_dl_set_range(dl, NULL);
                zck_range_free(&rg);
            }
            int vd = -9;
            OP(t, "validate_data", vd = zck_validate_data_checksum(tg));
            L(t, "r%d download ok=%d rounds=%d missing=%d vd=%d tgt=%016llx b=%016llx", round, okdl, rounds_dl, zck_missing_chunks(tg), vd,
              (unsigned long long)file_fnv(pt), (unsigned long long)file_fnv(p2));
            zck_dl_free(&dl);
            zck_free(&tg);
            close(tfd);
            free(img);
        } else L(t, "r%d copy: open failed", round);
        zck_free(&src);
        zck_free(&bz);
        close(sfd);
        close(bfd);
    }
    /* malformed fixtures: unknown checksum / compression types, per-thread values */
    for(int which = 0; which < 2; which++) {
        char fp[700];
        snprintf(fp, sizeof(fp), "%s/%s%d.zck", fixtures, which ? "comp" : "hash", t->k % 16);
        int fd = open(fp, O_RDONLY);
        if(fd < 0) continue;
        zckCtx *z = zck_create();
        int ok = -9;
        char msg[400] = "";
        OP(t, "open_malformed", { ok = zck_init_read(z, fd); const char *e = zck_get_error(z); if(e) snprintf(msg, sizeof(msg), "%s", e); });
        for(char *c = msg; *c; c++) if(*c == '\n') *c = ' ';
        L(t, "r%d malformed %s ok=%d err=%s", round, which ? "comp" : "hash", ok, msg);
        const char *hn = NULL, *cn = NULL;
        char hcopy[64], ccopy[64];
        OP(t, "names", { hn = zck_hash_name_from_type(40 + t->k); snprintf(hcopy, sizeof(hcopy), "%s", hn); cn = zck_comp_name_from_type(50 + t->k); snprintf(ccopy, sizeof(ccopy), "%s", cn); });
        L(t, "r%d names %s %s", round, hcopy, ccopy);
        zck_free(&z);
        close(fd);
    }
    free(A);
    free(B);
}

static void *thread_main(void *arg) {
    struct T *t = arg;
    for(int r = 0; r < rounds; r++) scenario_round(t, r);
    return NULL;
}

int main(int argc, char **argv) {
    if(argc < 7) { fprintf(stderr, "usage\n"); return 3; }
    nthreads = atoi(argv[1]);
    rounds = atoi(argv[2]);
    seed = strtoul(argv[3], NULL, 10);
    workdir = argv[4];
    int par = !strcmp(argv[5], "par");
    fixtures = argv[6];
    zck_set_log_level(ZCK_LOG_NONE);   /* global logging settings: once, before the threads start */
    struct T *ts = calloc(nthreads, sizeof(struct T));
    pthread_t *th = calloc(nthreads, sizeof(pthread_t));
    for(int k = 0; k < nthreads; k++) {
        char p[700];
        ts[k].k = k;
        ts[k].rng = seed * 1000003ULL + k * 7919 + 88172645463325252ULL;
        snprintf(ts[k].dir, sizeof(ts[k].dir), "%s/t%d", workdir, k);
        mkdir(ts[k].dir, 0755);
        snprintf(p, sizeof(p), "%s/t%d.log", workdir, k);
        ts[k].log = fopen(p, "w");
        snprintf(p, sizeof(p), "%s/t%d.times", workdir, k);
        ts[k].times = fopen(p, "w");
        if(!ts[k].log || !ts[k].times) { perror("log"); return 3; }
    }
    if(par) {
        for(int k = 0; k < nthreads; k++) pthread_create(&th[k], NULL, thread_main, &ts[k]);
        for(int k = 0; k < nthreads; k++) pthread_join(th[k], NULL);
    } else {
        for(int k = 0; k < nthreads; k++) thread_main(&ts[k]);
    }
    for(int k = 0; k < nthreads; k++) { fclose(ts[k].log); fclose(ts[k].times); }
    mode_t um = umask(022);
    printf("umask_after=%03o\n", um);
    return 0;
}
