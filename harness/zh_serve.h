/* In-process "server" holding file B: answers the library's own range
 * strings with a single-range body or a multipart/byteranges response, and
 * the documented update procedure (analogue of zck_dl.c:main with curl
 * replaced by this server).  Included by zh.c. */

struct resp { char *hdr; size_t hdr_len; char *body; size_t body_len; int nranges; };
/* offsets in the body just behind each part's payload (fragmentation mode "parts") */
#define ZH_MAXR 20000
static size_t g_part_ends[ZH_MAXR];
static size_t g_starts[ZH_MAXR], g_ends[ZH_MAXR];
static int g_npart_ends = 0;

static char *slurp(const char *path, size_t *len) {
    int fd = open(path, O_RDONLY);
    if(fd < 0) die("cannot open", path);
    struct stat st;
    fstat(fd, &st);
    char *b = malloc(st.st_size + 1);
    size_t got = 0;
    while(got < (size_t)st.st_size) {
        ssize_t r = real_read(fd, b + got, st.st_size - got);
        if(r <= 0) die("read failed", path);
        got += r;
    }
    close(fd);
    *len = got;
    return b;
}

#define APPEND(buf, len, cap, src, n) do { \
    if((len) + (n) + 1 > (cap)) { (cap) = ((len) + (n) + 1) * 2; (buf) = realloc((buf), (cap)); } \
    memcpy((buf) + (len), (src), (n)); (len) += (n); } while(0)

/* style bits: 1 quoted boundary, 2 upper-case header names, 4 extra part
 * header after Content-Range, 8 no CRLF before the first delimiter,
 * 16 extra part header before Content-Range is omitted (Content-Range first),
 * 32 force multipart even for a single range, 1024 lower-case header names (as HTTP/2 delivers them), 64 a 33-40 KB header field in front of Content-Range in every second part */
static int build_response(const char *rstr, const char *B, size_t Blen, int style, const char *boundary_tok, struct resp *rp) {
    /* script tokens cannot hold a blank: '~' in the token stands for a space inside the (quoted) boundary */
    char boundary[400];
    snprintf(boundary, sizeof(boundary), "%s", boundary_tok);
    for(char *q = boundary; *q; q++) if(*q == '~') *q = ' ';
    size_t *starts = g_starts, *ends = g_ends;
    int n = 0;
    const char *p = rstr;
    while(*p && n < ZH_MAXR) {
        char *e;
        starts[n] = strtoull(p, &e, 10);
        if(*e != '-') return 0;
        ends[n] = strtoull(e + 1, &e, 10);
        n++;
        if(*e == ',') e++;
        p = e;
    }
    memset(rp, 0, sizeof(*rp));
    rp->nranges = n;
    g_npart_ends = 0;
    size_t hcap = 512, bcap = 4096;
    rp->hdr = malloc(hcap);
    rp->body = malloc(bcap);
    char tmp[512];
    int k;
    /* style 256: the transfer saw an earlier, complete response header block first (a followed redirect); 512: a proxy's
     * "200 Connection established" block; 128: the status line as an HTTP/2 server's arrives (no reason phrase) */
    if(style & 256) {
        k = snprintf(tmp, sizeof(tmp), "HTTP/1.1 302 Found\r\nLocation: http://mirror.example/file.zck\r\nContent-Length: 0\r\n\r\n");
        APPEND(rp->hdr, rp->hdr_len, hcap, tmp, k);
    }
    if(style & 512) {
        k = snprintf(tmp, sizeof(tmp), "HTTP/1.1 200 Connection established\r\n\r\n");
        APPEND(rp->hdr, rp->hdr_len, hcap, tmp, k);
    }
    k = snprintf(tmp, sizeof(tmp), (style & 128) ? "HTTP/2 206 \r\n" : "HTTP/1.1 206 Partial Content\r\n");
    APPEND(rp->hdr, rp->hdr_len, hcap, tmp, k);
    for(int i = 0; i < n; i++)
        if(starts[i] > ends[i] || ends[i] >= Blen) return 0; /* unsatisfiable: caller logs */
    if(n == 1 && !(style & 32)) {
        k = snprintf(tmp, sizeof(tmp), "%s: bytes %zu-%zu/%zu\r\n\r\n", (style & 1024) ? "content-range" : "Content-Range", starts[0], ends[0], Blen);
        APPEND(rp->hdr, rp->hdr_len, hcap, tmp, k);
        APPEND(rp->body, rp->body_len, bcap, B + starts[0], ends[0] - starts[0] + 1);
        g_part_ends[g_npart_ends++] = rp->body_len;
        return 1;
    }
    if(style & 1) k = snprintf(tmp, sizeof(tmp), "%s: multipart/byteranges; boundary=\"%s\"\r\n", (style & 2) ? "CONTENT-TYPE" : ((style & 1024) ? "content-type" : "Content-Type"), boundary);
    else k = snprintf(tmp, sizeof(tmp), "%s: multipart/byteranges; boundary=%s\r\n", (style & 2) ? "CONTENT-TYPE" : ((style & 1024) ? "content-type" : "Content-Type"), boundary);
    APPEND(rp->hdr, rp->hdr_len, hcap, tmp, k);
    APPEND(rp->hdr, rp->hdr_len, hcap, "\r\n", 2);
    for(int i = 0; i < n; i++) {
        if(i > 0 || !(style & 8)) APPEND(rp->body, rp->body_len, bcap, "\r\n", 2);
        k = snprintf(tmp, sizeof(tmp), "--%s\r\n", boundary);
        APPEND(rp->body, rp->body_len, bcap, tmp, k);
        if(!(style & 16)) {
            k = snprintf(tmp, sizeof(tmp), "%s: application/octet-stream\r\n", (style & 2) ? "CONTENT-TYPE" : ((style & 1024) ? "content-type" : "Content-Type"));
            APPEND(rp->body, rp->body_len, bcap, tmp, k);
        }
        if((style & 64) && (i % 2 == 1 || n == 1)) {
            /* a very long header field in front of Content-Range (cookies, tracing ids ...): 33-40 KB */
            size_t padn = 33000 + (size_t)(i % 8) * 1000;
            char *pad = malloc(padn + 32);
            size_t o = (size_t)snprintf(pad, 32, "X-Filler: ");
            memset(pad + o, 'f', padn);
            memcpy(pad + o + padn, "\r\n", 2);
            APPEND(rp->body, rp->body_len, bcap, pad, o + padn + 2);
            free(pad);
        }
        k = snprintf(tmp, sizeof(tmp), "%s: bytes %zu-%zu/%zu\r\n", (style & 2) ? "CONTENT-RANGE" : ((style & 1024) ? "content-range" : "Content-Range"), starts[i], ends[i], Blen);
        APPEND(rp->body, rp->body_len, bcap, tmp, k);
        if(style & 4) {
            k = snprintf(tmp, sizeof(tmp), "X-Part: %d\r\n", i);
            APPEND(rp->body, rp->body_len, bcap, tmp, k);
        }
        APPEND(rp->body, rp->body_len, bcap, "\r\n", 2);
        APPEND(rp->body, rp->body_len, bcap, B + starts[i], ends[i] - starts[i] + 1);
        if(g_npart_ends < ZH_MAXR) g_part_ends[g_npart_ends++] = rp->body_len;
    }
    k = snprintf(tmp, sizeof(tmp), "\r\n--%s--\r\n", boundary);
    APPEND(rp->body, rp->body_len, bcap, tmp, k);
    return 1;
}

/* deliver header lines one line per callback (as libcurl does) */
static int deliver_headers(zckDL *dl, struct resp *rp) {
    size_t pos = 0;
    while(pos < rp->hdr_len) {
        char *nl = memchr(rp->hdr + pos, '\n', rp->hdr_len - pos);
        size_t n = nl ? (size_t)(nl - (rp->hdr + pos)) + 1 : rp->hdr_len - pos;
        char *copy = malloc(n);
        memcpy(copy, rp->hdr + pos, n);
        chn.in_cb = 0;
        size_t r = zck_header_cb(copy, 1, n, dl);
        chain_account(copy, n, r);
        free(copy);
        if(r != n) return 0;
        pos += n;
    }
    return 1;
}

static uint64_t xs_state = 88172645463325252ULL;
static uint64_t xs(void) { xs_state ^= xs_state << 13; xs_state ^= xs_state >> 7; xs_state ^= xs_state << 17; return xs_state; }

/* frag: "all" | "n:<size>" | "rand:<seed>:<max>" | "cuts:..." */
static size_t feed_frag_kg(zckDL *dl, char *data, size_t len, const char *frag, int kind, int keep_going);
static size_t feed_frag(zckDL *dl, char *data, size_t len, const char *frag, int kind) {
    return feed_frag_kg(dl, data, len, frag, kind, 0);
}
static size_t feed_frag_kg(zckDL *dl, char *data, size_t len, const char *frag, int kind, int keep_going) {
    if(frag && !strcmp(frag, "parts") && kind == 0) {
        /* one callback per part, ending exactly on the part's last payload byte */
        size_t cap = 64 + 24 * (size_t)g_npart_ends, o = 0;
        char *spec = malloc(cap);
        o += snprintf(spec + o, cap - o, "cuts:");
        for(int i = 0; i < g_npart_ends; i++) o += snprintf(spec + o, cap - o, "%zu,", g_part_ends[i]);
        size_t r = feed(dl, data, len, spec, kind, keep_going);
        free(spec);
        return r;
    }
    if(frag && !strcmp(frag, "parts")) frag = "all";
    if(frag && !strncmp(frag, "rand:", 5)) {
        unsigned long long seed = 1, mx = 16384;
        sscanf(frag + 5, "%llu:%llu", &seed, &mx);
        xs_state = seed * 2654435761ULL + 88172645463325252ULL;
        if(mx < 1) mx = 1;
        size_t cap = 64, o = 0;
        char *spec = malloc(cap);
        o += snprintf(spec + o, cap - o, "cuts:");
        size_t pos = 0;
        while(pos < len) {
            pos += 1 + xs() % mx;
            if(o + 24 > cap) { cap *= 2; spec = realloc(spec, cap); }
            o += snprintf(spec + o, cap - o, "%zu,", pos);
        }
        size_t r = feed(dl, data, len, spec, kind, keep_going);
        free(spec);
        return r;
    }
    return feed(dl, data, len, frag, kind, keep_going);
}

static int feed_quiet = 0;
static size_t feed_frag_quiet(zckDL *dl, char *data, size_t len, const char *frag) {
    feed_quiet = 1;
    size_t r = feed_frag(dl, data, len, frag, 0);
    feed_quiet = 0;
    return r;
}

/* serve D R Bpath style frag boundary : one request/response round for ranges[R] */
static void do_serve(char **t, int nt) {
    (void)nt;
    zckDL *dl = dls[slot(t[1])];
    zckRange *r = ranges[slot(t[2])];
    size_t Blen;
    char *B = slurp(t[3], &Blen);
    int style = atoi(t[4]);
    const char *frag = t[5] ? t[5] : "all";
    const char *boundary = t[6] ? t[6] : "zckverifBOUNDARY";
    char *rstr = zck_get_range_char(dl->zck, r);
    struct resp rp;
    int ok = rstr && build_response(rstr, B, Blen, style, boundary, &rp);
    if(!ok) {
        zh_log("{\"i\":%d,\"op\":\"serve\",\"rc\":-2,\"ranges\":\"%s\"}", opi, rstr ? rstr : "");
        free(B);
        return;
    }
    zh_log("{\"i\":%d,\"ev\":\"request\",\"ranges\":\"%s\",\"count\":%d,\"resp_len\":%zu}", opi, rstr, zck_get_range_count(r), rp.body_len);
    int h = deliver_headers(dl, &rp);
    /* optional 7th argument upto:<n>: the transport dies after n body bytes */
    size_t deliver = rp.body_len;
    if(t[7] && !strncmp(t[7], "upto:", 5)) { size_t u = strtoull(t[7] + 5, NULL, 10); if(u < deliver) deliver = u; }
    size_t b = h ? feed_frag(dl, rp.body, deliver, frag, 0) : 0;
    zh_log("{\"i\":%d,\"op\":\"serve\",\"rc\":%d,\"hdr_ok\":%d,\"nranges\":%d,\"delivered\":%zu,\"resp_len\":%zu}", opi, (int)(h && b), h, rp.nranges, deliver, rp.body_len);
    free(rp.hdr); free(rp.body); free(rstr); free(B);
}

/* update T TF S|- Bpath limit style frag boundary
 * The documented update procedure on target ctx slot T (fd slot TF, already
 * fopen'ed rwc, ctx created), optional source ctx slot S (already
 * init_read), server file B. */
static void do_update(char **t, int nt) {
    (void)nt;
    int ts = slot(t[1]);
    int tf = fds[slot(t[2])];
    zckCtx *src = strcmp(t[3], "-") ? ctx[slot(t[3])] : NULL;
    size_t Blen;
    char *B = slurp(t[4], &Blen);
    int limit = atoi(t[5]);
    int style = atoi(t[6]);
    const char *frag = t[7] ? t[7] : "all";
    const char *boundary = t[8] ? t[8] : "zckverifBOUNDARY";
    int fresh_boundary = !(t[8] && t[9] && !strcmp(t[9], "same"));
    zckCtx *tgt = ctx[ts];
    int rc = -1, rounds = 0;
    const char *stage = "init";
    if(!zck_init_adv_read(tgt, tf)) goto out;
    zckDL *dl = zh_dl_init(tgt);
    if(!dl) goto out;
    dls[15] = dl;
    /* --- header, as dl_header(): minimum download, lead, rest of header --- */
    stage = "lead";
    size_t want = zck_get_min_download_size();
    if(want > Blen) want = Blen;
    real_lseek(tf, 0, SEEK_SET);
    zck_dl_reset(dl);
    zh_log("{\"i\":%d,\"ev\":\"hdr_request\",\"ranges\":\"0-%zu\"}", opi, want - 1);
    if(!feed_frag(dl, B, want, frag, 1)) goto out;
    real_lseek(tf, 0, SEEK_SET);
    if(!zck_read_lead(tgt)) goto out;
    stage = "header";
    ssize_t hl = zck_get_header_length(tgt);
    if(hl < 0 || (size_t)hl > Blen) goto out;
    if((size_t)hl > want) {
        /* as dl_bytes(): remember where the library stopped reading, append the download, go back there */
        off_t resume = real_lseek(tf, 0, SEEK_CUR);
        if(resume < (off_t)zck_get_lead_length(tgt)) resume = zck_get_lead_length(tgt);
        real_lseek(tf, want, SEEK_SET);
        zck_dl_reset(dl);
        zh_log("{\"i\":%d,\"ev\":\"hdr_request\",\"ranges\":\"%zu-%zd\"}", opi, want, hl - 1);
        if(!feed_frag(dl, B + want, hl - want, frag, 1)) goto out;
        real_lseek(tf, resume, SEEK_SET);
    }
    if(!zck_read_header(tgt)) goto out;
    stage = "find_valid";
    int fv = zck_find_valid_chunks(tgt);
    zh_log("{\"i\":%d,\"ev\":\"find_valid\",\"rc\":%d,\"missing\":%d,\"failed\":%d}", opi, fv, zck_missing_chunks(tgt), zck_failed_chunks(tgt));
    if(fv == 0) goto out;
    dump_flags(tgt);
    if(fv != 1) {
        stage = "copy";
        if(src && !zck_copy_chunks(src, tgt)) goto out;
        zh_log("{\"i\":%d,\"ev\":\"copied\",\"missing\":%d,\"failed\":%d}", opi, zck_missing_chunks(tgt), zck_failed_chunks(tgt));
        dump_flags(tgt);
        zck_reset_failed_chunks(tgt);
        stage = "rounds";
        long maxrounds = zck_get_chunk_count(tgt) + 8;
        while(zck_missing_chunks(tgt) > 0) {
            if(++rounds > maxrounds) { stage = "too_many_rounds"; goto out; }
            zck_dl_reset(dl);
            zckRange *range = zck_get_missing_range(tgt, limit);
            if(!range || !zck_dl_set_range(dl, range)) goto out;
            char *rstr = zck_get_range_char(tgt, range);
            if(!rstr) goto out;
            struct resp rp;
            /* real servers pick a fresh boundary for every response */
            char rb[300];
            snprintf(rb, sizeof(rb), "%s%s%d", boundary, fresh_boundary ? "r" : "", fresh_boundary ? rounds : 0);
            if(!fresh_boundary) snprintf(rb, sizeof(rb), "%s", boundary);
            if(!build_response(rstr, B, Blen, style, rb, &rp)) {
                zh_log("{\"i\":%d,\"ev\":\"request\",\"round\":%d,\"ranges\":\"%s\",\"unsatisfiable\":1}", opi, rounds, rstr);
                stage = "unsatisfiable";
                goto out;
            }
            zh_log("{\"i\":%d,\"ev\":\"request\",\"round\":%d,\"ranges\":\"%s\",\"count\":%d}", opi, rounds, rstr, zck_get_range_count(range));
            int ok = deliver_headers(dl, &rp) && feed_frag(dl, rp.body, rp.body_len, frag, 0);
            free(rp.hdr); free(rp.body); free(rstr);
            if(!zck_dl_set_range(dl, NULL)) goto out;
            zck_range_free(&range);
            zh_log("{\"i\":%d,\"ev\":\"served\",\"round\":%d,\"ok\":%d,\"missing\":%d,\"failed\":%d}", opi, rounds, ok, zck_missing_chunks(tgt), zck_failed_chunks(tgt));
            if(!ok) { stage = "response_rejected"; rc = -3; goto out; }
        }
    }
    stage = "truncate";
    if(ftruncate(tf, zck_get_length(tgt)) < 0) goto out;
    stage = "validate";
    rc = zck_validate_data_checksum(tgt);
    stage = "done";
out:
    {
        char esc[600];
        json_escape(esc, sizeof(esc), zck_get_error(tgt));
        zh_log("{\"i\":%d,\"op\":\"update\",\"rc\":%d,\"stage\":\"%s\",\"rounds\":%d,\"missing\":%d,\"err\":\"%s\"}", opi, rc, stage, rounds,
               tgt && tgt->index.first ? zck_missing_chunks(tgt) : -1, esc);
    }
    free(B);
}


/* ---- fragmentation sweep (C05) ---------------------------------------
 * sweep T0path Bpath limit style boundary mode allowed [corrupt_off]
 *   mode: cuts1 | cuts2[:c1lo:c1hi] | list | rand:<count>:<seed>
 *   allowed: extents (file offsets) inside which target writes must stay
 *   corrupt_off: file offset in B whose byte the "server" flips (-1: none)
 * For every fragmentation of the SAME response: restore the target image,
 * run open + find_valid + reset_failed + missing_range + callbacks, and
 * record the outcome (callbacks ok, valid flags, FNV-1a of the target image,
 * out-of-extent writes).  Only distinct outcomes are logged, with counts. */
static uint64_t fnv64(const unsigned char *p, size_t n) {
    uint64_t h = 1469598103934665603ULL;
    for(size_t i = 0; i < n; i++) { h ^= p[i]; h *= 1099511628211ULL; }
    return h;
}

struct outcome { int ok; uint64_t img; char *flags; long oob; long count; char first[96]; int mp_state; };

static void do_sweep(char **t, int nt) {
    (void)nt;
    size_t T0len, Blen;
    char *T0 = slurp(t[1], &T0len);
    char *B = slurp(t[2], &Blen);
    int limit = atoi(t[3]);
    int style = atoi(t[4]);
    const char *boundary = t[5];
    const char *mode = t[6];
    const char *allowed = t[7];
    long long corrupt = t[8] ? atoll(t[8]) : -1;
    if(corrupt >= 0 && (size_t)corrupt < Blen) B[corrupt] ^= 0x41;
    int fd = open("sweep_t.zck", O_RDWR | O_CREAT | O_TRUNC, 0644);
    if(fd < 0) die("sweep target", NULL);
    io_register(fd, "target");
    struct outcome outs[32];
    int nouts = 0;
    long iters = 0;
    struct resp rp;
    int have_resp = 0;
    char *rstr0 = NULL;
    /* iteration state */
    size_t c1 = 0, c2 = 0, c1lo = 1, c1hi = 0;
    long rand_count = 0, rand_i = 0;
    unsigned long long rand_seed = 1;
    int list_i = 0;
    const char *lists[] = {"all", "n:1", "n:2", "n:3", "n:5", "n:7", "n:64", "n:1000", "n:16384", NULL};
    int m = 0; /* 1 cuts1, 2 cuts2, 3 list, 4 rand */
    if(!strncmp(mode, "cuts1", 5)) m = 1;
    else if(!strncmp(mode, "cuts2", 5)) { m = 2; if(mode[5] == ':') sscanf(mode + 6, "%zu:%zu", &c1lo, &c1hi); }
    else if(!strcmp(mode, "list")) m = 3;
    else if(!strncmp(mode, "rand:", 5)) { m = 4; sscanf(mode + 5, "%ld:%llu", &rand_count, &rand_seed); }
    else die("bad sweep mode", mode);
    int started = 0;
    while(1) {
        /* --- set up one run */
        if(real_ftruncate(fd, 0) < 0) die("ftruncate", NULL);
        size_t w = 0;
        while(w < T0len) { ssize_t r = real_pwrite(fd, T0 + w, T0len - w, w); if(r <= 0) die("restore", NULL); w += r; }
        real_lseek(fd, 0, SEEK_SET);
        zckCtx *z = zck_create();
        zckDL *dl = NULL;
        zckRange *range = NULL;
        int ok = -1;
        if(!zck_init_read(z, fd)) { zh_log("{\"i\":%d,\"op\":\"sweep\",\"rc\":-2,\"err\":\"open\"}", opi); zck_free(&z); break; }
        zck_find_valid_chunks(z);
        zck_reset_failed_chunks(z);
        dl = zh_dl_init(z);
        range = zck_get_missing_range(z, limit);
        if(!dl || !range || !zck_dl_set_range(dl, range)) { zh_log("{\"i\":%d,\"op\":\"sweep\",\"rc\":-2,\"err\":\"range\"}", opi); break; }
        if(!have_resp) {
            rstr0 = zck_get_range_char(z, range);
            if(!rstr0 || !build_response(rstr0, B, Blen, style, boundary, &rp)) {
                zh_log("{\"i\":%d,\"op\":\"sweep\",\"rc\":-2,\"err\":\"response\",\"ranges\":\"%s\"}", opi, rstr0 ? rstr0 : "");
                break;
            }
            have_resp = 1;
            zh_log("{\"i\":%d,\"ev\":\"request\",\"ranges\":\"%s\",\"count\":%d,\"resp_len\":%zu,\"hdr_len\":%zu}", opi, rstr0, zck_get_range_count(range), rp.body_len, rp.hdr_len);
            /* body as hex for the python side (region classification), small responses only */
            if(rp.body_len <= 2048) {
                char *hx = malloc(rp.body_len * 2 + 1);
                for(size_t k = 0; k < rp.body_len; k++) sprintf(hx + 2 * k, "%02x", (unsigned char)rp.body[k]);
                zh_log("{\"i\":%d,\"ev\":\"response_body\",\"hex\":\"%s\"}", opi, hx);
                free(hx);
            }
            if(m == 1) { c1 = 1; }
            if(m == 2) { if(c1hi == 0 || c1hi > rp.body_len) c1hi = rp.body_len; c1 = c1lo; c2 = c1 + 1; }
        }
        /* --- choose the fragmentation for this run */
        char spec[128];
        if(m == 1) {
            if(c1 >= rp.body_len) { zck_dl_free(&dl); zck_range_free(&range); zck_free(&z); break; }
            snprintf(spec, sizeof(spec), "cuts:%zu", c1);
        } else if(m == 2) {
            if(c1 >= c1hi || c1 >= rp.body_len - 1) { zck_dl_free(&dl); zck_range_free(&range); zck_free(&z); break; }
            snprintf(spec, sizeof(spec), "cuts:%zu,%zu", c1, c2);
        } else if(m == 3) {
            if(!lists[list_i]) { zck_dl_free(&dl); zck_range_free(&range); zck_free(&z); break; }
            snprintf(spec, sizeof(spec), "%s", lists[list_i]);
        } else {
            if(rand_i >= rand_count) { zck_dl_free(&dl); zck_range_free(&range); zck_free(&z); break; }
            size_t mx = (rand_i % 3 == 0) ? 16384 : ((rand_i % 3 == 1) ? 40 : 3);
            snprintf(spec, sizeof(spec), "rand:%llu:%zu", rand_seed * 1000003ULL + rand_i, mx);
        }
        started = 1;
        io_watch("target", allowed);
        int h = deliver_headers(dl, &rp);
        /* private copy: the library may modify the buffer it is handed */
        char *body = malloc(rp.body_len ? rp.body_len : 1);
        memcpy(body, rp.body, rp.body_len);
        int saved_opi = opi;
        ok = h ? (int)feed_frag_quiet(dl, body, rp.body_len, spec) : 0;
        opi = saved_opi;
        free(body);
        long oob = io_oob_count;
        io_watch("", "");
        int mp_state = dl->mp ? dl->mp->state : -1;
        /* --- outcome */
        size_t cap = 256, o = 0;
        char *fl = malloc(cap);
        /* read the markings directly: the getters refuse while an error is pending */
        for(zckChunk *c = z->index.first; c; c = c->next) {
            if(o + 8 > cap) { cap *= 2; fl = realloc(fl, cap); }
            o += snprintf(fl + o, cap - o, "%s%d", o ? "," : "", c->valid);
        }
        fl[o] = 0;
        struct stat st;
        fstat(fd, &st);
        unsigned char *img = malloc(st.st_size ? st.st_size : 1);
        if(real_pread(fd, img, st.st_size, 0) != st.st_size) die("pread", NULL);
        uint64_t hsh = fnv64(img, st.st_size);
        free(img);
        int k;
        for(k = 0; k < nouts; k++)
            if(outs[k].ok == ok && outs[k].img == hsh && outs[k].oob == oob && !strcmp(outs[k].flags, fl)) break;
        if(k == nouts && nouts < 32) {
            outs[k].ok = ok; outs[k].img = hsh; outs[k].oob = oob; outs[k].flags = strdup(fl); outs[k].count = 0; outs[k].mp_state = mp_state;
            snprintf(outs[k].first, sizeof(outs[k].first), "%s", spec);
            nouts++;
        }
        if(k < 32) outs[k].count++;
        free(fl);
        iters++;
        zck_dl_set_range(dl, NULL);
        zck_dl_free(&dl);
        zck_range_free(&range);
        zck_free(&z);
        /* --- advance */
        if(m == 1) c1++;
        else if(m == 2) { c2++; if(c2 >= rp.body_len) { c1++; c2 = c1 + 1; } }
        else if(m == 3) list_i++;
        else rand_i++;
    }
    (void)started;
    for(int k = 0; k < nouts; k++)
        zh_log("{\"i\":%d,\"ev\":\"outcome\",\"ok\":%d,\"img\":\"%016llx\",\"flags\":[%s],\"oob\":%ld,\"count\":%ld,\"first\":\"%s\",\"mp_state\":%d}", opi,
               outs[k].ok, (unsigned long long)outs[k].img, outs[k].flags, outs[k].oob, outs[k].count, outs[k].first, outs[k].mp_state);
    zh_log("{\"i\":%d,\"op\":\"sweep\",\"rc\":1,\"iterations\":%ld,\"distinct_outcomes\":%d,\"resp_len\":%zu,\"chain\":%d,\"chain_calls\":%ld,\"chain_mismatched\":%ld}", opi, iters, nouts, have_resp ? rp.body_len : 0, g_chain, chn.calls, chn.mismatched);
    if(have_resp) { free(rp.hdr); free(rp.body); }
    free(rstr0);
    close(fd);
    free(T0); free(B);
}
