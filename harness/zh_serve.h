/* In-process "server" holding file B: answers the library's own range
 * strings with a single-range body or a multipart/byteranges response, and
 * the documented update procedure (analogue of zck_dl.c:main with curl
 * replaced by this server).  Included by zh.c. */

struct resp { char *hdr; size_t hdr_len; char *body; size_t body_len; int nranges; };

static char *slurp(const char *path, size_t *len) {
    int fd = open(path, O_RDONLY);
    if(fd < 0) die("cannot open", path);
    struct stat st;
    fstat(fd, &st);
    char *b = malloc(st.st_size + 1);
    size_t got = 0;
    while(got < (size_t)st.st_size) {
        ssize_t r = real_read(fd, b + got, st.st_size - got);
        if(r <= 0) die("read failed", path);
        got += r;
    }
    close(fd);
    *len = got;
    return b;
}

#define APPEND(buf, len, cap, src, n) do { \
    if((len) + (n) + 1 > (cap)) { (cap) = ((len) + (n) + 1) * 2; (buf) = realloc((buf), (cap)); } \
    memcpy((buf) + (len), (src), (n)); (len) += (n); } while(0)

/* style bits: 1 quoted boundary, 2 upper-case header names, 4 extra part
 * header after Content-Range, 8 no CRLF before the first delimiter,
 * 16 extra part header before Content-Range is omitted (Content-Range first),
 * 32 force multipart even for a single range */
static int build_response(const char *rstr, const char *B, size_t Blen, int style, const char *boundary, struct resp *rp) {
    size_t starts[4096], ends[4096];
    int n = 0;
    const char *p = rstr;
    while(*p && n < 4096) {
        char *e;
        starts[n] = strtoull(p, &e, 10);
        if(*e != '-') return 0;
        ends[n] = strtoull(e + 1, &e, 10);
        n++;
        if(*e == ',') e++;
        p = e;
    }
    memset(rp, 0, sizeof(*rp));
    rp->nranges = n;
    size_t hcap = 512, bcap = 4096;
    rp->hdr = malloc(hcap);
    rp->body = malloc(bcap);
    char tmp[512];
    int k = snprintf(tmp, sizeof(tmp), "HTTP/1.1 206 Partial Content\r\n");
    APPEND(rp->hdr, rp->hdr_len, hcap, tmp, k);
    for(int i = 0; i < n; i++)
        if(starts[i] > ends[i] || ends[i] >= Blen) return 0; /* unsatisfiable: caller logs */
    if(n == 1 && !(style & 32)) {
        k = snprintf(tmp, sizeof(tmp), "Content-Range: bytes %zu-%zu/%zu\r\n\r\n", starts[0], ends[0], Blen);
        APPEND(rp->hdr, rp->hdr_len, hcap, tmp, k);
        APPEND(rp->body, rp->body_len, bcap, B + starts[0], ends[0] - starts[0] + 1);
        return 1;
    }
    if(style & 1) k = snprintf(tmp, sizeof(tmp), "%s: multipart/byteranges; boundary=\"%s\"\r\n", (style & 2) ? "CONTENT-TYPE" : "Content-Type", boundary);
    else k = snprintf(tmp, sizeof(tmp), "%s: multipart/byteranges; boundary=%s\r\n", (style & 2) ? "CONTENT-TYPE" : "Content-Type", boundary);
    APPEND(rp->hdr, rp->hdr_len, hcap, tmp, k);
    APPEND(rp->hdr, rp->hdr_len, hcap, "\r\n", 2);
    for(int i = 0; i < n; i++) {
        if(i > 0 || !(style & 8)) APPEND(rp->body, rp->body_len, bcap, "\r\n", 2);
        k = snprintf(tmp, sizeof(tmp), "--%s\r\n", boundary);
        APPEND(rp->body, rp->body_len, bcap, tmp, k);
        if(!(style & 16)) {
            k = snprintf(tmp, sizeof(tmp), "%s: application/octet-stream\r\n", (style & 2) ? "CONTENT-TYPE" : "Content-Type");
            APPEND(rp->body, rp->body_len, bcap, tmp, k);
        }
        k = snprintf(tmp, sizeof(tmp), "%s: bytes %zu-%zu/%zu\r\n", (style & 2) ? "CONTENT-RANGE" : "Content-Range", starts[i], ends[i], Blen);
        APPEND(rp->body, rp->body_len, bcap, tmp, k);
        if(style & 4) {
            k = snprintf(tmp, sizeof(tmp), "X-Part: %d\r\n", i);
            APPEND(rp->body, rp->body_len, bcap, tmp, k);
        }
        APPEND(rp->body, rp->body_len, bcap, "\r\n", 2);
        APPEND(rp->body, rp->body_len, bcap, B + starts[i], ends[i] - starts[i] + 1);
    }
    k = snprintf(tmp, sizeof(tmp), "\r\n--%s--\r\n", boundary);
    APPEND(rp->body, rp->body_len, bcap, tmp, k);
    return 1;
}

/* deliver header lines one line per callback (as libcurl does) */
static int deliver_headers(zckDL *dl, struct resp *rp) {
    size_t pos = 0;
    while(pos < rp->hdr_len) {
        char *nl = memchr(rp->hdr + pos, '\n', rp->hdr_len - pos);
        size_t n = nl ? (size_t)(nl - (rp->hdr + pos)) + 1 : rp->hdr_len - pos;
        char *copy = malloc(n);
        memcpy(copy, rp->hdr + pos, n);
        size_t r = zck_header_cb(copy, 1, n, dl);
        free(copy);
        if(r != n) return 0;
        pos += n;
    }
    return 1;
}

static uint64_t xs_state = 88172645463325252ULL;
static uint64_t xs(void) { xs_state ^= xs_state << 13; xs_state ^= xs_state >> 7; xs_state ^= xs_state << 17; return xs_state; }

/* frag: "all" | "n:<size>" | "rand:<seed>:<max>" | "cuts:..." */
static size_t feed_frag(zckDL *dl, char *data, size_t len, const char *frag, int kind) {
    if(frag && !strncmp(frag, "rand:", 5)) {
        unsigned long long seed = 1, mx = 16384;
        sscanf(frag + 5, "%llu:%llu", &seed, &mx);
        xs_state = seed * 2654435761ULL + 88172645463325252ULL;
        if(mx < 1) mx = 1;
        size_t cap = 64, o = 0;
        char *spec = malloc(cap);
        o += snprintf(spec + o, cap - o, "cuts:");
        size_t pos = 0;
        while(pos < len) {
            pos += 1 + xs() % mx;
            if(o + 24 > cap) { cap *= 2; spec = realloc(spec, cap); }
            o += snprintf(spec + o, cap - o, "%zu,", pos);
        }
        size_t r = feed(dl, data, len, spec, kind, 0);
        free(spec);
        return r;
    }
    return feed(dl, data, len, frag, kind, 0);
}

/* serve D R Bpath style frag boundary : one request/response round for ranges[R] */
static void do_serve(char **t, int nt) {
    (void)nt;
    zckDL *dl = dls[slot(t[1])];
    zckRange *r = ranges[slot(t[2])];
    size_t Blen;
    char *B = slurp(t[3], &Blen);
    int style = atoi(t[4]);
    const char *frag = t[5] ? t[5] : "all";
    const char *boundary = t[6] ? t[6] : "zckverifBOUNDARY";
    char *rstr = zck_get_range_char(dl->zck, r);
    struct resp rp;
    int ok = rstr && build_response(rstr, B, Blen, style, boundary, &rp);
    if(!ok) {
        zh_log("{\"i\":%d,\"op\":\"serve\",\"rc\":-2,\"ranges\":\"%s\"}", opi, rstr ? rstr : "");
        free(B);
        return;
    }
    zh_log("{\"i\":%d,\"ev\":\"request\",\"ranges\":\"%s\",\"count\":%d,\"resp_len\":%zu}", opi, rstr, zck_get_range_count(r), rp.body_len);
    int h = deliver_headers(dl, &rp);
    size_t b = h ? feed_frag(dl, rp.body, rp.body_len, frag, 0) : 0;
    zh_log("{\"i\":%d,\"op\":\"serve\",\"rc\":%d,\"hdr_ok\":%d,\"nranges\":%d}", opi, (int)(h && b), h, rp.nranges);
    free(rp.hdr); free(rp.body); free(rstr); free(B);
}

/* update T TF S|- Bpath limit style frag boundary
 * The documented update procedure on target ctx slot T (fd slot TF, already
 * fopen'ed rwc, ctx created), optional source ctx slot S (already
 * init_read), server file B. */
static void do_update(char **t, int nt) {
    (void)nt;
    int ts = slot(t[1]);
    int tf = fds[slot(t[2])];
    zckCtx *src = strcmp(t[3], "-") ? ctx[slot(t[3])] : NULL;
    size_t Blen;
    char *B = slurp(t[4], &Blen);
    int limit = atoi(t[5]);
    int style = atoi(t[6]);
    const char *frag = t[7] ? t[7] : "all";
    const char *boundary = t[8] ? t[8] : "zckverifBOUNDARY";
    zckCtx *tgt = ctx[ts];
    int rc = -1, rounds = 0;
    const char *stage = "init";
    if(!zck_init_adv_read(tgt, tf)) goto out;
    zckDL *dl = zck_dl_init(tgt);
    if(!dl) goto out;
    dls[15] = dl;
    /* --- header, as dl_header(): minimum download, lead, rest of header --- */
    stage = "lead";
    size_t want = zck_get_min_download_size();
    if(want > Blen) want = Blen;
    real_lseek(tf, 0, SEEK_SET);
    zck_dl_reset(dl);
    zh_log("{\"i\":%d,\"ev\":\"hdr_request\",\"ranges\":\"0-%zu\"}", opi, want - 1);
    if(!feed_frag(dl, B, want, frag, 1)) goto out;
    real_lseek(tf, 0, SEEK_SET);
    if(!zck_read_lead(tgt)) goto out;
    stage = "header";
    ssize_t hl = zck_get_header_length(tgt);
    if(hl < 0 || (size_t)hl > Blen) goto out;
    if((size_t)hl > want) {
        real_lseek(tf, want, SEEK_SET);
        zck_dl_reset(dl);
        zh_log("{\"i\":%d,\"ev\":\"hdr_request\",\"ranges\":\"%zu-%zd\"}", opi, want, hl - 1);
        if(!feed_frag(dl, B + want, hl - want, frag, 1)) goto out;
        /* as dl_bytes(): seek back to `start` only when something was fetched */
        real_lseek(tf, zck_get_lead_length(tgt), SEEK_SET);
    }
    if(!zck_read_header(tgt)) goto out;
    stage = "find_valid";
    int fv = zck_find_valid_chunks(tgt);
    zh_log("{\"i\":%d,\"ev\":\"find_valid\",\"rc\":%d,\"missing\":%d,\"failed\":%d}", opi, fv, zck_missing_chunks(tgt), zck_failed_chunks(tgt));
    if(fv == 0) goto out;
    dump_flags(tgt);
    if(fv != 1) {
        stage = "copy";
        if(src && !zck_copy_chunks(src, tgt)) goto out;
        zh_log("{\"i\":%d,\"ev\":\"copied\",\"missing\":%d,\"failed\":%d}", opi, zck_missing_chunks(tgt), zck_failed_chunks(tgt));
        dump_flags(tgt);
        zck_reset_failed_chunks(tgt);
        stage = "rounds";
        long maxrounds = zck_get_chunk_count(tgt) + 8;
        while(zck_missing_chunks(tgt) > 0) {
            if(++rounds > maxrounds) { stage = "too_many_rounds"; goto out; }
            zck_dl_reset(dl);
            zckRange *range = zck_get_missing_range(tgt, limit);
            if(!range || !zck_dl_set_range(dl, range)) goto out;
            char *rstr = zck_get_range_char(tgt, range);
            if(!rstr) goto out;
            struct resp rp;
            if(!build_response(rstr, B, Blen, style, boundary, &rp)) {
                zh_log("{\"i\":%d,\"ev\":\"request\",\"round\":%d,\"ranges\":\"%s\",\"unsatisfiable\":1}", opi, rounds, rstr);
                stage = "unsatisfiable";
                goto out;
            }
            zh_log("{\"i\":%d,\"ev\":\"request\",\"round\":%d,\"ranges\":\"%s\",\"count\":%d}", opi, rounds, rstr, zck_get_range_count(range));
            int ok = deliver_headers(dl, &rp) && feed_frag(dl, rp.body, rp.body_len, frag, 0);
            free(rp.hdr); free(rp.body); free(rstr);
            if(!zck_dl_set_range(dl, NULL)) goto out;
            zck_range_free(&range);
            zh_log("{\"i\":%d,\"ev\":\"served\",\"round\":%d,\"ok\":%d,\"missing\":%d,\"failed\":%d}", opi, rounds, ok, zck_missing_chunks(tgt), zck_failed_chunks(tgt));
            if(!ok) { stage = "response_rejected"; rc = -3; goto out; }
        }
    }
    stage = "truncate";
    if(ftruncate(tf, zck_get_length(tgt)) < 0) goto out;
    stage = "validate";
    rc = zck_validate_data_checksum(tgt);
    stage = "done";
out:
    {
        char esc[600];
        json_escape(esc, sizeof(esc), zck_get_error(tgt));
        zh_log("{\"i\":%d,\"op\":\"update\",\"rc\":%d,\"stage\":\"%s\",\"rounds\":%d,\"missing\":%d,\"err\":\"%s\"}", opi, rc, stage, rounds,
               tgt && tgt->index.first ? zck_missing_chunks(tgt) : -1, esc);
    }
    free(B);
}
