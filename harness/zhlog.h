/* Shared between zh.c and wrap_io.c: unbuffered event log and fd classes. */
#ifndef ZHLOG_H
#define ZHLOG_H
#include <stddef.h>
#include <sys/types.h>

void zh_log(const char *fmt, ...) __attribute__((format(printf, 1, 2)));
extern int zh_log_fd;

/* wrap_io.c */
void io_register(int fd, const char *cls);
void io_unregister(int fd);
void io_set_log(int on);
/* kind: 1 EIO, 2 ENOSPC, 3 EINTR, 4 short(arg bytes really transferred),
 * 5 zero (read returns 0), 6 kill(arg: >=0 bytes, -1 half, -2 len-1),
 * 7 EINTR-once-then-succeed is the same as 3 (caller may retry) */
int io_add_fault(const char *cls, const char *sys, long k, int kind, long arg);
void io_dump_counts(void);
void io_watch(const char *cls, const char *spec);
extern long io_oob_count, io_watch_writes;
ssize_t real_write(int fd, const void *buf, size_t n);
ssize_t real_read(int fd, void *buf, size_t n);
off_t real_lseek(int fd, off_t off, int wh);
ssize_t real_pwrite(int fd, const void *buf, size_t n, off_t off);
ssize_t real_pread(int fd, void *buf, size_t n, off_t off);
int real_ftruncate(int fd, off_t len);
#endif
