"""Start / stop the loopback range server (lib/httpd_range.py) for checks that drive the real zckdl."""
import atexit
import json
import os
import subprocess
import sys

HERE = os.path.dirname(os.path.abspath(__file__))


class Server:
    def __init__(self, workdir):
        self.www = os.path.join(workdir, "www")
        os.makedirs(self.www, exist_ok=True)
        self.log = os.path.join(workdir, "http.log")
        open(self.log, "w").close()
        env = {k: v for k, v in os.environ.items() if k.lower() not in ("http_proxy", "https_proxy")}
        self.proc = subprocess.Popen([sys.executable, os.path.join(HERE, "httpd_range.py"), self.www, self.log], stdout=subprocess.PIPE,
                                     stderr=subprocess.DEVNULL, env=env)
        atexit.register(self.stop)
        line = self.proc.stdout.readline().decode()
        if not line.startswith("PORT "):
            raise RuntimeError("range server did not start: %r" % line)
        self.port = int(line.split()[1])

    def stop(self):
        try:
            self.proc.kill()
        except Exception:
            pass


def requests_for(logpath, needle):
    """Parsed log entries whose path contains `needle`."""
    out = []
    with open(logpath) as f:
        for ln in f:
            if needle in ln:
                try:
                    out.append(json.loads(ln))
                except Exception:
                    pass
    return out


def body_requests(entries, header_len):
    """Range strings of the 206 responses that are body fetches (a request starting inside the header is the header download)."""
    reqs = []
    n200 = 0
    for e in entries:
        if e["status"] == 200:
            n200 += 1
            continue
        if e["status"] != 206:
            continue
        rs = e.get("ranges") or []
        if rs and rs[0][0] < header_len:
            continue
        reqs.append(",".join("%d-%d" % (a, b) for a, b in rs))
    return reqs, n200
