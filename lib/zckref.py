"""Independent reference reader/writer for the zchunk v1 container.

Written from zchunk_format.txt only; shares no code with libzck.  Trusted
base: Python hashlib, the system libzstd (through ctypes) and this file.

Verdict of `decode(data)`:
    Verdict(valid=True, content=..., table=[...], notes=[...], parsed=Parsed)
    Verdict(valid=False, reason="...")
The reference is strict where the properties are strict (checksums, field
widths, extents inside the file, count == number of entries) and permissive
where the format document is silent (non-minimal integer encodings up to ten
bytes, unknown optional elements, unused trailing header bytes, trailing bytes
after the last chunk, declared uncompressed sizes that disagree with what the
stored bytes decode to -> note only).
"""
import ctypes
import hashlib

MAGIC_FULL = b"\0ZCK1"
MAGIC_HDR = b"\0ZHR1"
DIGEST_SIZE = {0: 20, 1: 32, 2: 64, 3: 16}
HASH_NAMES = {0: "SHA-1", 1: "SHA-256", 2: "SHA-512", 3: "SHA-512/128"}
MAX_CI = 10
MAX_DECODE = 256 << 20  # reference refuses to inflate more than this


class Invalid(Exception):
    pass


class Inconclusive(Exception):
    pass


def H(t, data):
    if t == 0:
        return hashlib.sha1(data).digest()
    if t == 1:
        return hashlib.sha256(data).digest()
    if t == 2:
        return hashlib.sha512(data).digest()
    if t == 3:
        return hashlib.sha512(data).digest()[:16]
    raise Invalid("unknown hash type %d" % t)


def hnew(t):
    if t == 0:
        return hashlib.sha1()
    if t == 1:
        return hashlib.sha256()
    return hashlib.sha512()


# --------------------------------------------------------------- integers
def ci_encode(v, pad=0):
    """Minimal encoding of v, optionally made non-minimal with `pad` extra
    zero groups (still terminated)."""
    assert v >= 0
    out = bytearray()
    while True:
        out.append(v & 0x7F)
        v >>= 7
        if v == 0:
            break
    for _ in range(pad):
        out.append(0)
    out[-1] |= 0x80
    return bytes(out)


def ci_decode(buf, pos, end=None):
    """Exact decoder.  Returns (value, nbytes).  Raises Invalid when the
    encoding is unterminated inside [pos,end), longer than ten bytes or does
    not fit 64 bits."""
    if end is None:
        end = len(buf)
    v = 0
    n = 0
    while True:
        if pos + n >= end:
            raise Invalid("integer runs past end of buffer at %d" % pos)
        if n >= MAX_CI:
            raise Invalid("integer longer than %d bytes at %d" % (MAX_CI, pos))
        b = buf[pos + n]
        v |= (b & 0x7F) << (7 * n)
        n += 1
        if b & 0x80:
            break
    if v >= 1 << 64:
        raise Invalid("integer does not fit 64 bits at %d" % pos)
    return v, n


# ------------------------------------------------------------------- zstd
_z = None


def _zstd():
    global _z
    if _z is None:
        z = ctypes.CDLL("libzstd.so.1")
        z.ZSTD_createDCtx.restype = ctypes.c_void_p
        z.ZSTD_freeDCtx.argtypes = [ctypes.c_void_p]
        z.ZSTD_DCtx_loadDictionary.argtypes = [ctypes.c_void_p, ctypes.c_char_p, ctypes.c_size_t]
        z.ZSTD_DCtx_loadDictionary.restype = ctypes.c_size_t
        z.ZSTD_decompressStream.argtypes = [ctypes.c_void_p, ctypes.c_void_p, ctypes.c_void_p]
        z.ZSTD_decompressStream.restype = ctypes.c_size_t
        z.ZSTD_isError.argtypes = [ctypes.c_size_t]
        z.ZSTD_isError.restype = ctypes.c_uint
        z.ZSTD_getErrorName.argtypes = [ctypes.c_size_t]
        z.ZSTD_getErrorName.restype = ctypes.c_char_p
        z.ZSTD_createCCtx.restype = ctypes.c_void_p
        z.ZSTD_freeCCtx.argtypes = [ctypes.c_void_p]
        z.ZSTD_CCtx_setParameter.argtypes = [ctypes.c_void_p, ctypes.c_int, ctypes.c_int]
        z.ZSTD_CCtx_setParameter.restype = ctypes.c_size_t
        z.ZSTD_CCtx_loadDictionary.argtypes = [ctypes.c_void_p, ctypes.c_char_p, ctypes.c_size_t]
        z.ZSTD_CCtx_loadDictionary.restype = ctypes.c_size_t
        z.ZSTD_compress2.argtypes = [ctypes.c_void_p, ctypes.c_void_p, ctypes.c_size_t, ctypes.c_char_p, ctypes.c_size_t]
        z.ZSTD_compress2.restype = ctypes.c_size_t
        z.ZSTD_compressBound.argtypes = [ctypes.c_size_t]
        z.ZSTD_compressBound.restype = ctypes.c_size_t
        _z = z
    return _z


class _Buf(ctypes.Structure):
    _fields_ = [("p", ctypes.c_void_p), ("size", ctypes.c_size_t), ("pos", ctypes.c_size_t)]


def zstd_decompress(src, dict_bytes=b""):
    """Complete output of decoding `src` (one or more concatenated frames).
    Raises Invalid if the bytes are not a complete sequence of zstd frames."""
    z = _zstd()
    if len(src) == 0:
        return b""
    d = z.ZSTD_createDCtx()
    try:
        if dict_bytes:
            r = z.ZSTD_DCtx_loadDictionary(d, dict_bytes, len(dict_bytes))
            if z.ZSTD_isError(r):
                raise Invalid("zstd dictionary rejected: %s" % z.ZSTD_getErrorName(r).decode())
        sbuf = ctypes.create_string_buffer(bytes(src), len(src))
        ib = _Buf(ctypes.cast(sbuf, ctypes.c_void_p), len(src), 0)
        osz = 1 << 17
        obuf = ctypes.create_string_buffer(osz)
        out = bytearray()
        r = 1
        while True:
            ob = _Buf(ctypes.cast(obuf, ctypes.c_void_p), osz, 0)
            r = z.ZSTD_decompressStream(d, ctypes.byref(ob), ctypes.byref(ib))
            if z.ZSTD_isError(r):
                raise Invalid("zstd: %s" % z.ZSTD_getErrorName(r).decode())
            out += obuf.raw[: ob.pos]
            if len(out) > MAX_DECODE:
                raise Inconclusive("reference refuses to inflate more than %d bytes" % MAX_DECODE)
            if r == 0 and ib.pos >= ib.size:
                break  # frame completely decoded and flushed, no input left
            if ib.pos >= ib.size and ob.pos < osz:
                raise Invalid("zstd: truncated frame")
        return bytes(out)
    finally:
        z.ZSTD_freeDCtx(d)


def zstd_compress(src, dict_bytes=b"", level=3, content_size=True, frames=1):
    """content_size=False: the frame header omits the optional content-size field (what a streaming encoder emits);
    frames=n: the content cut in n pieces, each its own frame, concatenated (a legal zstd stream)."""
    if frames > 1 and len(src) >= frames:
        step = len(src) // frames
        cuts = [src[i * step:(i + 1) * step] for i in range(frames - 1)] + [src[(frames - 1) * step:]]
        return b"".join(zstd_compress(c_, dict_bytes, level, content_size, 1) for c_ in cuts)
    z = _zstd()
    c = z.ZSTD_createCCtx()
    try:
        z.ZSTD_CCtx_setParameter(c, 100, level)  # ZSTD_c_compressionLevel
        if not content_size:
            z.ZSTD_CCtx_setParameter(c, 200, 0)  # ZSTD_c_contentSizeFlag
        if dict_bytes:
            z.ZSTD_CCtx_loadDictionary(c, dict_bytes, len(dict_bytes))
        cap = z.ZSTD_compressBound(len(src))
        ob = ctypes.create_string_buffer(cap)
        r = z.ZSTD_compress2(c, ob, cap, bytes(src), len(src))
        if z.ZSTD_isError(r):
            raise RuntimeError(z.ZSTD_getErrorName(r).decode())
        return ob.raw[:r]
    finally:
        z.ZSTD_freeCCtx(c)


# ----------------------------------------------------------------- parser
class Parsed:
    """Every field with its byte offset (`off[name] = (offset, nbytes)`)."""

    def __init__(self):
        self.off = {}
        self.notes = []
        self.chunks = []
        self.opt = []
        self.sigs = []
        self.soft = []  # violations of the format that do not make the content ambiguous


def parse(data, need_body=True):
    """Parse and verify the header.  Raises Invalid."""
    p = Parsed()
    if len(data) < 5:
        raise Invalid("shorter than the identifier")
    magic = bytes(data[:5])
    if magic == MAGIC_FULL:
        p.detached = False
    elif magic == MAGIC_HDR:
        p.detached = True
    else:
        raise Invalid("bad identifier")
    pos = 5
    p.hash_type, n = ci_decode(data, pos)
    p.off["hash_type"] = (pos, n)
    pos += n
    if p.hash_type not in DIGEST_SIZE:
        raise Invalid("unknown header checksum type %d" % p.hash_type)
    ds = DIGEST_SIZE[p.hash_type]
    p.header_size, n = ci_decode(data, pos)
    p.off["header_size"] = (pos, n)
    pos += n
    p.hdr_digest_loc = pos
    if pos + ds > len(data):
        raise Invalid("file ends inside header checksum")
    p.header_digest = bytes(data[pos:pos + ds])
    p.off["header_digest"] = (pos, ds)
    pos += ds
    p.lead_len = pos
    p.header_len = p.lead_len + p.header_size
    if p.header_len > len(data):
        raise Invalid("file ends inside header (%d > %d)" % (p.header_len, len(data)))
    hend = p.header_len
    # header checksum: fixed full-file identifier + lead without digest + rest
    h = hnew(p.hash_type)
    h.update(MAGIC_FULL)
    h.update(bytes(data[5:p.hdr_digest_loc]))
    h.update(bytes(data[p.lead_len:hend]))
    calc = h.digest()[:ds]
    if calc != p.header_digest:
        raise Invalid("header checksum mismatch")
    # preface
    if pos + ds > hend:
        raise Invalid("header ends inside data checksum")
    p.data_digest = bytes(data[pos:pos + ds])
    p.off["data_digest"] = (pos, ds)
    pos += ds
    p.flags, n = ci_decode(data, pos, hend)
    p.off["flags"] = (pos, n)
    pos += n
    if p.flags & ~0x7:
        raise Invalid("unknown flag bits %#x" % p.flags)
    if p.flags & 1:
        raise Invalid("data streams flag set (not decodable by this reference)")
    p.has_opt = bool(p.flags & 2)
    p.has_uncomp = bool(p.flags & 4)
    p.comp_type, n = ci_decode(data, pos, hend)
    p.off["comp_type"] = (pos, n)
    pos += n
    if p.comp_type not in (0, 2):
        raise Invalid("unknown compression type %d" % p.comp_type)
    if p.has_opt:
        cnt, n = ci_decode(data, pos, hend)
        p.off["opt_count"] = (pos, n)
        pos += n
        if cnt > hend:  # every element needs >= 2 bytes
            raise Invalid("optional element count larger than header")
        for i in range(cnt):
            eid, n = ci_decode(data, pos, hend)
            pos += n
            esz, n = ci_decode(data, pos, hend)
            pos += n
            if pos + esz > hend:
                raise Invalid("optional element %d overruns header" % i)
            p.opt.append((eid, bytes(data[pos:pos + esz])))
            pos += esz
    p.index_size, n = ci_decode(data, pos, hend)
    p.off["index_size"] = (pos, n)
    pos += n
    p.preface_len = pos - p.lead_len
    # index
    istart = pos
    iend = istart + p.index_size
    if iend > hend:
        raise Invalid("index overruns header")
    p.chunk_hash_type, n = ci_decode(data, pos, iend)
    p.off["chunk_hash_type"] = (pos, n)
    pos += n
    if p.chunk_hash_type not in DIGEST_SIZE:
        raise Invalid("unknown chunk checksum type %d" % p.chunk_hash_type)
    cds = DIGEST_SIZE[p.chunk_hash_type]
    p.chunk_count, n = ci_decode(data, pos, iend)
    p.off["chunk_count"] = (pos, n)
    pos += n
    start = 0
    k = 0
    while pos < iend:
        c = {"number": k, "off": pos}
        if pos + cds > iend:
            raise Invalid("index ends inside chunk %d checksum" % k)
        c["digest"] = bytes(data[pos:pos + cds])
        pos += cds
        if p.has_uncomp:
            if pos + cds > iend:
                raise Invalid("index ends inside chunk %d uncompressed checksum" % k)
            c["udigest"] = bytes(data[pos:pos + cds])
            pos += cds
        else:
            c["udigest"] = None
        c["comp_len"], n = ci_decode(data, pos, iend)
        pos += n
        c["len"], n = ci_decode(data, pos, iend)
        pos += n
        c["start"] = start
        start += c["comp_len"]
        p.chunks.append(c)
        k += 1
    p.entries = k
    if k != p.chunk_count:
        # the content is still determined by the entries; strict consumers
        # (C13: reported count must equal the chunks reachable) treat it as invalid
        p.soft.append("chunk count %d but %d index entries" % (p.chunk_count, k))
    if k < 1:
        raise Invalid("index has no dictionary entry")
    p.data_len = start
    # signatures
    p.sig_count, n = ci_decode(data, pos, hend)
    p.off["sig_count"] = (pos, n)
    pos += n
    if p.sig_count > hend:
        raise Invalid("signature count larger than header")
    for i in range(p.sig_count):
        st, n = ci_decode(data, pos, hend)
        pos += n
        ss, n = ci_decode(data, pos, hend)
        pos += n
        if pos + ss > hend:
            raise Invalid("signature %d overruns header" % i)
        p.sigs.append((st, bytes(data[pos:pos + ss])))
        pos += ss
    if pos < hend:
        p.notes.append("unused %d bytes at end of header" % (hend - pos))
    p.total_len = p.header_len + p.data_len
    return p


class Verdict:
    def __init__(self, valid, reason=None, content=None, parsed=None, notes=None, dict_bytes=None, pieces=None):
        self.valid = valid
        self.reason = reason
        self.content = content
        self.parsed = parsed
        self.notes = notes or []
        self.dict_bytes = dict_bytes
        self.pieces = pieces  # decoded content per chunk (index 0 = dictionary)

    def __repr__(self):
        if self.valid:
            return "VALID(len=%d, chunks=%d, notes=%r)" % (len(self.content), len(self.parsed.chunks), self.notes)
        return "INVALID(%s)" % self.reason


def chunk_ok(p, data, c):
    """Do the stored bytes of chunk c hash to its index checksum?"""
    a = p.header_len + c["start"]
    b = a + c["comp_len"]
    if b > len(data):
        return False
    if c["comp_len"] == 0:
        # no stored bytes: nothing the checksum could protect.  The format asks
        # for an all-zero checksum; anything else is a soft deviation only.
        if not (c["digest"] == bytes(len(c["digest"])) or c["digest"] == H(p.chunk_hash_type, b"")):
            if "zero-length chunk %d has a non-zero checksum" % c["number"] not in p.soft:
                p.soft.append("zero-length chunk %d has a non-zero checksum" % c["number"])
        return True
    return H(p.chunk_hash_type, bytes(data[a:b])) == c["digest"]


def decode(data):
    try:
        p = parse(data)
    except Invalid as e:
        return Verdict(False, "header: %s" % e)
    if p.detached:
        return Verdict(False, "detached header has no body", parsed=p)
    notes = list(p.notes) + ["soft: " + x for x in p.soft]
    if p.total_len > len(data):
        return Verdict(False, "body truncated (%d < %d)" % (len(data), p.total_len), parsed=p)
    if p.total_len < len(data):
        notes.append("trailing %d bytes after last chunk" % (len(data) - p.total_len))
    for c in p.chunks:
        if not chunk_ok(p, data, c):
            return Verdict(False, "chunk %d checksum mismatch" % c["number"], parsed=p)
    if not p.has_uncomp:
        body = bytes(data[p.header_len:p.total_len])
        if H(p.hash_type, body) != p.data_digest:
            return Verdict(False, "data checksum mismatch", parsed=p)
    pieces = []
    try:
        d0 = p.chunks[0]
        raw = bytes(data[p.header_len:p.header_len + d0["comp_len"]])
        dict_bytes = raw if p.comp_type == 0 else zstd_decompress(raw)
        if len(dict_bytes) != d0["len"]:
            notes.append("dictionary declared %d decodes to %d" % (d0["len"], len(dict_bytes)))
        pieces.append(dict_bytes)
        for c in p.chunks[1:]:
            a = p.header_len + c["start"]
            raw = bytes(data[a:a + c["comp_len"]])
            piece = raw if p.comp_type == 0 else zstd_decompress(raw, dict_bytes)
            if len(piece) != c["len"]:
                notes.append("chunk %d declared %d decodes to %d" % (c["number"], c["len"], len(piece)))
            if p.has_uncomp and c["udigest"] is not None and H(p.chunk_hash_type, piece) != c["udigest"] and len(piece):
                notes.append("chunk %d uncompressed checksum mismatch" % c["number"])
            pieces.append(piece)
    except Invalid as e:
        return Verdict(False, "body: %s" % e, parsed=p)
    return Verdict(True, content=b"".join(pieces[1:]), parsed=p, notes=notes, dict_bytes=dict_bytes, pieces=pieces)


# ----------------------------------------------------------------- writer
class Raw(bytes):
    """Marks a field value as pre-encoded bytes (written verbatim)."""


def _ci(v):
    if isinstance(v, Raw):
        return bytes(v)
    return ci_encode(v)


def build(hash_type=1, flags=0, comp_type=0, chunk_hash_type=1, chunks=(), body=b"",
          data_digest=None, count=None, opt_elems=None, opt_count=None, sig_count=0, sigs=(),
          index_size=None, header_size=None, header_digest=None, detached=False,
          header_tail=b"", tail=b"", lead_hash_field=None, magic=None, index_tail=b""):
    """Serialise any field assignment (including illegal ones) and re-seal the
    header checksum.  chunks: list of dicts/tuples (digest, udigest|None,
    comp_len, len); integer fields may be ints or Raw(bytes)."""
    sealed_to_declared = header_digest is None
    ds = DIGEST_SIZE.get(hash_type, 32)
    idx = bytearray()
    idx += _ci(chunk_hash_type)
    idx += _ci(len(chunks) if count is None else count)
    for c in chunks:
        if isinstance(c, dict):
            dg, ud, cl, ln = c["digest"], c.get("udigest"), c["comp_len"], c["len"]
        else:
            dg, ud, cl, ln = c
        idx += dg
        if ud is not None:
            idx += ud
        idx += _ci(cl)
        idx += _ci(ln)
    idx += index_tail
    pre = bytearray()
    if data_digest is None:
        if flags & 4:
            data_digest = bytes(ds)
        else:
            try:
                data_digest = H(hash_type, body)
            except Invalid:
                data_digest = bytes(ds)
    pre += data_digest
    pre += _ci(flags)
    pre += _ci(comp_type)
    if opt_elems is not None:
        pre += _ci(len(opt_elems) if opt_count is None else opt_count)
        for eid, ed in opt_elems:
            pre += _ci(eid)
            if isinstance(ed, tuple):  # (declared size, actual data)
                pre += _ci(ed[0])
                pre += ed[1]
            else:
                pre += _ci(len(ed))
                pre += ed
    pre += _ci(len(idx) if index_size is None else index_size)
    sg = bytearray()
    sg += _ci(sig_count)
    for st, sd in sigs:
        sg += _ci(st)
        if isinstance(sd, tuple):
            sg += _ci(sd[0])
            sg += sd[1]
        else:
            sg += _ci(len(sd))
            sg += sd
    rest = bytes(pre) + bytes(idx) + bytes(sg) + header_tail
    lead0 = bytearray()
    lead0 += _ci(hash_type if lead_hash_field is None else lead_hash_field)
    lead0 += _ci(len(rest) if header_size is None else header_size)
    if header_digest is None:
        try:
            h = hnew(hash_type)
            h.update(MAGIC_FULL)
            h.update(bytes(lead0))
            h.update(rest)
            header_digest = h.digest()[:ds]
        except Exception:
            header_digest = bytes(ds)
    m = magic if magic is not None else (MAGIC_HDR if detached else MAGIC_FULL)
    img = m + bytes(lead0) + header_digest + rest + body + tail
    if sealed_to_declared:
        # seal over the bytes a reader will hash: the DECLARED header size, which may
        # end inside the header or extend into the body
        img = reseal(img) or img
    return img


def reseal(data):
    """Recompute the header checksum of (possibly mutated) file bytes in place
    of the stored one.  Returns new bytes, or None if the lead cannot be
    parsed far enough to locate the checksum."""
    try:
        if len(data) < 7 or bytes(data[:5]) not in (MAGIC_FULL, MAGIC_HDR):
            return None
        pos = 5
        ht, n = ci_decode(data, pos)
        pos += n
        if ht not in DIGEST_SIZE:
            return None
        hs, n = ci_decode(data, pos)
        pos += n
        ds = DIGEST_SIZE[ht]
        lead_len = pos + ds
        if lead_len + hs > len(data):
            return None
        h = hnew(ht)
        h.update(MAGIC_FULL)
        h.update(bytes(data[5:pos]))
        h.update(bytes(data[lead_len:lead_len + hs]))
        return bytes(data[:pos]) + h.digest()[:ds] + bytes(data[lead_len:])
    except Invalid:
        return None


def make_file(pieces, comp_type=0, dict_bytes=b"", hash_type=1, chunk_hash_type=1, uncomp=False,
              level=3, opt_elems=None, detached=False, header_tail=b"", stored_empty_dict=False, content_size=True, frames=1):
    """Build a valid file from content pieces without libzck.
    stored_empty_dict: no dictionary, but the first index entry stores the zstd frame of nothing (9 bytes stored, 0 bytes of content) -
    what a writer that compresses every entry alike produces; libzck itself stores no bytes for an absent dictionary."""
    stored = []
    if dict_bytes:
        sd = dict_bytes if comp_type == 0 else zstd_compress(dict_bytes, b"", level)
    elif stored_empty_dict and comp_type == 2:
        sd = zstd_compress(b"", b"", level)
    else:
        sd = b""
    cds = DIGEST_SIZE[chunk_hash_type]
    chunks = []
    chunks.append((H(chunk_hash_type, sd) if sd else bytes(cds),
                   (H(chunk_hash_type, dict_bytes) if dict_bytes else bytes(cds)) if uncomp else None,
                   len(sd), len(dict_bytes)))
    stored.append(sd)
    for pc in pieces:
        s = pc if comp_type == 0 else zstd_compress(pc, dict_bytes, level, content_size, frames)
        chunks.append((H(chunk_hash_type, s), H(chunk_hash_type, pc) if uncomp else None, len(s), len(pc)))
        stored.append(s)
    flags = (4 if uncomp else 0) | (2 if opt_elems is not None else 0)
    body = b"".join(stored)
    if detached:
        body = stored[0]
    return build(hash_type=hash_type, flags=flags, comp_type=comp_type, chunk_hash_type=chunk_hash_type,
                 chunks=chunks, body=body, opt_elems=opt_elems, detached=detached, header_tail=header_tail,
                 data_digest=(bytes(DIGEST_SIZE[hash_type]) if uncomp else H(hash_type, b"".join(stored))))


if __name__ == "__main__":
    import sys
    for fn in sys.argv[1:]:
        v = decode(open(fn, "rb").read())
        print(fn, v, hashlib.sha256(v.content).hexdigest() if v.valid else "")
