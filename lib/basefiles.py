"""Base .zck files for the reader-side checks: produced by the library's own
writer (through zh) and by the reference writer."""
import os
import sys

sys.path.insert(0, os.path.dirname(os.path.abspath(__file__)))
import core
import gen
import zckref


def write_with_lib(zh, cdir, D, cfg, seg=None, dict_bytes=None):
    """Returns file bytes or None if the writer refused / failed."""
    files = {"in.dat": D}
    cfg = dict(cfg)
    if dict_bytes:
        files["dict.bin"] = dict_bytes
        cfg["dict"] = "dict.bin"
    w = core.run_zh(zh, cdir, gen.writer_script(cfg, seg=seg), files, name="bw")
    cl = w.first(op="close")
    if not cl or cl["rc"] != 1 or core.crash_signatures(w):
        return None
    return open(os.path.join(cdir, "out.zck"), "rb").read()


def small_set(zh, workdir, seed, n_chunks=(3, 6), piece=(40, 400), kinds=None, count=None):
    """A spread of small valid files: every compression / dict / hash / flag
    kind, manual chunking with small chunks so mutations hit every region.
    Returns list of dicts {name, data, content, cfg}."""
    r = core.rng(seed, "base", "small")
    out = []
    combos = []
    for comp in (0, 2):
        for dct in (False, True):
            for uncomp in (False, True):
                combos.append((comp, dct, uncomp))
    k = 0
    for comp, dct, uncomp in combos:
        for ch in ((3, 1), (1, 0), (2, 2), (0, 3)) if not uncomp else ((1, 1), (2, 2)):
            if count is not None and k >= count:
                break
            chunk_hash, full_hash = ch
            nch = r.randrange(n_chunks[0], n_chunks[1] + 1)
            pieces = [gen.content(r.choice(["license", "text", "random"]), r.randrange(piece[0], piece[1]), r.random()) for _ in range(nch)]
            cfg = {"comp": comp, "manual": True, "chunk_hash": chunk_hash, "full_hash": full_hash, "uncomp": uncomp,
                   "level": r.choice([1, 3, 9])}
            db = gen.content("license", r.choice([60, 300, 2000]), 3) if dct else None
            if comp == 2 and uncomp:
                # (uncompressed-source files) a chunk whose zstd frame is exactly as long as its content
                eq_ = gen.equal_size_piece("%s/%d" % (seed, k), b"", cfg["level"]) if not dct else None
                if eq_:
                    pieces[r.randrange(len(pieces))] = eq_
            D = b"".join(pieces)
            seg = []
            for pc in pieces:
                seg += [len(pc), "e"]
            cdir = os.path.join(workdir, "base%03d" % k)
            data = write_with_lib(zh, cdir, D, cfg, seg, db)
            if data is not None:
                out.append({"name": "lib-c%d-d%d-u%d-h%d%d" % (comp, dct, uncomp, chunk_hash, full_hash), "data": data, "content": D,
                            "cfg": cfg, "pieces": [len(p) for p in pieces], "dict": db})
            k += 1
    return out


def ref_set(seed, count=8):
    """Files from the reference writer (never touched by libzck)."""
    r = core.rng(seed, "base", "ref")
    out = []
    for i in range(count):
        comp = r.choice([0, 2])
        nch = r.randrange(1, 8)
        pieces = [gen.content(r.choice(["license", "text", "random"]), r.randrange(1, 300), r.random()) for _ in range(nch)]
        db = gen.content("license", r.choice([50, 500]), 5) if r.random() < 0.5 else b""
        uncomp = r.random() < 0.3
        if i % 8 == 4:
            comp, uncomp = 2, True   # (always present: zstd + uncompressed-source flag, with an equal-size chunk - see below)
        cht = r.choice([1, 2]) if uncomp else r.choice([0, 1, 2, 3])
        # layouts another writer may legitimately emit and the library's own writer never does: unused bytes behind the signatures
        # (inside the declared header size), optional header elements
        tail = r.randbytes(r.choice([1, 7, 300])) if i % 3 == 1 else b""
        opt = [(r.randrange(1, 9), r.randbytes(r.randrange(0, 40))) for _ in range(r.randrange(1, 3))] if i % 4 == 2 else None
        sed_ = (i % 5 == 3)
        if sed_:
            comp, db = 2, b""
        # zstd frames as other encoders emit them: without the optional content-size field (streaming encoders), several frames per chunk
        nocs_ = (i % 7 == 5)
        frames_ = r.choice([2, 3]) if i % 7 == 6 else 1
        if nocs_ or frames_ > 1:
            comp = 2
            pieces = [pc_ if len(pc_) >= 8 else pc_ + b"12345678" for pc_ in pieces]
        if comp == 2 and i % 2 == 0:
            # a chunk whose compressed form is exactly as long as its content (stored size == uncompressed size, yet compressed)
            eq_ = gen.equal_size_piece("%s/%d" % (seed, i), db)
            if eq_ and frames_ == 1 and not nocs_:
                pieces.insert(r.randrange(len(pieces) + 1), eq_)
        data = zckref.make_file(pieces, comp_type=comp, dict_bytes=db, hash_type=r.choice([0, 1, 2, 3]), chunk_hash_type=cht,
                                uncomp=uncomp, header_tail=tail, opt_elems=opt, stored_empty_dict=sed_, content_size=not nocs_, frames=frames_)
        out.append({"name": "ref-%d%s%s%s%s%s" % (i, "-hdrtail%d" % len(tail) if tail else "", "-optelems" if opt else "", "-emptydictframe" if sed_ else "",
                                              "-nocontentsize" if nocs_ else "", "-frames%d" % frames_ if frames_ > 1 else ""), "data": data, "content": b"".join(pieces),
                    "pieces": [len(p) for p in pieces], "dict": db, "cfg": {"comp": comp, "uncomp": uncomp}})
    return out


def rebuild(p, data, **ov):
    """Re-serialise a parsed file with field overrides and a re-sealed header
    checksum.  Overrides: any zckref.build keyword, plus chunks=[...]."""
    chunks = ov.pop("chunks", None)
    if chunks is None:
        chunks = [(c["digest"], c["udigest"], c["comp_len"], c["len"]) for c in p.chunks]
    kw = dict(hash_type=p.hash_type, flags=p.flags, comp_type=p.comp_type, chunk_hash_type=p.chunk_hash_type,
              chunks=chunks, body=bytes(data[p.header_len:]), data_digest=p.data_digest,
              opt_elems=(p.opt if p.has_opt else None), sig_count=p.sig_count, detached=p.detached)
    kw.update(ov)
    return zckref.build(**kw)
