"""Driver core: case execution under resource limits, sanitizer triage,
violation signatures, known-findings matching, evidence, replay."""
import base64
import concurrent.futures as cf
import hashlib
import json
import os
import random
import re
import resource
import shutil
import signal
import subprocess
import sys
import time

VERIF = os.path.dirname(os.path.dirname(os.path.abspath(__file__)))
sys.path.insert(0, os.path.join(VERIF, "lib"))
import build  # noqa: E402

CPU_LIMIT = 20          # seconds of CPU time per process ("terminates" bound, DESIGN 3.3)
WALL_FACTOR = 10
NWORKERS = int(os.environ.get("ZCKV_WORKERS", "16"))

ASAN_OPTS = ("detect_leaks=0:abort_on_error=0:exitcode=97:allocator_may_return_null=1:"
             "max_allocation_size_mb=1024:hard_rss_limit_mb=4096:detect_stack_use_after_return=1:"
             "handle_abort=1:symbolize=1:print_summary=1")
UBSAN_OPTS = "print_stacktrace=1:halt_on_error=1:exitcode=97:symbolize=1"
TSAN_OPTS = "halt_on_error=0:exitcode=66:second_deadlock_stack=1:history_size=4"


def rng(seed, prop, stream):
    return random.Random("%s/%s/%s" % (seed, prop, stream))


def h8(obj):
    return hashlib.sha256(json.dumps(obj, sort_keys=True, default=str).encode()).hexdigest()[:12]


# ---------------------------------------------------------------- running
def _limits(cpu):
    def f():
        resource.setrlimit(resource.RLIMIT_CPU, (cpu, cpu + 2))
        resource.setrlimit(resource.RLIMIT_FSIZE, (64 << 20, 64 << 20))
        resource.setrlimit(resource.RLIMIT_CORE, (0, 0))
        resource.setrlimit(resource.RLIMIT_NOFILE, (256, 256))
        signal.signal(signal.SIGXFSZ, signal.SIG_IGN)
        os.setsid()
    return f


class Res:
    """Outcome of one process."""

    def __init__(self):
        self.rc = None
        self.sig = None
        self.timed_out = False
        self.cpu_exceeded = False
        self.stdout = b""
        self.stderr = b""
        self.san = ""
        self.events = []
        self.wall = 0.0
        self.open_call = None

    def ev(self, **kw):
        return [e for e in self.events if all(e.get(k) == v for k, v in kw.items())]

    def first(self, **kw):
        for e in self.events:
            if all(e.get(k) == v for k, v in kw.items()):
                return e
        return None


def san_env(cdir, extra=None):
    env = {"PATH": os.environ.get("PATH", "/usr/bin:/bin"), "HOME": "/tmp", "LC_ALL": "C",
           "TMPDIR": cdir,
           "ASAN_OPTIONS": ASAN_OPTS + ":log_path=" + os.path.join(cdir, "san"),
           "UBSAN_OPTIONS": UBSAN_OPTS + ":log_path=" + os.path.join(cdir, "san"),
           "TSAN_OPTIONS": TSAN_OPTS + ":log_path=" + os.path.join(cdir, "san")}
    if extra:
        env.update(extra)
    return env


def run_proc(cmd, cdir, env=None, cpu=CPU_LIMIT, stdin=None, stdin_closed=False, close_fds_list=(), stdout_path=None,
             wall=None):
    """Run one process in cdir with CPU/file-size limits and a wall-clock
    watchdog.  Collects sanitizer logs (san.*)."""
    r = Res()
    t0 = time.time()
    wall = wall or cpu * WALL_FACTOR
    kw = {}
    so = subprocess.PIPE
    if stdout_path:
        so = open(stdout_path, "wb")
    try:
        p = subprocess.Popen(cmd, cwd=cdir, env=env or san_env(cdir), stdin=(subprocess.PIPE if stdin is not None else subprocess.DEVNULL),
                             stdout=so, stderr=subprocess.PIPE, preexec_fn=_limits(cpu), **kw)
    except OSError as e:
        r.rc = 127
        r.stderr = str(e).encode()
        return r
    try:
        out, err = p.communicate(input=stdin, timeout=wall)
    except subprocess.TimeoutExpired:
        r.timed_out = True
        try:
            os.killpg(p.pid, signal.SIGKILL)
        except Exception:
            p.kill()
        out, err = p.communicate()
    if stdout_path:
        so.close()
        out = b""
    r.wall = time.time() - t0
    r.stdout = out or b""
    r.stderr = err or b""
    rc = p.returncode
    if rc is not None and rc < 0:
        r.sig = -rc
        if r.sig in (signal.SIGXCPU, signal.SIGKILL) and not r.timed_out:
            r.cpu_exceeded = r.sig == signal.SIGXCPU or r.wall > cpu * 0.8
    r.rc = rc
    sans = []
    for fn in sorted(os.listdir(cdir)):
        if fn.startswith("san."):
            try:
                sans.append(open(os.path.join(cdir, fn), errors="replace").read())
            except Exception:
                pass
    r.san = "\n".join(sans)
    if not r.san and (b"ERROR: AddressSanitizer" in r.stderr or b"runtime error:" in r.stderr or b"WARNING: ThreadSanitizer" in r.stderr):
        r.san = r.stderr.decode(errors="replace")
    return r


def write_sparse(path, data, block=4096):
    """Write `data` leaving holes where whole blocks are zero (what cp --sparse / rsync -S / a download into a pre-sized file produce)."""
    with open(path, "wb") as f:
        for o in range(0, len(data), block):
            b = data[o:o + block]
            if b.count(0) != len(b):
                f.seek(o)
                f.write(b)
        f.truncate(len(data))


def parse_log(path):
    evs = []
    try:
        with open(path, "rb") as f:
            for line in f:
                line = line.strip()
                if not line:
                    continue
                try:
                    evs.append(json.loads(line))
                except Exception:
                    evs.append({"ev": "unparsable", "raw": line[:200].decode(errors="replace")})
    except FileNotFoundError:
        pass
    return evs


def run_zh(zh, cdir, script, files=None, cpu=CPU_LIMIT, env_extra=None, name="case", prefix=(), slow_retry=None):
    """Run the op interpreter on `script` in cdir.  files: {name: bytes}.  prefix: e.g. a valgrind command line.
    slow_retry: path of the same interpreter from the UNINSTRUMENTED build.  A CPU-bound overrun seen under ASan is
    confirmed there before it counts as "does not terminate": ASan's allocator never grows a block in place, so a loop
    that realloc()s a growing buffer is quadratic under ASan only (1 MiB chunk read in 1-byte steps: 0.3 s plain,
    470 s under ASan).  If the plain run finishes within the same bound its event log is judged instead (r.asan_slow)."""
    r = _run_zh(zh, cdir, script, files, cpu, env_extra, name, prefix)
    if slow_retry and r.cpu_exceeded and not san_signatures(r.san):
        r2 = _run_zh(slow_retry, cdir, script, files, cpu, env_extra, name + "_plain", ())
        if r2.ended and not r2.cpu_exceeded and not r2.timed_out:
            r2.asan_slow = True
            return r2
    return r


def _run_zh(zh, cdir, script, files, cpu, env_extra, name, prefix):
    os.makedirs(cdir, exist_ok=True)
    for fn, data in (files or {}).items():
        with open(os.path.join(cdir, fn), "wb") as f:
            f.write(data)
    sp = os.path.join(cdir, name + ".zh")
    with open(sp, "w") as f:
        f.write(script if script.endswith("\n") else script + "\n")
    logp = os.path.join(cdir, name + ".log")
    outp = os.path.join(cdir, name + ".out")
    for p_ in (logp, outp):
        if os.path.exists(p_):
            os.unlink(p_)
    r = run_proc(list(prefix) + [zh, sp, logp, outp], cdir, env=san_env(cdir, env_extra), cpu=cpu)
    r.events = parse_log(logp)
    try:
        r.out = open(outp, "rb").read()
    except FileNotFoundError:
        r.out = b""
    # op left open (crash / hang / kill)
    calls = {e["i"]: e["call"] for e in r.events if "call" in e}
    done = {e["i"] for e in r.events if "op" in e and "i" in e}
    opened = [i for i in calls if i not in done]
    r.open_call = calls[max(opened)] if opened else None
    r.harness_error = r.first(ev="harness_error")
    r.xcpu = r.first(ev="xcpu")
    if r.xcpu is not None:   # the harness's SIGXCPU handler logged where the CPU budget ran out
        r.cpu_exceeded = True
    r.ended = r.first(ev="end") is not None
    return r


# -------------------------------------------------------- sanitizer triage
_FRAME = re.compile(r"#\d+ 0x[0-9a-f]+ in (\S+) (\S+?)(?::(\d+))?(?::\d+)?$", re.M)
_ASAN = re.compile(r"ERROR: AddressSanitizer: ([\w-]+)")
_UBSAN = re.compile(r"(\S+?):(\d+):(\d+): runtime error: (.*)")


def _lib_frames(text, limit=3):
    """Top frames that lie in the tree under test (src/...), line numbers stripped."""
    out = []
    for m in _FRAME.finditer(text):
        fn, path = m.group(1), m.group(2)
        if "/harness/" in path or path.startswith("/verif"):
            continue
        if "/src/" in path or path.startswith("../") or "repo" in path:
            if "libsanitizer" in path or "/sysdeps/" in path or "/csu/" in path:
                continue
            out.append(fn)
            if len(out) >= limit:
                break
    return out


def san_signatures(text):
    """Signatures of counted sanitizer reports in a log (DESIGN 3.1)."""
    sigs = []
    if not text:
        return sigs
    blocks = re.split(r"(?=^=+\d+=+ERROR: AddressSanitizer)|(?=^\S+:\d+:\d+: runtime error:)", text, flags=re.M)
    for b in blocks:
        m = _ASAN.search(b)
        if m:
            kind = m.group(1)
            acc = "READ" if re.search(r"^READ of size", b, re.M) else ("WRITE" if re.search(r"^WRITE of size", b, re.M) else "")
            if kind == "SEGV":
                mm = re.search(r"The signal is caused by a (READ|WRITE)", b)
                acc = mm.group(1) if mm else ""
                if re.search(r"SEGV on unknown address 0x0{8,}[0-9a-f]{0,3}\b", b):
                    kind = "SEGV-null"
            frames = _lib_frames(b.split("allocated by")[0].split("freed by")[0].split("previously allocated")[0])
            sigs.append("asan:%s:%s:%s" % (kind, acc, "<-".join(frames) or "?"))
            continue
        m = _UBSAN.search(b)
        if m:
            msg = re.sub(r"0x[0-9a-fA-F]+", "P", m.group(4))
            msg = re.sub(r"-?\d+", "N", msg)[:80]
            frames = _lib_frames(b)
            sigs.append("ubsan:%s:%s:%s" % (os.path.basename(m.group(1)), "<-".join(frames[:2]) or "?", msg))
    return sigs


def crash_signatures(r, where=None):
    """Memory-safety / termination signatures of one process result."""
    sigs = san_signatures(r.san)
    loc = where or (r.open_call.split()[0] if getattr(r, "open_call", None) else "proc")
    if r.timed_out and not r.cpu_exceeded:
        return sigs  # inconclusive, handled by caller
    if r.cpu_exceeded or r.sig == signal.SIGXCPU:
        sigs.append("hang:cpu>%ds:%s" % (CPU_LIMIT, loc))
    elif r.sig is not None and not sigs:
        try:
            name = signal.Signals(r.sig).name
        except Exception:
            name = str(r.sig)
        if r.sig in (signal.SIGSEGV, signal.SIGBUS, signal.SIGFPE, signal.SIGILL, signal.SIGABRT):
            sigs.append("signal:%s:%s" % (name, loc))
    return sigs


# ------------------------------------------------------- valgrind memcheck
# Second memory monitor (DESIGN 3.1): the uninstrumented build under memcheck sees what ASan cannot - accesses made
# *inside* uninstrumented libraries (libzstd, libcrypto) on behalf of the library under test with a wrong pointer or
# size.  Invalid reads/writes/frees, overlapping memcpy and unaddressable syscall parameters are counted;
# uninitialised-value messages are recorded as observations only.  "Argument 'size' of function realloc has a fishy value" is
# NOT counted: a file-supplied size handed to the allocator, which refuses it, is an error path, not an access (first thorough
# run reported it on a header declaring 2^63 bytes; the library checks the NULL and fails the open).
MEMCHECK_CPU = 300
_VG_COUNTED = re.compile(r"==\d+== (Invalid read of size \d+|Invalid write of size \d+|Invalid free\(\)|Mismatched free\(\)|"
                         r"Source and destination overlap in \w+|Syscall param \S+ points to unaddressable byte\(s\)|"
                         r"Jump to the invalid address|Process terminating with default action of signal \d+ \(SIG\w+\))")
_VG_UNINIT = re.compile(r"==\d+== (Conditional jump or move depends on uninitialised value|Use of uninitialised value|"
                        r"Syscall param \S+ (?:points to|contains) uninitialised byte)")
_VG_FRAME = re.compile(r"==\d+==\s+(?:at|by) 0x[0-9A-F]+: (\S+) \((?:in )?([^)]*)\)")


def memcheck_prefix(cdir, name="vg"):
    return ["valgrind", "--tool=memcheck", "-q", "--leak-check=no", "--error-exitcode=0", "--fullpath-after=", "--num-callers=16",
            "--error-limit=no", "--log-file=" + os.path.join(cdir, name + ".log")]


def memcheck_report(cdir, name="vg"):
    """(counted signatures, number of uninitialised-value observations) from a memcheck log."""
    try:
        text = open(os.path.join(cdir, name + ".log"), errors="replace").read()
    except FileNotFoundError:
        return [], 0
    sigs = []
    blocks = re.split(r"\n==\d+== \n", text)
    unin = 0
    for b in blocks:
        if _VG_UNINIT.search(b):
            unin += 1
        m = _VG_COUNTED.search(b)
        if not m:
            continue
        kind = re.sub(r"\d+", "N", m.group(1)).replace(" ", "-")
        if kind.startswith("Process-terminating"):
            continue   # the signal itself is reported through crash_signatures
        frames = []
        inlib = False
        for fm in _VG_FRAME.finditer(b.split("Address 0x")[0]):
            fn, where = fm.group(1), fm.group(2)
            if "/harness/" in where:
                break
            if "/src/" in where and "/verif/" not in where:
                inlib = True
                frames.append(fn)
            elif not inlib:
                frames.append(fn)   # frames inside libzstd/libcrypto/libc on top of the library frame
            if len(frames) >= 4:
                break
        if not inlib:
            continue   # no frame of the tree under test: harness or runtime business
        sigs.append("memcheck:%s:%s" % (kind, "<-".join(frames)))
    return sigs, unin


# ---------------------------------------------------------- known findings
def load_known():
    p = os.path.join(VERIF, "known_findings.json")
    try:
        return json.load(open(p))["findings"]
    except FileNotFoundError:
        return []


def match_known(known, prop, sig):
    for k in known:
        if k.get("status") != "known":
            continue
        if prop not in k.get("properties", []):
            continue
        for key in k.get("keys", [k.get("key")]):
            if key and (sig == key or (key.endswith("*") and sig.startswith(key[:-1]))):
                return k
    return None


# ----------------------------------------------------------------- checks
class Violation:
    def __init__(self, sig, detail, case=None, cdir=None):
        self.sig = sig
        self.detail = detail
        self.case = case
        self.cdir = cdir


def verdict(case_id, status, sigs=(), stats=None, nontrivial=False, detail=None, cdir=None, sample=None, case=None):
    """status: held | violated | inconclusive | unsupported"""
    return {"id": case_id, "status": status, "sigs": list(sigs), "stats": stats or {}, "nontrivial": nontrivial,
            "detail": detail, "cdir": cdir, "sample": sample, "case": case}


class Check:
    prop = None
    level = "exploration"
    flavours = ["asan"]
    rule = ""
    assumptions = []
    min_nontrivial = 2

    def __init__(self, tier, seed):
        self.tier = tier
        self.seed = seed
        self.quick = tier == "quick"
        self.t0 = time.time()
        self.counters = {}
        self.samples = []
        self.extra_cov = {}
        self.exhaustive = None
        self.inconclusive = []
        self.work = None

    # -- to override
    def prepare(self, fl):
        """compile harnesses; return context dict passed into every case"""
        return {}

    def cases(self, ctx):
        return []

    # worker = staticmethod(function(case) -> verdict)
    worker = None

    def post(self, verdicts, ctx):
        """optional cross-case oracles; may return extra verdict dicts"""
        return []

    # -- machinery
    def count(self, k, n=1):
        self.counters[k] = self.counters.get(k, 0) + n

    def run(self):
        known = load_known()
        try:
            fl = build.build(self.flavours)
            self.build_s = fl.pop("_build_s")
            self.fl = fl
            self.work = os.path.join(build.scratch(), "w")
            os.makedirs(self.work, exist_ok=True)
            ctx = self.prepare(fl)
        except build.BuildError as e:
            print("HARNESS-FAILURE: build: %s" % e)
            return 2
        cases = list(self.cases(ctx))
        verdicts = []
        if cases:
            worker = type(self).worker
            for i, c in enumerate(cases):
                c.setdefault("dir", os.path.join(self.work, "c%06d" % i))
            with cf.ProcessPoolExecutor(max_workers=NWORKERS) as ex:
                chunk = max(1, min(64, len(cases) // (NWORKERS * 4) or 1))
                for v in ex.map(worker, cases, chunksize=chunk):
                    if isinstance(v, list):
                        verdicts.extend(v)
                    else:
                        verdicts.append(v)
        # one re-run for inconclusive cases
        redo = [v for v in verdicts if v["status"] == "inconclusive" and v.get("case")]
        if redo:
            verdicts = [v for v in verdicts if not (v["status"] == "inconclusive" and v.get("case"))]
            for v in redo:
                c = v["case"]
                c["dir"] = c["dir"] + "_r"
                v2 = type(self).worker(c)
                verdicts.extend(v2 if isinstance(v2, list) else [v2])
        verdicts.extend(self.post(verdicts, ctx) or [])
        return self.conclude(verdicts, known)

    def conclude(self, verdicts, known):
        n_eval = 0
        distinct = set()
        unknown = {}
        knownhits = {}
        n_inc = 0
        n_unsup = 0
        for v in verdicts:
            n_eval += v["stats"].pop("evaluations", 1)
            for k, n in v["stats"].items():
                if isinstance(n, (int, float)):
                    self.count(k, n)
                elif isinstance(n, list):
                    s = self.extra_cov.setdefault(k, set())
                    s.update(n)
            if v["nontrivial"]:
                if isinstance(v["nontrivial"], (list, set, tuple)):
                    distinct.update(v["nontrivial"])
                else:
                    distinct.add(v["id"])
            if v.get("sample") is not None and len(self.samples) < 6:
                self.samples.append(v["sample"])
            if v["status"] == "inconclusive":
                n_inc += 1
                self.inconclusive.append({"id": v["id"], "why": v.get("detail")})
            elif v["status"] == "unsupported":
                n_unsup += 1
            elif v["status"] == "violated":
                for s in v["sigs"]:
                    k = match_known(known, self.prop, s)
                    if k:
                        knownhits.setdefault(s, (k, 0))
                        knownhits[s] = (k, knownhits[s][1] + 1)
                    else:
                        unknown.setdefault(s, []).append(v)
        for s, (k, n) in sorted(knownhits.items()):
            print("KNOWN-FINDING: property=%s %s [%s] (%d cases)" % (self.prop, k["what"], s, n))
        rc = 0
        for s, vs in sorted(unknown.items()):
            v = vs[0]
            rp = self.save_replay(s, v)
            print("VIOLATION property=%s replay=%s" % (self.prop, rp))
            print("  signature: %s  (%d cases)  %s" % (s, len(vs), (v.get("detail") or "")[:600]))
            rc = 1
        self.count("unsupported_configurations", n_unsup)
        cov = {"evaluations": n_eval, "distinct_nontrivial": len(distinct), "rule": self.rule,
               "samples": self.samples[:6] or [{"note": "no sample recorded"}],
               "counters": self.counters, "inconclusive": self.inconclusive[:20], "n_inconclusive": n_inc,
               "known_findings_hit": sorted(knownhits), "build_s": round(getattr(self, "build_s", 0), 1)}
        for k, s in self.extra_cov.items():
            cov[k] = sorted(s)[:200]
            cov["n_" + k] = len(s)
        if self.exhaustive is not None:
            cov["exhaustive"] = self.exhaustive
        # what the last coverage audit (lib/covaudit.py, gcov-instrumented builds of this same workload) found unreached in the
        # property's anchor files: a monitor cannot see a break in code its workload does not execute
        try:
            au = json.load(open(os.path.join(VERIF, "audit", "summary.json"))).get(self.prop)
            if au:
                cov["coverage_audit"] = {"anchor_file_lines": au["anchor_lines"], "executed": au["executed"],
                                         "functions_with_unexecuted_lines": {fn: sorted(fs)[:40] for fn, fs in au["unexecuted_by_function"].items()},
                                         "note": "from the last lib/covaudit.py run of this check's quick tier (audit/%s.txt lists the lines); processes that end by "
                                                 "_exit/signal do not flush counters, so executed is a lower bound" % self.prop}
        except Exception:
            pass
        self.write_evidence(cov, len(unknown))
        if rc == 0:
            if n_eval and n_inc > max(2, 0.02 * n_eval):
                print("HARNESS-FAILURE: %d of %d cases inconclusive" % (n_inc, n_eval))
                return 2
            if len(distinct) < self.min_nontrivial:
                print("HARNESS-FAILURE: monitor observed too little (%d non-trivial cases)" % len(distinct))
                return 2
            print("OK property=%s tier=%s seed=%s evaluations=%d distinct_nontrivial=%d inconclusive=%d known=%d wall=%.0fs" %
                  (self.prop, self.tier, self.seed, n_eval, len(distinct), n_inc, len(knownhits), time.time() - self.t0))
        return rc

    def save_replay(self, sig, v):
        key = re.sub(r"[^A-Za-z0-9_.-]+", "_", sig)[:60] + "-" + hashlib.sha256(sig.encode()).hexdigest()[:8]
        rd = os.path.join(os.environ.get("ZCKV_REPLAY_DIR", os.path.join(VERIF, "replays")), self.prop, key)
        shutil.rmtree(rd, ignore_errors=True)
        os.makedirs(rd, exist_ok=True)
        if v.get("cdir") and os.path.isdir(v["cdir"]):
            for fn in os.listdir(v["cdir"]):
                src = os.path.join(v["cdir"], fn)
                if os.path.isfile(src) and os.path.getsize(src) < (8 << 20):
                    shutil.copy(src, os.path.join(rd, fn))
        c = dict(v.get("case") or {})
        c.pop("dir", None)
        with open(os.path.join(rd, "case"), "w") as f:
            json.dump({"property": self.prop, "signature": sig, "detail": v.get("detail"), "case": c,
                       "seed": self.seed, "tier": self.tier}, f, indent=1, default=str)
        return os.path.join(rd, "case")

    def write_evidence(self, cov, nviol):
        ev = {"property_id": self.prop, "tier": self.tier, "seed": int(self.seed), "level": self.level,
              "coverage": cov, "assumptions": self.assumptions, "wall_s": round(time.time() - self.t0, 1),
              "violations": nviol}
        evd = os.environ.get("ZCKV_EVIDENCE_DIR", os.path.join(VERIF, "evidence"))
        os.makedirs(evd, exist_ok=True)
        p = os.path.join(evd, self.prop + ".json")
        with open(p + ".tmp", "w") as f:
            json.dump(ev, f, indent=1, default=str)
        os.replace(p + ".tmp", p)


def cleanup_case(cdir, keep):
    if not keep:
        shutil.rmtree(cdir, ignore_errors=True)


def b64(b):
    return base64.b64encode(b).decode()


def unb64(s):
    return base64.b64decode(s)


def _replay(self, path):
    """Re-run exactly the case stored in a replay directory."""
    d = json.load(open(path))
    case = d["case"]
    fl = build.build(self.flavours)
    fl.pop("_build_s")
    self.work = os.path.join(build.scratch(), "w")
    os.makedirs(self.work, exist_ok=True)
    ctx = self.prepare(fl)
    for k, v in ctx.items():
        if k in case or k.endswith("_plain"):
            case[k] = v
    case["dir"] = os.path.join(self.work, "replay")
    os.environ["ZCKV_KEEP_CASE"] = "1"
    v = type(self).worker(case)
    vs = v if isinstance(v, list) else [v]
    rc = 0
    for v in vs:
        print("replay: status=%s sigs=%s detail=%s" % (v["status"], v["sigs"], (v.get("detail") or "")[:1000]))
        if v["status"] == "violated":
            rc = 1
            if d["signature"] in v["sigs"]:
                print("VIOLATION property=%s replay=%s" % (self.prop, path))
    return rc


Check.replay = _replay
