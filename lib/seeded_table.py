#!/usr/bin/env python3
"""Regenerates the seeded-changes table in DESIGN.md from seeded/*/meta.json."""
import glob, json, os, re
HERE = os.path.dirname(os.path.dirname(os.path.abspath(__file__)))
rows = ["| change | breaks | what it does (agent's summary, abridged) | suite | demo changed/clean | caught by (quick tier) -> first signature |", "|---|---|---|---|---|---|"]
for d in sorted(glob.glob(os.path.join(HERE, "seeded", "*"))):
    try:
        m = json.load(open(os.path.join(d, "meta.json")))
    except Exception:
        continue
    notes = ""
    try:
        notes = open(os.path.join(d, "notes.md")).read()
    except Exception:
        pass
    title = m.get("summary") or ""
    if not title:
        for ln in notes.split("\n"):
            t = ln.strip("# *-").strip()
            if len(t) > 25 and not t.lower().startswith(("property", "notes", "seed")):
                title = t
                break
    caught = "; ".join("%s -> `%s`" % (c, (v["signatures"] or ["?"])[0][:90]) for c, v in m.get("checks", {}).items() if v["exit"] == 1) or "**not caught**"
    missed = [c for c, v in m.get("checks", {}).items() if v["exit"] == 0]
    if missed and caught != "**not caught**":
        caught += " (silent: %s)" % ",".join(missed)
    cf = m.get("confirmed", {})
    rows.append("| %s | %s | %s | %s | %s / %s | %s |" % (m["id"], m["property"], title.replace("|", "/")[:160], cf.get("existing_suite_with_change"), cf.get("demo_exit_on_changed_tree"),
                                                     cf.get("demo_exit_on_clean_tree"), caught))
p = os.path.join(HERE, "DESIGN.md")
s = open(p).read()
s = re.sub(r"<!-- SEEDED-TABLE-BEGIN -->.*?<!-- SEEDED-TABLE-END -->", "<!-- SEEDED-TABLE-BEGIN -->\n" + "\n".join(rows) + "\n<!-- SEEDED-TABLE-END -->", s, flags=re.S)
open(p, "w").write(s)
print(len(rows) - 2, "seeded changes")
