#!/usr/bin/env python3
"""Regenerates MANIFEST.json from the table below (kept in one place so it is
always schema-valid)."""
import json
import os

HERE = os.path.dirname(os.path.dirname(os.path.abspath(__file__)))
ALL = ["C%02d" % i for i in range(1, 21)]

CHECKS = {
    "C01": dict(level="exploration", ref="DESIGN.md 5 C01",
                technique="runtime differential monitoring: write with real library under ASan/UBSan, read back through library (generated buffer-size sequences) and an independent reference decoder; CPU-time bound on the write path; zck/unzck end to end",
                text="Held on every generated (content, configuration, segmentation, read sequence) case executed; sampled, not exhaustive. Right level because the property quantifies over unbounded inputs/configurations and the oracle (byte equality with the written content, plus an independent decoder) is exact for each execution.",
                note="Trusts lib/zckref.py (written from zchunk_format.txt), Python hashlib, system libzstd; inputs <= 2 MiB; ASan/UBSan red-zone limits."),
}

NOT_YET = "check not implemented yet in this round (planned in DESIGN.md 5); not claimed"


def main():
    checks = []
    for pid in ALL:
        c = CHECKS.get(pid)
        if not c:
            continue
        checks.append({
            "property_id": pid,
            "quick_cmd": "./check %s --tier quick" % pid,
            "thorough_cmd": "./check %s --tier thorough" % pid,
            "evidence_file": "evidence/%s.json" % pid,
            "replay_cmd_template": "./check %s --replay {path}" % pid,
            "engine": "zckv",
            "level_claimed": {"category": c["level"], "text": c["text"], "design_ref": c["ref"]},
            "level_note": c["note"],
            "technique": c["technique"],
        })
    m = {
        "version": 1,
        "setup_cmd": "python3 lib/selfcheck.py",
        "hooks": {
            "guard": "ZCK_VERIF",
            "enable": "every verification build passes -DZCK_VERIF in CFLAGS (lib/build.py); no source hook exists so far",
            "baseline_off_cmd": "cd /repo && (test -d _build || meson setup _build) && ninja -C _build && meson test -C _build",
            "source_commits": [],
            "add_only": True,
        },
        "engines": [{"name": "zckv", "path": "check", "serves_properties": sorted(CHECKS),
                     "kind_free_text": "python driver + C harnesses run against sanitizer builds of /repo's working tree; offline oracles over event logs"}],
        "checks": checks,
        "notes": "All checks rebuild /repo's working tree in a private scratch directory on every invocation. Exit 0 held / 1 VIOLATION / 2 harness failure.",
        "not_applicable": [{"property_id": p, "reason": NOT_YET} for p in ALL if p not in CHECKS],
    }
    with open(os.path.join(HERE, "MANIFEST.json"), "w") as f:
        json.dump(m, f, indent=1)
        f.write("\n")


if __name__ == "__main__":
    main()
