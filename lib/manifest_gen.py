#!/usr/bin/env python3
"""Regenerates MANIFEST.json from the table below (kept in one place so it is
always schema-valid).  A property is claimed only if props/<id>.py exists AND
it has an entry here."""
import json
import os

HERE = os.path.dirname(os.path.dirname(os.path.abspath(__file__)))
ALL = ["C%02d" % i for i in range(1, 21)]

EXPL = ("Held on every case executed; sampled, not exhaustive, except for the finite sub-spaces the evidence marks exhaustive. "
        "Right level because the property quantifies over unbounded inputs and the oracle is exact for each execution.")
TRUST = "Trusts lib/zckref.py (written from zchunk_format.txt), Python hashlib, system libzstd; ASan/UBSan red-zone limits."

CHECKS = {
    "C01": dict(level="exploration",
                technique="runtime differential monitoring: write with real library under ASan/UBSan, read back through library (generated buffer-size sequences) and an independent reference decoder; CPU-time bound on the write path; zck/unzck end to end; output behind a preamble / O_APPEND; procfs inputs; unzck over an existing output file; CPU-bound overruns confirmed on the uninstrumented build",
                text="Held on every generated (content, configuration, segmentation, read sequence) case executed; sampled, not exhaustive. Right level because the property quantifies over unbounded inputs/configurations and the oracle (byte equality with the written content, plus an independent decoder) is exact for each execution.",
                note=TRUST + " Inputs <= 2 MiB."),
    "C02": dict(level="exploration",
                technique="runtime monitoring of the real reader (library + unzck, ASan/UBSan) on mutated and re-sealed files; offline oracle over the read event log: success implies equality with an independent reference decoder; reads issued after validation calls as well; the same alterations under the detached-header identifier; truncation at every chunk boundary; unaltered files of other writers / encoders (padded headers, stored empty dictionary frame, frames without content size, multi-frame chunks, equal-size chunks)",
                text=EXPL + " One-directional oracle (success => equals reference content).",
                note=TRUST + " Corruption patterns limited to the mutation grammar; hash collisions out of scope."),
    "C03": dict(level="exploration",
                technique="sanitizer monitoring (ASan+UBSan, signals, CPU-time bound) of the public API (random op programs) and all command-line tools on re-sealed hostile headers, raw mutations and libFuzzer-generated inputs; valgrind memcheck on the uninstrumented build for a sample (accesses made inside libzstd/libcrypto)",
                text=EXPL + " A clean sanitizer run is not memory safety: red-zone tools miss far and intra-object overflows.",
                note="Counts ASan/UBSan reports, fatal signals and CPU-bound overruns (DESIGN 3.1, 3.3); nonnull-attribute and leaks not counted."),
    "C04": dict(level="exploration",
                technique="offline checker over the recorded request/response/valid-flag history of the documented update procedure run in-process against a server holding B (and the real zckdl against a loopback range server in the thorough tier): final bytes == B, requested bytes == exactly the stored extents of the chunks neither valid in the target nor present in A; requests with thousands of separate ranges; HTTP/2 status lines, earlier header blocks, blanks in boundaries, chained application callbacks",
                text=EXPL,
                note=TRUST + " Expected fetch set computed from A, B and the initial target by the reference parser only."),
    "C05": dict(level="exploration",
                technique="runtime monitoring of the download callbacks under every 1-/2-cut fragmentation of small responses (exhaustive) and sampled fragmentations of larger ones; agreement across fragmentations, model image computed in Python, write(2) interposer log for confinement; a third of the runs with application callbacks chained behind the library's (zck_dl_set_write_cb)",
                text=EXPL + " The 1- and 2-cut fragmentation spaces of the small responses are enumerated completely.",
                note=TRUST + " Response shapes limited to the grammar in DESIGN 5 C05."),
    "C06": dict(level="exploration",
                technique="exhaustive single-byte mutation of the header region (every position x every other value) of sample files through the real open paths (zck_init_read; lead+header step by step; pinned to the genuine checksum before / after the lead; every failing step repeated after zck_clear_error; writer-side options set on the reading context) under ASan; padded headers with a checksum reaching only to the signatures; patched images incl. non-minimal re-encodings of every integer; independent header checksum recomputation with hashlib",
                text="Every single-byte substitution of every header byte of each sample file is executed (exhaustive over that finite space); insertions/deletions and digest transplants sampled. Right level: the property is a statement about each header byte.",
                note="Independent checksum from Python hashlib; sample files cover the 4 lead checksum types, flags, dict/no dict, detached headers."),
    "C07": dict(level="exploration",
                technique="runtime enumeration of pinned-digest strings (every position x all 256 byte values), lengths, type/length pins and pin-vs-actual grids through the real option setters and lead readers; oracle = Python int(x,16) / byte equality; pins whose differences cancel under folding, refused re-pins, pins changed / file rewritten in place between zck_validate_lead and the open, type pins beyond the int range, leads whose size wraps around 2^64, images through pipe / FIFO / socket / behind another image",
                text=EXPL + " The per-position byte enumeration of the digest string is exhaustive.",
                note="Oracle: Python string/hex semantics; reference parse of the file's lead."),
    "C08": dict(level="exploration",
                technique="offline checker over zck_copy_chunks / zck_find_matching_chunks runs: valid flags vs hashlib recomputation over the target's bytes, write(2) interposer log + image diff for confinement, source hash before/after; descriptor re-opened between copies (zck_set_fd), target on descriptor 2, crafted index pairs; zero-block chunks over stale target bytes; sources cut inside a chunk",
                text=EXPL,
                note=TRUST),
    "C09": dict(level="exploration",
                technique="runtime monitoring of zck_find_valid_chunks / zck_validate_checksums / zck_validate_data_checksum on generated on-disk states: flags and verdicts vs hashlib recomputation, interposer log proves no write, read-after-validation equals read-without; sparse files, empty and repeated chunks, another writer's header layouts (incl. a first entry storing the frame of nothing), validation through a pipe; tool verdicts (zck_read_header -f with and without -c, unzck -c)",
                text=EXPL + " All 4^n chunk-state combinations are enumerated for the smallest files.",
                note=TRUST),
    "C10": dict(level="exploration",
                technique="runtime monitoring of zck_get_missing_range / zck_get_range_char / range index on validity vectors established through the public API (all 2^n vectors for small n, exhaustive) against a Python set computation over the chunk table; ASan on the string builder; multi-step sequences on one context (late hints, copies with damaged sources), empty chunks, 10-digit offsets with > 32 KB of request text, valid gaps of exactly k x 4 GiB, padded headers",
                text=EXPL + " All validity vectors of the small indexes x all limits are enumerated completely.",
                note=TRUST),
    "C11": dict(level="fault_enumeration",
                technique="kill-point enumeration: the update procedure is killed at every write(2) to the target (several byte offsets inside each write) via a link-time interposer, then resumed in a fresh process; offline checker over the resume's request log and the snapshot taken at the kill; restarts with a different local source; new versions listing the same chunk several times; the real zckdl killed and resumed; a failing uninterrupted update from a partial target is a violation",
                text="Every target write of each scenario is a kill point and each is executed with several partial-transfer sizes (exhaustive per scenario); scenarios sampled. Right level: the property quantifies over interruption points of a finite execution.",
                note=TRUST + " Interruption modelled at write(2) granularity; no power-loss reordering."),
    "C12": dict(level="fault_enumeration",
                technique="fault enumeration: every read/write/lseek on every descriptor class in each scenario is failed (EIO/ENOSPC/EINTR), shortened or zeroed via link-time and LD_PRELOAD interposers; oracle: success reported => the bytes that reached the descriptor are complete and correct; kernel-side copy calls (sendfile family) counted and faulted as writes; callers that clear the error and retry (writer, reader and chunk copy); step-by-step opens; double faults",
                text="For each scenario a fault-free run counts the calls per (syscall, descriptor class); every k-th call is then re-run under each fault kind (exhaustive per scenario). Right level: the property quantifies over failure points of a finite execution.",
                note=TRUST + " (INJECTED) markers in the log prove each fault fired."),
    "C13": dict(level="exploration",
                technique="runtime differential monitoring: dump of every public getter + chunk iteration and zck_read_header output and lookups by number in non-ascending orders vs independent reference parse of reference-writer headers (boundary grid, re-sealed); optional-element overruns/rewinds, unused header bytes, image behind another image in the same descriptor; type values modulo 2^8 / 2^16, overflowing lead integers, writer-side options on reading contexts",
                text=EXPL,
                note=TRUST),
    "C14": dict(level="exploration",
                technique="runtime monitoring of zck_get_chunk_data / zck_get_chunk_comp_data request sequences (all sequences up to length 2/3 for small files) against reference slices, with buffers exactly / larger / smaller than the chunk; history independence via position-independent expectation; requests interleaved with the application's own use of the descriptor; chunks beyond 10 MiB; foreign zstd frame styles; unzck --dict on files and detached headers",
                text=EXPL + " All request sequences up to the stated length are enumerated for the smallest files.",
                note=TRUST),
    "C15": dict(level="exploration",
                technique="runtime monitoring of zck_read on zstd files with single-bit body corruption: every successfully returned byte attributed to its chunk via the reference index; a byte from a chunk whose stored bytes mismatch its checksum is a violation; the corrupted chunk also requested by number (zck_get_chunk_data); chunks of several MiB (stored size > 4 MiB), runs of identical chunks, multi-frame chunks",
                text=EXPL,
                note=TRUST),
    "C16": dict(level="exploration",
                technique="runtime differential monitoring of the writer: byte equality of outputs across write-call segmentations and fresh processes; chunk tables of edited inputs compared (prefix/suffix locality); automatic chunk sizes vs effective bounds read from the writer context (incl. minimum == maximum); a second archive written in the same thread between the calls; workloads include contents with crafted rolling-hash hits (built from the tree's buzhash table) and the zck tool fed through a regular file, a FIFO with controlled read() sizes and shifted contents",
                text=EXPL,
                note=TRUST),
    "C17": dict(level="exploration",
                technique="sanitizer monitoring (ASan+UBSan, signals, CPU bound) of the download callbacks fed structured hostile header lines / bodies and libFuzzer-generated responses; write(2) interposer log for confinement; valid flags vs hashlib; runs at DEBUG log level and with the target on descriptor 2; retry sequences; part headers beyond 1 MiB; chained application callbacks; a second transfer in the same process freed between header lines; printf conversions in server text; deliveries while no range is set",
                text=EXPL,
                note="Counts ASan/UBSan reports, fatal signals, CPU-bound overruns; confinement judged from the interposer's write log."),
    "C18": dict(level="exploration",
                technique="differential execution of the two real builds (OpenSSL and bundled SHA) with Python hashlib as third party: digests over all lengths 0..520 x segmentations, random long messages, and cross-build write/read of files; messages of 2^29+k bytes and single update calls above 256 MiB; a third of the runs with a dirty OpenSSL error queue / non-zero errno left by the application; checksum options set again in the middle of a chunk",
                text=EXPL + " Message lengths 0..520 x 4 types are enumerated completely for whole/1-byte/every-split segmentations.",
                note="Third party: Python hashlib."),
    "C19": dict(level="exploration",
                technique="ThreadSanitizer (happens-before race detection) over multi-threaded workloads on distinct contexts (write, read, validate, random access, copy, pinned opens, single-range and multipart downloads through the callbacks, process-wide log callback, contexts opened by the main thread and handed to a worker), reports filtered to library frames; per-thread return-value/fingerprint logs compared with a serial run of the same programs",
                text="Held on the interleavings executed; TSan reports an unsynchronised conflicting pair whenever both accesses execute, so reach comes from every scenario pair being co-scheduled.",
                note="TSan only sees instrumented code (library + harness); OpenSSL/zstd internals uninstrumented."),
    "C20": dict(level="exploration",
                technique="runtime enumeration with guard-page monitor: every byte string of length <= 3 and boundary strings of length 8..11 through the real decoders with a PROT_NONE page behind the buffer; exact expectation from 128-bit / Python integer arithmetic; ASan pass; the same at the most verbose log level; cursors and room beyond 4 GiB; cursor past the limit",
                text="All byte strings of length <= 3 at every (cursor, limit) are enumerated completely; longer encodings sampled on the boundary grid.",
                note="Oracle: exact integer arithmetic (unsigned __int128 in the harness, Python ints cross-check)."),
}

REASON_NOT_YET = "check not built yet (design in DESIGN.md 5); not claimed"
NOT_APPLICABLE = {}


def main():
    checks = []
    claimed = []
    for pid in ALL:
        c = CHECKS.get(pid)
        if not c or not os.path.exists(os.path.join(HERE, "props", pid.lower() + ".py")) or pid in NOT_APPLICABLE:
            continue
        claimed.append(pid)
        checks.append({
            "property_id": pid,
            "quick_cmd": "./check %s --tier quick" % pid,
            "thorough_cmd": "./check %s --tier thorough" % pid,
            "evidence_file": "evidence/%s.json" % pid,
            "replay_cmd_template": "./check %s --replay {path}" % pid,
            "engine": "zckv",
            "level_claimed": {"category": c["level"], "text": c["text"], "design_ref": "DESIGN.md 5 " + pid},
            "level_note": c["note"],
            "technique": c["technique"],
        })
    m = {
        "version": 1,
        "setup_cmd": "python3 lib/selfcheck.py",
        "hooks": {
            "guard": "ZCK_VERIF",
            "enable": "every verification build passes -DZCK_VERIF in CFLAGS (lib/build.py); no source hook exists so far",
            "baseline_off_cmd": "cd /repo && (test -d _build || meson setup _build) && ninja -C _build && meson test -C _build",
            "source_commits": [],
            "add_only": True,
        },
        "engines": [{"name": "zckv", "path": "check", "serves_properties": claimed,
                     "kind_free_text": "python driver + C harnesses run against sanitizer builds of /repo's working tree; offline oracles over event logs"}],
        "checks": checks,
        "notes": "All checks rebuild /repo's working tree in a private scratch directory on every invocation. Exit 0 held / 1 VIOLATION / 2 harness failure.",
        "not_applicable": [{"property_id": p, "reason": NOT_APPLICABLE.get(p, REASON_NOT_YET)} for p in ALL if p not in claimed],
    }
    with open(os.path.join(HERE, "MANIFEST.json"), "w") as f:
        json.dump(m, f, indent=1)
        f.write("\n")
    print("claimed:", " ".join(claimed))


if __name__ == "__main__":
    main()
