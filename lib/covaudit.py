#!/usr/bin/env python3
"""Coverage audit (development aid, not a check): which lines/branches of each property's anchor
files did that property's workload actually execute?

  covaudit.py run  [--tier quick] [C01 C02 ...]   run the checks with gcov-instrumented builds (ZCKV_COV_OUT)
  covaudit.py report [C01 ...]                    per property: anchor files, % lines, unexecuted lines with source

Raw per-check line counts land in audit/raw/<Cxx>.json, the report in audit/<Cxx>.txt and audit/summary.json.
A line that the workload never reaches is a place where no monitor can see a break: the report is the to-do
list for workload extension, and its summary is quoted in the evidence files ("anchor lines not reached").
Processes that end by a signal or _exit (kill points, sanitizer aborts) do not flush counters, so the numbers
are a lower bound."""
import json
import os
import re
import subprocess
import sys
import tempfile

VERIF = os.path.dirname(os.path.dirname(os.path.abspath(__file__)))
REPO = os.environ.get("ZCK_REPO", "/repo")
RAW = os.path.join(VERIF, "audit", "raw")
ALL = ["C%02d" % i for i in range(1, 21)]


def props():
    out = {}
    for line in open(os.path.join(VERIF, "properties.jsonl")):
        p = json.loads(line)
        out[p["id"]] = p
    return out


def run(ids, tier):
    os.makedirs(RAW, exist_ok=True)
    for c in ids:
        env = dict(os.environ)
        env["ZCKV_COV_OUT"] = RAW
        env["ZCKV_COV_TAG"] = c
        scratch = tempfile.mkdtemp(prefix="zckv_cov_")
        env["ZCKV_EVIDENCE_DIR"] = scratch
        env["ZCKV_REPLAY_DIR"] = os.path.join(scratch, "replays")
        p = subprocess.run([os.path.join(VERIF, "check"), c, "--tier", tier], cwd=VERIF, env=env, stdout=subprocess.PIPE,
                           stderr=subprocess.STDOUT)
        tail = [l for l in p.stdout.decode(errors="replace").splitlines() if l.startswith(("OK", "VIOLATION", "HARNESS"))]
        print(c, "rc=%d" % p.returncode, tail[:2], flush=True)
        subprocess.run(["rm", "-rf", scratch])


def anchor_ranges(p):
    """{file: [(lo, hi), ...]} from the anchors' `where` fields; files without a range get the whole file."""
    files = {f: [] for f in p["anchors"].get("files", [])}
    for kind in ("state", "mechanism"):
        for a in p["anchors"].get(kind, []) or []:
            w = a.get("where") or ""
            for m in re.finditer(r"([\w./-]+\.[ch]):([\d,\s-]+)", w):
                fn = m.group(1)
                for part in m.group(2).split(","):
                    part = part.strip()
                    if not part:
                        continue
                    lo, _, hi = part.partition("-")
                    try:
                        files.setdefault(fn, []).append((int(lo), int(hi or lo)))
                    except ValueError:
                        pass
    return files


def report(ids):
    pr = props()
    summary = {}
    for c in ids:
        rp = os.path.join(RAW, c + ".json")
        if not os.path.exists(rp):
            continue
        cov = json.load(open(rp))
        out = []
        tot = hit = 0
        missing_fn = {}
        for fn, ranges in sorted(anchor_ranges(pr[c]).items()):
            d = cov.get(fn)
            if d is None:
                out.append("== %s : not built / no counters" % fn)
                continue
            try:
                src = open(os.path.join(REPO, fn), errors="replace").read().splitlines()
            except OSError:
                src = []
            lines = {int(k): v for k, v in d["lines"].items()}
            n = len(lines)
            h = sum(1 for v in lines.values() if v > 0)
            tot += n
            hit += h
            out.append("== %s : %d/%d lines executed" % (fn, h, n))
            for ln in sorted(lines):
                if lines[ln] == 0:
                    f = d["fn"].get(str(ln), "?")
                    missing_fn.setdefault(fn, {}).setdefault(f, []).append(ln)
                    out.append("   - %5d %-28s %s" % (ln, f, src[ln - 1].strip()[:110] if ln <= len(src) else ""))
            # branches never taken on executed lines
            for k, bs in sorted(d["branches"].items(), key=lambda kv: int(kv[0])):
                ln = int(k)
                if lines.get(ln, 0) > 0 and any(b == 0 for b in bs) and any(b > 0 for b in bs):
                    out.append("   b %5d %-28s %s   branches=%s" % (ln, d["fn"].get(k, "?"), src[ln - 1].strip()[:90] if ln <= len(src) else "", bs))
        os.makedirs(os.path.join(VERIF, "audit"), exist_ok=True)
        with open(os.path.join(VERIF, "audit", c + ".txt"), "w") as f:
            f.write("\n".join(out) + "\n")
        summary[c] = {"anchor_lines": tot, "executed": hit,
                      "unexecuted_by_function": {fn: {f: ls for f, ls in fs.items()} for fn, fs in missing_fn.items()}}
        print("%s anchor files: %d/%d lines executed (%.1f%%)" % (c, hit, tot, 100.0 * hit / max(tot, 1)))
    with open(os.path.join(VERIF, "audit", "summary.json"), "w") as f:
        json.dump(summary, f, indent=1, sort_keys=True)


if __name__ == "__main__":
    a = sys.argv[1:]
    if not a or a[0] not in ("run", "report"):
        print(__doc__)
        sys.exit(2)
    tier = "quick"
    if "--tier" in a:
        i = a.index("--tier")
        tier = a[i + 1]
        del a[i:i + 2]
    ids = a[1:] or ALL
    if a[0] == "run":
        run(ids, tier)
    report(ids)
