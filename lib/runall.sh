#!/bin/bash
# runall.sh <tier> <seed...> : every registered check, sequentially; prints one line per check/seed
tier=${1:-quick}; shift
seeds=${@:-1}
cd "$(dirname "$0")/.."
for s in $seeds; do
  for c in C01 C02 C03 C04 C05 C06 C07 C08 C09 C10 C11 C12 C13 C14 C15 C16 C17 C18 C19 C20; do
    t0=$(date +%s)
    out=$(VERIF_SEED=$s ./check $c --tier $tier 2>&1); rc=$?
    echo "seed=$s $c rc=$rc $(( $(date +%s) - t0 ))s :: $(echo "$out" | grep -E '^(OK|VIOLATION|HARNESS|KNOWN|  signature)' | head -4 | tr '\n' '|' | cut -c1-400)"
  done
done
