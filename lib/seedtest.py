#!/usr/bin/env python3
"""Validate a seeded change and run checks against it, in a scratch worktree
(never in /repo):  seedtest.py <patch> <checks,comma> [--demo run_demo.sh] [--tier quick]
Prints a JSON summary."""
import argparse
import json
import os
import shutil
import subprocess
import sys
import tempfile
import time

VERIF = os.path.dirname(os.path.dirname(os.path.abspath(__file__)))


def sh(cmd, cwd=None, env=None, timeout=3600):
    p = subprocess.run(cmd, cwd=cwd, env=env, stdout=subprocess.PIPE, stderr=subprocess.STDOUT, timeout=timeout)
    return p.returncode, p.stdout.decode(errors="replace")


def main():
    ap = argparse.ArgumentParser()
    ap.add_argument("patch")
    ap.add_argument("checks")
    ap.add_argument("--demo")
    ap.add_argument("--tier", default="quick")
    ap.add_argument("--skip-suite", action="store_true")
    ap.add_argument("--bundled", action="store_true", help="suite and demonstration use the -Dwith-openssl=disabled configuration "
                    "(the clean reference is then a scratch bundled build of /repo, removed afterwards)")
    a = ap.parse_args()
    res = {"patch": a.patch, "checks": {}}
    wt = tempfile.mkdtemp(prefix="zckv_seed_")
    os.rmdir(wt)
    try:
        rc, out = sh(["git", "-C", "/repo", "worktree", "add", "--detach", "-q", wt, "HEAD"])
        if rc:
            res["error"] = "worktree: " + out
            return res
        rc, out = sh(["git", "-C", wt, "apply", "--3way", os.path.abspath(a.patch)])
        if rc:
            rc, out = sh(["git", "-C", wt, "apply", os.path.abspath(a.patch)])
        res["applies"] = rc == 0
        if rc:
            res["error"] = "apply: " + out[-500:]
            return res
        if not a.skip_suite:
            opts = ["-Dwith-openssl=disabled"] if a.bundled else []
            rc, out = sh(["meson", "setup", "_b", "--wrap-mode=nodownload"] + opts, cwd=wt)
            rc2, out2 = sh(["ninja", "-C", "_b"], cwd=wt)
            res["compiles"] = rc == 0 and rc2 == 0
            if not res["compiles"]:
                res["error"] = (out + out2)[-800:]
                return res
            rc, out = sh(["meson", "test", "-C", "_b"], cwd=wt)
            ok = [l for l in out.splitlines() if l.startswith("Ok:")]
            fail = [l for l in out.splitlines() if l.startswith("Fail:")]
            res["suite"] = (ok[0].split()[-1] if ok else "?") + " ok / " + (fail[0].split()[-1] if fail else "?") + " fail"
            res["suite_passes"] = rc == 0
            if a.demo:
                rc, out = sh(["bash", os.path.abspath(a.demo), os.path.join(wt, "_b"), wt], cwd=os.path.dirname(os.path.abspath(a.demo)))
                res["demo_on_mutant_rc"] = rc
                res["demo_on_mutant_tail"] = out[-300:]
                clean = "/repo/_build"
                if a.bundled:
                    clean = tempfile.mkdtemp(prefix="zckv_cleanb_")
                    sh(["meson", "setup", clean, "/repo", "--wrap-mode=nodownload"] + opts)
                    sh(["ninja", "-C", clean])
                rc, out = sh(["bash", os.path.abspath(a.demo), clean, "/repo"], cwd=os.path.dirname(os.path.abspath(a.demo)))
                res["demo_on_clean_rc"] = rc
                if a.bundled:
                    shutil.rmtree(clean, ignore_errors=True)
            shutil.rmtree(os.path.join(wt, "_b"), ignore_errors=True)
        env = dict(os.environ)
        env["ZCK_REPO"] = wt
        scratch = tempfile.mkdtemp(prefix="zckv_seedev_")
        env["ZCKV_EVIDENCE_DIR"] = scratch
        env["ZCKV_REPLAY_DIR"] = os.path.join(scratch, "replays")
        for c in a.checks.split(","):
            t0 = time.time()
            rc, out = sh([os.path.join(VERIF, "check"), c, "--tier", a.tier], cwd=VERIF, env=env)
            lines = [l for l in out.splitlines() if l.startswith(("VIOLATION", "  signature", "OK ", "HARNESS", "KNOWN"))]
            res["checks"][c] = {"rc": rc, "wall_s": round(time.time() - t0), "lines": [l[:300] for l in lines[:6]]}
        shutil.rmtree(scratch, ignore_errors=True)
        return res
    finally:
        sh(["git", "-C", "/repo", "worktree", "remove", "--force", wt])
        shutil.rmtree(wt, ignore_errors=True)
        sh(["git", "-C", "/repo", "worktree", "prune"])


if __name__ == "__main__":
    r = main()
    print(json.dumps(r, indent=1))
