"""Workload generator support for C16: contents whose rolling-hash hits sit where chunking decisions are delicate.

NOT an oracle.  The chunking checks judge only what the property states (same content => same file whatever the
write-call sizes; locality; size bounds).  But on random content a hash hit is a 2^-15 event per byte, so the
situations in which an implementation detail of the boundary search matters - a refused hit just below the minimum
size, a second hit inside the 48-byte shadow of a refused one, a hit exactly at / around the maximum size, a hit in
the first or last bytes of a write call - practically never occur.  This module reads the buzhash table of the tree
under test and *constructs* such contents (two bytes are chosen so that a given 48-byte window hashes to a hit).
If the table cannot be read or the model below fails its calibration against the real library (c16.py checks it),
the dense family falls back to blocks harvested from the library's own output and says so in the evidence."""
import os
import re

WIDTH = 48
M32 = 0xffffffff


def rol(x, n):
    n %= 32
    return ((x << n) | (x >> (32 - n))) & M32 if n else x


def load_table(repo):
    try:
        src = open(os.path.join(repo, "src/lib/buzhash/buzhash.c"), errors="replace").read()
    except OSError:
        return None
    m = re.search(r"buzhash_table\s*\[[^\]]*\]\s*=\s*\{(.*?)\}\s*;", src, re.S)
    if not m:
        return None
    vals = [int(x, 16) for x in re.findall(r"0x[0-9a-fA-F]+", m.group(1))]
    return vals if len(vals) == 256 else None


class Model:
    """The boundary search as the pinned tree performs it (used to *aim* contents, never to judge)."""

    def __init__(self, table, bits=15):
        self.T = table
        self.mask = (1 << bits) - 1
        self.low = {}
        for b, v in enumerate(table):
            self.low.setdefault(v & self.mask, []).append(b)

    def whash(self, items):
        """hash of a full window given as 48 byte values, oldest first"""
        h = 0
        for k, b in enumerate(items):
            h ^= rol(self.T[b], WIDTH - 1 - k)
        return h

    def solve_last2(self, items46, r):
        """two byte values (a, b) such that the window items46 + [a, b] is a hit, or None"""
        base = 0
        for k, b in enumerate(items46):
            base ^= rol(self.T[b], WIDTH - 1 - k)
        order = list(range(256))
        r.shuffle(order)
        for a in order:
            ha = base ^ rol(self.T[a], 1)
            c = self.low.get(ha & self.mask)
            if c:
                return a, r.choice(c)
        return None

    def craft_hit(self, buf, p, r):
        """make the clean window ending at index p (inclusive) a hit by rewriting buf[p-1], buf[p] (and buf[p-2] if needed)"""
        if p < WIDTH - 1:
            return False
        for _ in range(40):
            s = self.solve_last2(list(buf[p - 47:p - 1]), r)
            if s:
                buf[p - 1], buf[p] = s
                return True
            buf[p - 2] = r.randrange(256)
        return False

    def craft_shadow_hit(self, buf, o, g, r, disturbed):
        """o: index of a (refused) hit byte; make the window ending at o+g (2 <= g <= 46) a hit
        - disturbed=False: as a clean 48-byte window (an implementation that re-feeds the refused byte does not see it)
        - disturbed=True : as the window the pinned tree sees after re-feeding byte o (a clean implementation does not)"""
        p = o + g
        for _ in range(40):
            if disturbed:
                items = list(buf[p - 46:o + 1]) + [buf[o]] + list(buf[o + 1:p - 1])
            else:
                items = list(buf[p - 47:p - 1])
            if len(items) != 46:
                return False
            s = self.solve_last2(items, r)
            if s:
                buf[p - 1], buf[p] = s
                return True
            if p - 2 <= o:
                return False
            buf[p - 2] = r.randrange(256)
        return False

    def chunks(self, X, amin, amax):
        """chunk end offsets the pinned tree's search would produce for content X written in one call (last chunk excluded)"""
        T, mask = self.T, self.mask
        ends = []
        start = 0
        n = len(X)
        win = []
        h = 0
        i = 0
        guard = 0
        while i < n:
            b = X[i]
            if len(win) < WIDTH:
                win.append(b)
                if len(win) < WIDTH:
                    h ^= rol(T[b], WIDTH - len(win))
                    out = 1
                else:
                    h ^= T[b]
                    out = h
            else:
                h = rol(h, 1) ^ rol(T[win[0]], WIDTH) ^ T[b]
                win.pop(0)
                win.append(b)
                out = h
            if (out & mask) == 0 or i - start >= amax:
                if i - start < amin:
                    guard += 1
                    if guard > 10000:
                        return ends
                    continue      # refused: the same byte is fed again
                ends.append(i)
                start = i
                win = []
                h = 0
                continue          # byte i starts the next chunk and is fed to the fresh hash
            guard = 0
            i += 1
        return ends

    def hit_free_filler(self, r):
        """a short period whose repetition contains no hit (clean windows; checked over two periods of alignment)"""
        for _ in range(200):
            per = bytes(r.randrange(256) for _ in range(r.choice([5, 7, 11, 13])))
            rep = per * (2 * WIDTH // len(per) + 4)
            if all((self.whash(list(rep[k:k + WIDTH])) & self.mask) != 0 for k in range(len(per) * 2)):
                return per
        return None


def fill(per, n, phase=0):
    reps = (n + phase) // len(per) + 2
    return (per * reps)[phase:phase + n]


def dense_content(model, r, layout, amin, amax, size):
    """Return (bytes, notes).  Layouts:
       'minedge'  per chunk: a refused hit `a` bytes below the minimum, optionally a second hit in its 48-byte shadow
                  (clean or disturbed flavour) landing at/after the minimum, then an accepting hit a little later
       'maxedge'  hit-free run with a hit at max-1 / max / max+1 / none (forced boundary), followed by a hit right after
       'tight'    hits every 48..400 bytes over the whole content (every boundary is preceded by refused hits)
       'mixed'    random filler with crafted hits sprinkled at random distances (natural hits occur as well)"""
    per = model.hit_free_filler(r)
    if per is None:
        return None, {"error": "no hit-free filler"}
    buf = bytearray()
    notes = {"layout": layout, "crafted": 0, "shadow_clean": 0, "shadow_disturbed": 0, "marks": []}

    def grow(n):
        buf.extend(fill(per, n, len(buf) % len(per)))

    if layout == "tight" or layout == "mixed":
        while len(buf) < size:
            gap = r.choice([48, 49, 50, 64, 100, 200, 400]) if layout == "tight" else r.choice([48, 60, 300, 2000, 9000, 30000])
            if layout == "mixed" and r.random() < 0.5:
                buf.extend(r.randbytes(gap))
            else:
                grow(gap)
            if model.craft_hit(buf, len(buf) - 1, r):
                notes["crafted"] += 1
                notes["marks"].append(len(buf) - 1)
        return bytes(buf[:size]), notes
    start = 0
    while len(buf) < size:
        if layout == "minedge":
            a = r.choice([1, 2, 3, 10, 24, 46, 47, 48, 49, 60])
            o = start + amin - a
            if o - 2 <= start or o < WIDTH:
                o = max(start + 3, WIDTH)
            grow(max(0, o + 1 - len(buf)))
            if model.craft_hit(buf, o, r):
                notes["crafted"] += 1
                notes["marks"].append(o)
            kind = r.choice(["none", "clean", "disturbed", "clean", "disturbed"])
            p = o
            if kind != "none":
                g = r.choice([2, 3, 5, 10, 24, 40, 45, 46])
                g = max(g, a) if r.random() < 0.8 else g      # mostly land at/after the minimum size
                g = min(max(g, 2), 46)
                grow(max(0, o + g + 1 - len(buf)))
                if model.craft_shadow_hit(buf, o, g, r, kind == "disturbed"):
                    notes["shadow_" + kind] += 1
                    p = o + g
                    notes["marks"].append(p)
            # an accepting hit well clear of every shadow, so that all implementations resynchronise
            t = p + r.choice([48, 49, 60, 100, 300])
            t = max(t, start + amin + 1)
            grow(max(0, t + 1 - len(buf)))
            if model.craft_hit(buf, t, r):
                notes["crafted"] += 1
                notes["marks"].append(t)
            start = t
        else:   # maxedge
            d = r.choice([-2, -1, 0, 1, 2, None, -48, 48])
            if d is None:
                grow(amax + 10)
                start = start + amax
                t = start + amin + r.choice([0, 1, 5])
            else:
                t = start + amax + d
            grow(max(0, t + 1 - len(buf)))
            if model.craft_hit(buf, t, r):
                notes["crafted"] += 1
                notes["marks"].append(t)
            start = t if (d is None or d <= 0) else start + amax
    return bytes(buf[:size]), notes
