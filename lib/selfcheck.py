#!/usr/bin/env python3
"""setup_cmd: nothing to build ahead of time (every check rebuilds from
/repo); verify the tool chain the checks need is present and the reference
decoder reproduces the suite's known file."""
import hashlib
import os
import shutil
import sys

sys.path.insert(0, os.path.dirname(os.path.abspath(__file__)))
import zckref

ok = True
for t in ("meson", "ninja", "gcc", "clang-14"):
    if not shutil.which(t):
        print("missing tool:", t)
        ok = False
repo = os.environ.get("ZCK_REPO", "/repo")
want = "394ed6c2fc4ac47e5ee111a46f2a35b8010a56c7747748216f52105e868d5a3e"
for fn in ("LICENSE.dict.fodt.zck", "LICENSE.nocomp.fodt.zck"):
    p = os.path.join(repo, "test/files", fn)
    if os.path.exists(p):
        v = zckref.decode(open(p, "rb").read())
        if not v.valid or hashlib.sha256(v.content).hexdigest() != want:
            print("reference decoder disagrees with", fn, v)
            ok = False
print("setup ok" if ok else "setup FAILED")
sys.exit(0 if ok else 1)
