#!/usr/bin/env python3
"""Loopback HTTP/1.1 server with Range support (single range and
multipart/byteranges), for driving the real zckdl binary offline.

    httpd_range.py <root> <logfile> [--max-ranges N] [--boundary STR]

Prints "PORT <n>" on stdout once listening.  Every request is appended to
<logfile> as one JSON line {path, range, status, nranges, bytes}.  A request
with more ranges than --max-ranges is answered 200 with the full body, as
real servers do.  Per-request behaviour can be selected with a query string
or a first path segment "~maxr=N;b=STR;q=1":
  maxr=N       override max ranges
  b=STR        boundary to use
  q=1          quote the boundary in the Content-Type header
"""
import argparse
import json
import os
import re
import socketserver
import sys
import threading
import urllib.parse
from http.server import BaseHTTPRequestHandler

LOCK = threading.Lock()


class H(BaseHTTPRequestHandler):
    protocol_version = "HTTP/1.1"
    root = "."
    logfile = None
    max_ranges = 256
    boundary = "3d6b6a416f9b5"

    def log_message(self, *a):
        pass

    def _log(self, **kw):
        with LOCK:
            with open(self.logfile, "a") as f:
                f.write(json.dumps(kw) + "\n")

    def do_GET(self):
        u = urllib.parse.urlsplit(self.path)
        q = dict(urllib.parse.parse_qsl(u.query))
        upath = urllib.parse.unquote(u.path)
        # options may also travel as a first path segment "~maxr=3;b=abc;q=1" (keeps basename(url) clean)
        mopt = re.match(r"^/~([^/]*)(/.*)$", upath)
        if mopt:
            for kv in mopt.group(1).split(";"):
                if "=" in kv:
                    k, v = kv.split("=", 1)
                    q[k] = v
            upath = mopt.group(2)
        rel = os.path.normpath(upath).lstrip("/")
        fn = os.path.join(self.root, rel)
        if not fn.startswith(self.root) or not os.path.isfile(fn):
            self.send_response(404)
            self.send_header("Content-Length", "0")
            self.end_headers()
            self._log(path=u.path, range=self.headers.get("Range"), status=404, nranges=0, bytes=0)
            return
        data = open(fn, "rb").read()
        rh = self.headers.get("Range")
        maxr = int(q.get("maxr", self.max_ranges))
        boundary = q.get("b", self.boundary)
        if q.get("fresh", "1") != "0":
            # real servers choose a new boundary for every response
            with LOCK:
                H.counter = getattr(H, "counter", 0) + 1
                boundary = "%s%04x" % (boundary, H.counter & 0xffff)
        ranges = None
        if rh:
            m = re.match(r"^bytes=(.*)$", rh.strip())
            if m:
                ranges = []
                for pc in m.group(1).split(","):
                    pc = pc.strip()
                    mm = re.match(r"^(\d+)-(\d*)$", pc)
                    if not mm:
                        ranges = None
                        break
                    a = int(mm.group(1))
                    b = int(mm.group(2)) if mm.group(2) else len(data) - 1
                    if a > b or a >= len(data):
                        ranges = "unsat"
                        break
                    ranges.append((a, min(b, len(data) - 1)))
        if ranges == "unsat":
            self.send_response(416)
            self.send_header("Content-Range", "bytes */%d" % len(data))
            self.send_header("Content-Length", "0")
            self.end_headers()
            self._log(path=u.path, range=rh, status=416, nranges=0, bytes=0)
            return
        if not ranges or len(ranges) > maxr:
            # log BEFORE answering: a client must not be able to finish before its request is on record
            self._log(path=u.path, range=rh, status=200, nranges=len(ranges or []), bytes=len(data))
            self.send_response(200)
            self.send_header("Content-Length", str(len(data)))
            self.send_header("Content-Type", "application/octet-stream")
            self.end_headers()
            try:
                self.wfile.write(data)
            except (BrokenPipeError, ConnectionResetError):
                pass
            return
        self._log(path=u.path, range=rh, status=206, nranges=len(ranges), bytes=sum(b - a + 1 for a, b in ranges), ranges=ranges)
        if len(ranges) == 1:
            a, b = ranges[0]
            body = data[a:b + 1]
            self.send_response(206)
            self.send_header("Content-Range", "bytes %d-%d/%d" % (a, b, len(data)))
            self.send_header("Content-Type", "application/octet-stream")
        else:
            body = bytearray()
            for a, b in ranges:
                body += b"\r\n--" + boundary.encode() + b"\r\n"
                body += b"Content-Type: application/octet-stream\r\n"
                body += b"Content-Range: bytes %d-%d/%d\r\n\r\n" % (a, b, len(data))
                body += data[a:b + 1]
            body += b"\r\n--" + boundary.encode() + b"--\r\n"
            self.send_response(206)
            bq = '"%s"' % boundary if q.get("q") else boundary
            self.send_header("Content-Type", "multipart/byteranges; boundary=" + bq)
        self.send_header("Content-Length", str(len(body)))
        self.end_headers()
        try:
            self.wfile.write(bytes(body))
        except (BrokenPipeError, ConnectionResetError):
            pass


class S(socketserver.ThreadingMixIn, socketserver.TCPServer):
    allow_reuse_address = True
    daemon_threads = True
    request_queue_size = 128

    def handle_error(self, request, client_address):
        pass  # clients that drop the connection (200 fallback refused) are expected


def main():
    ap = argparse.ArgumentParser()
    ap.add_argument("root")
    ap.add_argument("logfile")
    ap.add_argument("--max-ranges", type=int, default=256)
    ap.add_argument("--boundary", default="3d6b6a416f9b5")
    a = ap.parse_args()
    H.root = os.path.abspath(a.root)
    H.logfile = a.logfile
    H.max_ranges = a.max_ranges
    H.boundary = a.boundary
    srv = S(("127.0.0.1", 0), H)
    print("PORT %d" % srv.server_address[1], flush=True)
    try:
        srv.serve_forever()
    except KeyboardInterrupt:
        pass


if __name__ == "__main__":
    main()
