"""Hostile-but-sealed file generators shared by C03 (and replayed into other
oracles): every header field on a boundary grid, length fields pointing at /
before / past the end of their buffer, headers cut at every byte with the
declared header size following the cut, unterminated and over-long integers.
All of them carry a CORRECT header checksum (the reference writer re-seals),
so the parsers behind the gate are reached."""
import os
import sys

sys.path.insert(0, os.path.dirname(os.path.abspath(__file__)))
import zckref
from zckref import Raw, ci_encode, DIGEST_SIZE

GRID = [0, 1, 2, 127, 128, 255, 16383, 16384, (1 << 31) - 1, 1 << 31, (1 << 32) - 1, 1 << 32, (1 << 32) + 2, 1 << 62, (1 << 63) - 1, 1 << 63,
        (1 << 64) - 1]


def raw_ints(r):
    """Encodings that are not plain minimal integers."""
    return [
        Raw(b"\x00" * 9 + b"\x81"),               # 10 bytes, top bit -> 2^63
        Raw(b"\x7f" * 9 + b"\xff"),               # 10 bytes, overflows 64 bits
        Raw(b"\x00" * 10 + b"\x81"),              # 11 bytes
        Raw(b"\x01" * 15 + b"\x81"),              # 16 bytes
        Raw(b"\x05"),                             # unterminated (relies on what follows)
        Raw(b"\x7f\x7f\x7f"),                     # unterminated
        Raw(ci_encode(3, pad=6)),                 # non-minimal but legal
        Raw(b""),                                 # field missing entirely
    ]


def base_kw(r, body_chunks=3, comp_type=0, flags=0, ht=None, cht=None):
    ht = r.randrange(4) if ht is None else ht
    cht = r.choice([1, 2] if flags & 4 else [0, 1, 2, 3]) if cht is None else cht
    pieces = [r.randbytes(r.randrange(1, 120)) for _ in range(body_chunks)]
    dict_b = r.randbytes(r.choice([0, 0, 11]))
    stored = [dict_b] + pieces
    if comp_type == 2:
        stored = [zckref.zstd_compress(dict_b) if dict_b else b""] + [zckref.zstd_compress(p, dict_b) for p in pieces]
    cds = DIGEST_SIZE[cht]
    chunks = []
    for s, u in zip(stored, [dict_b] + pieces):
        chunks.append((zckref.H(cht, s) if s else bytes(cds), zckref.H(cht, u) if flags & 4 else None, len(s), len(u)))
    body = b"".join(stored)
    kw = dict(hash_type=ht, flags=flags, comp_type=comp_type, chunk_hash_type=cht, chunks=chunks, body=body)
    if flags & 2:
        kw["opt_elems"] = [(r.randrange(0, 5), r.randbytes(r.randrange(0, 9))) for _ in range(r.randrange(0, 3))]
    if flags & 4:
        kw["data_digest"] = bytes(DIGEST_SIZE[ht])
    return kw


def grid_cases(r, quick):
    """Yield (description, bytes)."""
    out = []
    fields = ["lead_hash_field", "header_size", "flags", "comp_type", "index_size", "chunk_hash_type", "count", "sig_count", "opt_count"]
    reps = 1 if quick else 4
    for rep in range(reps):
        for f in fields:
            vals = list(GRID) + raw_ints(r)
            for v in vals:
                flags = r.choice([0, 2, 4, 6]) if f != "opt_count" else r.choice([2, 6])
                kw = base_kw(r, r.randrange(1, 5), r.choice([0, 2]), flags)
                if f == "opt_count":
                    kw["opt_elems"] = kw.get("opt_elems") or []
                kw[f] = v
                if r.random() < 0.3:
                    kw["detached"] = True
                try:
                    out.append(("grid:%s=%s" % (f, v.hex() if isinstance(v, Raw) else v), zckref.build(**kw)))
                except Exception:
                    pass
        # per-chunk sizes on the grid
        for which in ("comp_len", "len"):
            for v in list(GRID) + raw_ints(r):
                kw = base_kw(r, r.randrange(1, 5), r.choice([0, 2]), r.choice([0, 4]))
                k = r.randrange(len(kw["chunks"]))
                d, u, cl, ln = kw["chunks"][k]
                kw["chunks"][k] = (d, u, v, ln) if which == "comp_len" else (d, u, cl, v)
                out.append(("grid:chunk%d.%s=%s" % (k, which, v.hex() if isinstance(v, Raw) else v), zckref.build(**kw)))
        # optional elements: id / size on the grid, size overrunning the header, count overrunning
        for v in list(GRID) + raw_ints(r):
            kw = base_kw(r, 2, 0, 2)
            kw["opt_elems"] = [(1, (v, r.randbytes(4)))]
            out.append(("grid:opt.size=%s" % (v.hex() if isinstance(v, Raw) else v), zckref.build(**kw)))
            kw = base_kw(r, 2, 0, 2)
            kw["opt_elems"] = [(v, b"abcd")]
            out.append(("grid:opt.id=%s" % (v.hex() if isinstance(v, Raw) else v), zckref.build(**kw)))
            kw = base_kw(r, 2, 0, 2)
            kw["opt_elems"] = [(1, b"ab")]
            kw["opt_count"] = v
            out.append(("grid:opt.count=%s" % (v.hex() if isinstance(v, Raw) else v), zckref.build(**kw)))
        # sizes congruent to -k mod 2^64: a cursor that adds them unchecked moves BACKWARDS, onto the same element again
        for k in list(range(1, 25)) + [32, 64, 100]:
            for cnt in (2, 1 << 20, 1 << 63, (1 << 64) - 1):
                kw = base_kw(r, 2, 0, 2)
                kw["opt_elems"] = [(1, ((1 << 64) - k, b""))]
                kw["opt_count"] = cnt
                out.append(("grid:opt.size=2^64-%d,count=%d" % (k, cnt), zckref.build(**kw)))
        # signatures
        for v in list(GRID) + raw_ints(r):
            kw = base_kw(r, 2, 0, 0)
            kw["sig_count"] = 1
            kw["sigs"] = [(0, (v, b"xyz"))]
            out.append(("grid:sig.size=%s" % (v.hex() if isinstance(v, Raw) else v), zckref.build(**kw)))
            kw = base_kw(r, 2, 0, 0)
            kw["sig_count"] = 2
            kw["sigs"] = [(v, b"xyz")]
            out.append(("grid:sig.type=%s" % (v.hex() if isinstance(v, Raw) else v), zckref.build(**kw)))
        # two and three signatures of which the first claims more bytes than the header has left (the walk over the section then
        # continues outside the header)
        for v in list(GRID) + [40, 300, 5000, 70000, 1 << 20]:
            for cnt in (2, 3):
                kw = base_kw(r, 2, 0, 0)
                kw["sig_count"] = cnt
                kw["sigs"] = [(0, (v, b"xyz")), (1, b"abc")] + ([(2, b"")] if cnt == 3 else [])
                out.append(("grid:sig.first-size=%s,count=%d" % (v.hex() if isinstance(v, Raw) else v, cnt), zckref.build(**kw)))
        # chunks "stored as they are" (all-zero chunk checksum, as the format document allows under the uncompressed-checksum flag) whose
        # declared uncompressed size is not their stored size
        for comp in (0, 2):
            for flags in (4, 0, 6):
                for grow in (0, 1, 4080, 1 << 20, 1 << 28):
                    kw = base_kw(r, 3, comp, flags)
                    k_ = r.randrange(1, len(kw["chunks"]))
                    d_, u_, cl_, ln_ = kw["chunks"][k_]
                    kw["chunks"][k_] = (bytes(len(d_)), u_, cl_, cl_ + grow)
                    out.append(("grid:stored-as-is:comp%d:flags%d:+%d" % (comp, flags, grow), zckref.build(**kw)))
        # ... and the well-formed variety of it: the stored bytes ARE the content and match the uncompressed checksum; only the declared size differs
        for flags in (4, 6):
            for grow in (0, 1, 4080, 1 << 20, 1 << 28):
                cht_ = r.choice([1, 2])
                pcs_ = [r.randbytes(r.randrange(8, 60)) for _ in range(3)]
                st_ = [b""] + [zckref.zstd_compress(x) for x in pcs_]
                ch_ = [(bytes(DIGEST_SIZE[cht_]), bytes(DIGEST_SIZE[cht_]), 0, 0)] + [(zckref.H(cht_, s_), zckref.H(cht_, x), len(s_), len(x)) for s_, x in zip(st_[1:], pcs_)]
                k_ = r.randrange(1, 4)
                st_[k_] = pcs_[k_ - 1]
                ch_[k_] = (bytes(DIGEST_SIZE[cht_]), zckref.H(cht_, pcs_[k_ - 1]), len(pcs_[k_ - 1]), len(pcs_[k_ - 1]) + grow)
                ht_ = r.randrange(4)
                kw = dict(hash_type=ht_, flags=flags, comp_type=2, chunk_hash_type=cht_, chunks=ch_, body=b"".join(st_), data_digest=bytes(DIGEST_SIZE[ht_]))
                if flags & 2:
                    kw["opt_elems"] = []
                try:
                    out.append(("grid:stored-chunk-matching-uncompressed-checksum:flags%d:+%d" % (flags, grow), zckref.build(**kw)))
                except Exception:
                    pass
        # hash types 0..5 in both places, flag 4 with short index
        for t in range(6):
            kw = base_kw(r, 2, 0, 0)
            kw["chunk_hash_type"] = t
            out.append(("grid:chunk_hash_type=%d" % t, zckref.build(**kw)))
        for cut in range(1, 70, 3):
            kw = base_kw(r, 2, 0, 4, cht=2)
            full = zckref.build(**kw)
            p = zckref.parse(full)
            # shrink the index so that it ends `cut` bytes early (inside some entry)
            kw["index_size"] = max(0, p.index_size - cut)
            out.append(("flag4-short-index:-%d" % cut, zckref.build(**kw)))
    return out


def cut_cases(r, quick):
    """Header cut at every byte, declared header size following the cut, re-sealed."""
    out = []
    variants = [(0, 0), (2, 2), (4, 0), (6, 2)] if not quick else [(6, 2), (0, 0)]
    for flags, comp in variants:
        kw = base_kw(r, 3, comp, flags)
        kw["sig_count"] = 1
        kw["sigs"] = [(0, b"sig")]
        full = zckref.build(**kw)
        p = zckref.parse(full)
        body = full[p.header_len:]
        for L in range(p.lead_len, p.header_len):
            hdr = full[p.lead_len:L]
            lead0 = ci_encode(p.hash_type) + ci_encode(len(hdr))
            h = zckref.hnew(p.hash_type)
            h.update(zckref.MAGIC_FULL + lead0 + hdr)
            img = zckref.MAGIC_FULL + lead0 + h.digest()[:DIGEST_SIZE[p.hash_type]] + hdr
            out.append(("cut:f%d:%d/%d" % (flags, L - p.lead_len, p.header_size), img + (body if r.random() < 0.5 else b"")))
            if r.random() < 0.2:
                out.append(("cut-detached:f%d:%d" % (flags, L - p.lead_len), zckref.MAGIC_HDR + img[5:]))
    return out


def length_edge_cases(r, quick):
    """index_size / header_size pointing exactly at, one before and one past the real end;
    structurally valid headers whose declared sizes are huge but representable."""
    out = []
    for sizes in ([1 << 62], [(1 << 62) - 1, 1 << 61], [1 << 61, 1 << 61, 1 << 60], [(1 << 63) // 100 + 1], [(1 << 63) - 4096]):
        for comp in (0, 2):
            for cht in range(4):   # every chunk checksum type: tools that compare two files insist on equal types
                cds = DIGEST_SIZE[cht]
                chunks = [(bytes(cds), None, 0, 0)] + [(r.randbytes(cds), None, s, s if comp == 0 else 7) for s in sizes]
                out.append(("edge:huge-valid-sizes:%s:h%d" % (",".join(str(s.bit_length()) for s in sizes), cht),
                            zckref.build(hash_type=1, flags=0, comp_type=comp, chunk_hash_type=cht, chunks=chunks, body=r.randbytes(300), data_digest=r.randbytes(32))))
    for flags in (0, 2, 4):
        kw = base_kw(r, 3, 0, flags)
        full = zckref.build(**kw)
        p = zckref.parse(full)
        for d in (-2, -1, 1, 2, 20):
            k2 = dict(kw)
            k2["index_size"] = p.index_size + d
            out.append(("edge:index_size%+d" % d, zckref.build(**k2)))
            k2 = dict(kw)
            k2["header_size"] = p.header_size + d
            out.append(("edge:header_size%+d" % d, zckref.build(**k2)))
            k2 = dict(kw)
            k2["header_tail"] = r.randbytes(abs(d))
            out.append(("edge:header_tail%d" % abs(d), zckref.build(**k2)))
    return out


def dict_cases(r, quick):
    """Well-formed, correctly sealed zstd files whose DICTIONARY is hostile: it decompresses to the zstd dictionary magic followed by
    bytes that are not a dictionary (the decompressor's dictionary loader then fails: an error path of its own), to an empty
    string, to one byte, or it is not a zstd frame at all."""
    out = []
    kinds = [("magic+garbage", b"\x37\xa4\x30\xec" + r.randbytes(200)), ("magic-only", b"\x37\xa4\x30\xec"), ("magic+zeros", b"\x37\xa4\x30\xec" + bytes(300)),
             ("one-byte", b"x"), ("magic+short", b"\x37\xa4\x30\xec\x01\x00\x00\x00" + r.randbytes(3))]
    for name, dict_b in kinds:
        for cht in ([1] if quick else [0, 1, 2, 3]):
            for flags in (0, 4):
                if flags & 4 and cht not in (1, 2):
                    continue
                pieces = [r.randbytes(r.randrange(1, 120)) for _ in range(r.randrange(1, 4))]
                stored = [zckref.zstd_compress(dict_b)] + [zckref.zstd_compress(p) for p in pieces]
                cds = DIGEST_SIZE[cht]
                chunks = [(zckref.H(cht, s), zckref.H(cht, u) if flags & 4 else None, len(s), len(u)) for s, u in zip(stored, [dict_b] + pieces)]
                kw = dict(hash_type=r.randrange(4), flags=flags, comp_type=2, chunk_hash_type=cht, chunks=chunks, body=b"".join(stored))
                if flags & 4:
                    kw["data_digest"] = zckref.H(kw["hash_type"], dict_b + b"".join(pieces)) if False else bytes(DIGEST_SIZE[kw["hash_type"]])
                out.append(("dict:%s:cht%d:f%d" % (name, cht, flags), zckref.build(**kw)))
    # a dictionary chunk that is not a zstd frame
    pieces = [r.randbytes(50)]
    stored = [r.randbytes(40)] + [zckref.zstd_compress(p) for p in pieces]
    chunks = [(zckref.H(1, s), None, len(s), n) for s, n in zip(stored, [100, 50])]
    out.append(("dict:not-a-frame", zckref.build(hash_type=1, flags=0, comp_type=2, chunk_hash_type=1, chunks=chunks, body=b"".join(stored))))
    return out
