"""Deterministic content / configuration generators shared by the checks."""
import hashlib
import os
import random

REPO = os.environ.get("ZCK_REPO", "/repo")
_lic = None


def license_text():
    global _lic
    if _lic is None:
        try:
            _lic = open(os.path.join(REPO, "test/files/LICENSE.fodt"), "rb").read()
        except Exception:
            _lic = (b"Lorem ipsum dolor sit amet, consectetur adipiscing elit. " * 20000)
    return _lic


def equal_size_piece(seed, dict_bytes=b"", level=3):
    """A piece whose zstd frame is exactly as long as the piece itself (stored size == uncompressed size although it IS compressed):
    a few hundred noise bytes followed by a run of zeros, the run length searched."""
    import zckref
    r = random.Random("eqsize/%s" % seed)
    for _ in range(200):
        noise = r.randbytes(r.randrange(40, 400))
        for zeros in range(1, 80):
            pc = noise + bytes(zeros)
            if len(zckref.zstd_compress(pc, dict_bytes, level)) == len(pc):
                return pc
    return None


def content(kind, size, seed=0):
    """kind: empty one const:<b> random text periodic:<p> license mixed zeros"""
    r = random.Random("content/%s/%s/%s" % (kind, size, seed))
    if kind == "empty" or size == 0:
        return b""
    if kind == "one":
        return bytes([r.randrange(256)])
    if kind.startswith("const:"):
        return bytes([int(kind[6:])]) * size
    if kind == "zeros":
        return bytes(size)
    if kind == "random":
        return r.randbytes(size)
    if kind == "text":
        words = [b"alpha", b"beta", b"gamma", b"delta", b"<text:p>", b"</text:p>", b"\n", b" ", b"zchunk", b"0123456789"]
        out = bytearray()
        while len(out) < size:
            out += r.choice(words)
        return bytes(out[:size])
    if kind.startswith("periodic:"):
        p = int(kind[9:])
        unit = r.randbytes(p)
        return (unit * (size // p + 1))[:size]
    if kind == "license":
        t = license_text()
        off = r.randrange(0, max(1, len(t) - size)) if size < len(t) else 0
        out = t[off:off + size]
        while len(out) < size:
            out += t[: size - len(out)]
        return out
    if kind == "mixed":
        out = bytearray()
        while len(out) < size:
            k = r.choice(["random", "text", "zeros", "license", "periodic:48", "periodic:7"])
            n = r.choice([1, 100, 5000, 40000, 140000])
            out += content(k, min(n, size - len(out)), r.random())
        return bytes(out[:size])
    raise ValueError(kind)


# option ids (include/zck.h.in)
HASH_FULL_TYPE, HASH_CHUNK_TYPE, VAL_HEADER_HASH_TYPE, VAL_HEADER_LENGTH, UNCOMP_HEADER, NO_WRITE = 0, 1, 2, 3, 4, 5
COMP_TYPE, MANUAL_CHUNK, CHUNK_MIN, CHUNK_MAX = 100, 101, 102, 103
ZSTD_COMP_LEVEL = 1000
VAL_HEADER_DIGEST, COMP_DICT = 0, 100


def writer_script(cfg, content_file="in.dat", out_file="out.zck", seg=None):
    """zh script writing content_file according to cfg:
       comp (0|2), level, dict (filename or None), manual (bool), cmin, cmax,
       chunk_hash, full_hash, uncomp (bool), closefd0 (bool)
       seg: list of tokens for writeseq (sizes and 'e')"""
    L = []
    if cfg.get("closefd0"):
        L.append("closefd 0")
    if cfg.get("preamble"):
        # the caller's own bytes precede the image: the file exists already and the descriptor is handed over behind them
        # (positioned there, or opened O_APPEND)
        L.append("fopen 0 %s %s output %d" % (out_file, "wa" if cfg.get("append") else "wo", cfg["preamble"]))
    else:
        L.append("fopen 0 %s w output" % out_file)
    L.append("create 0")
    L.append("init_write 0 0")
    if cfg.get("comp") is not None:
        L.append("iopt 0 %d %d" % (COMP_TYPE, cfg["comp"]))
    if cfg.get("level") is not None and cfg.get("comp", 2) == 2:
        L.append("iopt 0 %d %d" % (ZSTD_COMP_LEVEL, cfg["level"]))
    if cfg.get("full_hash") is not None:
        L.append("iopt 0 %d %d" % (HASH_FULL_TYPE, cfg["full_hash"]))
    if cfg.get("chunk_hash") is not None:
        L.append("iopt 0 %d %d" % (HASH_CHUNK_TYPE, cfg["chunk_hash"]))
    if cfg.get("uncomp"):
        L.append("iopt 0 %d 1" % UNCOMP_HEADER)
    if cfg.get("manual"):
        L.append("iopt 0 %d 1" % MANUAL_CHUNK)
    # the setter requires max >= current min and min <= current max: set max first
    if cfg.get("cmax") is not None:
        L.append("iopt 0 %d %d" % (CHUNK_MAX, cfg["cmax"]))
    if cfg.get("cmin") is not None:
        L.append("iopt 0 %d %d" % (CHUNK_MIN, cfg["cmin"]))
    if cfg.get("dict"):
        L.append("sopt 0 %d f:%s" % (COMP_DICT, cfg["dict"]))
    L.append("is_error 0")
    if cfg.get("companion"):
        # a second archive written side by side in the same thread: same kind of configuration, other content, fed between the calls
        cc = cfg["companion"]
        L += ["fopen 5 companion.zck w output2", "create 5", "init_write 5 5", "iopt 5 %d %d" % (COMP_TYPE, cc.get("comp", cfg.get("comp", 2)))]
        if cc.get("cmax") is not None:
            L.append("iopt 5 %d %d" % (CHUNK_MAX, cc["cmax"]))
        if cc.get("cmin") is not None:
            L.append("iopt 5 %d %d" % (CHUNK_MIN, cc["cmin"]))
        L.append("companion 5 f:%s %d" % (cc["file"], cc["piece"]))
    if cfg.get("late"):
        # options set again AFTER the first bytes were written (in the middle of the first chunk): a setter may refuse; if it accepts,
        # everything that follows is still bound by the properties
        first = min(cfg["late"]["first"], cfg["late"]["n"])
        L.append("write 0 f:%s:0:%d" % (content_file, first))
        for o_, v_ in cfg["late"]["opts"]:
            L.append("iopt 0 %d %d" % (o_, v_))
        L.append("is_error 0")
        if cfg["late"]["n"] > first:
            L.append("writeseq 0 f:%s:%d:%d %s" % (content_file, first, cfg["late"]["n"] - first, " ".join(str(x) for x in (seg or [1 << 30]))))
    else:
        L.append("writeseq 0 f:%s %s" % (content_file, " ".join(str(x) for x in (seg or [1 << 30]))))
    if cfg.get("companion"):
        L.append("companion_stat")
    for _ in range(cfg.get("extra_end", 0)):
        L.append("end_chunk 0")
    L.append("wstate 0")
    L.append("close 0")
    L.append("is_error 0")
    L.append("free 0")
    L.append("fclose 0")
    return "\n".join(L) + "\n"


def reader_script(path="out.zck", pre=(), sizes=(4096,), extra=0, cls="input", meta=False, mode="r", pins=None):
    """pins=(hash type, hex digest[, total header length]): open step by step with the header pinned to those values."""
    L = ["fopen 1 %s %s %s" % (path, mode, cls), "create 1"]
    if pins:
        L += ["init_adv_read 1 1", "iopt 1 %d %d" % (VAL_HEADER_HASH_TYPE, pins[0]), "sopt 1 %d s:%s" % (VAL_HEADER_DIGEST, pins[1])]
        if len(pins) > 2:
            L.append("iopt 1 %d %d" % (VAL_HEADER_LENGTH, pins[2]))
        L += ["read_lead 1", "read_header 1"]
    else:
        L.append("init_read 1 1")
    if meta:
        L.append("meta 1")
    for p in pre:
        L.append("%s 1" % p)
        L.append("flags 1")
    L.append("readall 1 %d %s" % (extra, " ".join(str(s) for s in sizes)))
    L.append("close 1")
    L.append("is_error 1")
    L.append("flags 1")
    L.append("free 1")
    return "\n".join(L) + "\n"


def sha(b):
    return hashlib.sha256(b).hexdigest()
