#!/usr/bin/env python3
"""Archive an independently seeded change after confirming it:
   seedimport.py <dir with patch.diff run_demo.sh notes.md ...> <id e.g. C20-3> <checks,comma> [--tier quick]
Copies the files to seeded/<id>/, runs lib/seedtest.py (scratch worktree: suite, demonstration on changed/clean
build, the named checks) and writes seeded/<id>/meta.json.  Prints the summary; exit 0 if the change is
confirmed (applies, compiles, suite passes, demo 1/0), whatever the checks said."""
import json
import os
import shutil
import subprocess
import sys

VERIF = os.path.dirname(os.path.dirname(os.path.abspath(__file__)))


def main():
    a = sys.argv[1:]
    tier = "quick"
    if "--tier" in a:
        i = a.index("--tier")
        tier = a[i + 1]
        del a[i:i + 2]
    bundled = "--bundled" in a
    if bundled:
        a.remove("--bundled")
    src, sid, checks = a[0], a[1], a[2]
    prop = sid.split("-")[0]
    dst = os.path.join(VERIF, "seeded", sid)
    if os.path.abspath(src) != dst:
        shutil.rmtree(dst, ignore_errors=True)
        shutil.copytree(src, dst, ignore=shutil.ignore_patterns("_b*", "*.o", "__pycache__"))
    demo = os.path.join(dst, "run_demo.sh")
    cmd = [sys.executable, os.path.join(VERIF, "lib", "seedtest.py"), os.path.join(dst, "patch.diff"), checks, "--tier", tier]
    oldmeta = None
    try:
        oldmeta = json.load(open(os.path.join(dst, "meta.json")))
    except Exception:
        pass
    oc = (oldmeta or {}).get("confirmed") or {}
    # ZCKV_SKIP_SUITE=1: the patch is unchanged and was confirmed before (applies, suite passes, demo 1/0): only the checks are run again
    skip = bool(os.environ.get("ZCKV_SKIP_SUITE")) and oc.get("suite_passes") and oc.get("demo_exit_on_changed_tree") == 1 and oc.get("demo_exit_on_clean_tree") == 0
    if skip:
        cmd += ["--skip-suite"]
    if os.path.exists(demo):
        cmd += ["--demo", demo]
    if bundled:
        cmd += ["--bundled"]
    p = subprocess.run(cmd, stdout=subprocess.PIPE, stderr=subprocess.STDOUT)
    txt = p.stdout.decode(errors="replace")
    try:
        res = json.loads(txt[txt.index("{"):])
    except Exception:
        print(txt)
        return 2
    chk = {}
    for c, r in res.get("checks", {}).items():
        sigs = [l.split("signature:")[1].split("  (")[0].strip() for l in r["lines"] if "signature:" in l]
        chk[c] = {"exit": r["rc"], "wall_s": r["wall_s"], "signatures": sigs}
    meta = {"id": sid, "property": prop,
            "origin": "independent sub-agent given only the property text and a scratch worktree",
            "files": sorted(f for f in os.listdir(dst) if f != "meta.json") + ["meta.json"],
            "needs_to_manifest": "see notes.md",
            "confirmed": ({"patch_applies_to_HEAD": res.get("applies"), "existing_suite_with_change": res.get("suite"),
                           "suite_passes": res.get("suite_passes"), "demo_exit_on_changed_tree": res.get("demo_on_mutant_rc"),
                           "demo_exit_on_clean_tree": res.get("demo_on_clean_rc")} if not skip else dict(oc, patch_applies_to_HEAD=res.get("applies"))),
            "ran": "lib/seedtest.py: scratch worktree of /repo HEAD + patch; meson/ninja build; meson test; run_demo.sh on the "
                   "changed build and on /repo/_build; ./check <id> --tier %s with ZCK_REPO=<worktree>" % tier,
            "checks": chk, "error": res.get("error"),
            "verif_commit": subprocess.run(["git", "-C", VERIF, "rev-parse", "--short", "HEAD"], stdout=subprocess.PIPE).stdout.decode().strip()}
    if bundled:
        meta["configuration"] = "-Dwith-openssl=disabled (suite and demonstration run in that configuration)"
    old = os.path.join(dst, "meta.json")
    if os.path.exists(old):
        try:
            o = json.load(open(old))
            meta["history"] = o.get("history", [])
            if o.get("checks") and o["checks"] != chk and not any(h.get("checks") == o["checks"] for h in meta["history"]):
                # an earlier measurement against an earlier version of the checks: keep it (what was missed, and when)
                meta["history"].append({"measured_at_verif_commit": o.get("verif_commit", "earlier"), "checks": o["checks"]})
            if not meta["history"]:
                del meta["history"]
        except Exception:
            pass
    with open(old, "w") as f:
        json.dump(meta, f, indent=1)
    print(json.dumps({"id": sid, "confirmed": meta["confirmed"], "checks": chk, "error": meta["error"],
                      "demo_tail": res.get("demo_on_mutant_tail")}, indent=1))
    c = meta["confirmed"]
    ok = c["patch_applies_to_HEAD"] and c["suite_passes"] and c["demo_exit_on_changed_tree"] == 1 and c["demo_exit_on_clean_tree"] == 0
    return 0 if ok else 1


if __name__ == "__main__":
    sys.exit(main())
