"""Build flavours of the tree under test and the C harnesses, in a private
scratch directory that is removed on exit.  Always builds from $ZCK_REPO
(default /repo), current working tree; nothing is cached between runs."""
import atexit
import fcntl
import json
import os
import shlex
import shutil
import signal
import subprocess
import sys
import tempfile
import time

VERIF = os.path.dirname(os.path.dirname(os.path.abspath(__file__)))
REPO = os.environ.get("ZCK_REPO", "/repo")
GUARD = "ZCK_VERIF"

SAN_COMMON = "-g -fno-omit-frame-pointer"
FLAVOURS = {
    # name: (CC, CFLAGS, LDFLAGS, meson extra)
    "asan": ("gcc", "-O1 %s -fsanitize=address,undefined -fno-sanitize-recover=all "
             "-fno-sanitize=nonnull-attribute -D%s" % (SAN_COMMON, GUARD),
             "-fsanitize=address,undefined", []),
    "plain": ("gcc", "-O2 -g -D%s" % GUARD, "", []),
    "tsan": ("gcc", "-O1 %s -fsanitize=thread -D%s" % (SAN_COMMON, GUARD), "-fsanitize=thread", []),
    "bundled": ("gcc", "-O2 -g -D%s" % GUARD, "", ["-Dwith-openssl=disabled"]),
    "bundled-asan": ("gcc", "-O1 %s -fsanitize=address,undefined -fno-sanitize-recover=all "
                     "-fno-sanitize=nonnull-attribute -D%s" % (SAN_COMMON, GUARD),
                     "-fsanitize=address,undefined", ["-Dwith-openssl=disabled"]),
    "bundled-tsan": ("gcc", "-O1 %s -fsanitize=thread -D%s" % (SAN_COMMON, GUARD), "-fsanitize=thread",
                     ["-Dwith-openssl=disabled"]),
    "fuzz": ("clang-14", "-O1 %s -fsanitize=fuzzer-no-link,address,undefined "
             "-fno-sanitize=nonnull-attribute,pointer-overflow -fno-sanitize-recover=all -D%s" % (SAN_COMMON, GUARD),
             "-fsanitize=fuzzer-no-link,address,undefined", []),
    "cov": ("gcc", "-O0 -g --coverage -D%s" % GUARD, "--coverage", []),
}

_scratch = None
COV_OUT = os.environ.get("ZCKV_COV_OUT")   # coverage audit (lib/covaudit.py): add gcov instrumentation to the gcc flavours


def flags(name):
    cc, cflags, ldflags, extra = FLAVOURS[name]
    if COV_OUT and cc == "gcc":
        cflags += " --coverage -fprofile-update=atomic"
        ldflags += " --coverage"
    return cc, cflags, ldflags, extra


def cov_collect(sc):
    """Audit mode only: fold the .gcda files of every flavour built in `sc` into one JSON
    {file: {"lines": {n: count}, "branches": {n: [counts]}, "fn": {n: function}}}, paths relative to the tree."""
    import glob
    merged = {}
    for bdir in sorted(glob.glob(os.path.join(sc, "b_*"))):
        gcda = [os.path.relpath(p_, bdir) for p_ in glob.glob(os.path.join(bdir, "src", "**", "*.gcda"), recursive=True)]
        if not gcda:
            continue
        p = subprocess.run(["gcov", "-b", "--json-format", "--stdout"] + gcda, cwd=bdir, stdout=subprocess.PIPE,
                           stderr=subprocess.DEVNULL)
        for line in p.stdout.decode(errors="replace").splitlines():
            try:
                doc = json.loads(line)
            except Exception:
                continue
            for f in doc.get("files", []):
                fn = os.path.normpath(os.path.join(bdir, f["file"])) if not os.path.isabs(f["file"]) else f["file"]
                fn = os.path.realpath(fn)
                root = os.path.realpath(REPO)
                if not fn.startswith(root + "/src/"):
                    continue
                rel = fn[len(root) + 1:]
                m = merged.setdefault(rel, {"lines": {}, "branches": {}, "fn": {}})
                for ln in f["lines"]:
                    k = str(ln["line_number"])
                    m["lines"][k] = m["lines"].get(k, 0) + ln["count"]
                    m["fn"][k] = ln.get("function_name", "")
                    if ln.get("branches"):
                        old = m["branches"].get(k)
                        cur = [b["count"] for b in ln["branches"]]
                        m["branches"][k] = [a + b for a, b in zip(old, cur)] if old and len(old) == len(cur) else cur
    os.makedirs(COV_OUT, exist_ok=True)
    tag = os.environ.get("ZCKV_COV_TAG", "run%d" % os.getpid())
    with open(os.path.join(COV_OUT, tag + ".json"), "w") as f:
        json.dump(merged, f)


def scratch():
    global _scratch
    if _scratch is None:
        base = os.environ.get("TMPDIR", "/tmp")
        _scratch = tempfile.mkdtemp(prefix="zckv.", dir=base)
        atexit.register(cleanup)
        for s in (signal.SIGTERM, signal.SIGINT, signal.SIGHUP):
            try:
                signal.signal(s, _sig)
            except Exception:
                pass
    return _scratch


def _sig(signum, frame):
    cleanup()
    os._exit(2)


def cleanup():
    global _scratch
    if _scratch and os.path.isdir(_scratch) and COV_OUT:
        try:
            cov_collect(_scratch)
        except Exception as e:   # audit aid only; never affects a verdict
            sys.stderr.write("coverage collection failed: %s\n" % e)
    if _scratch and os.path.isdir(_scratch) and not os.environ.get("ZCKV_KEEP"):
        shutil.rmtree(_scratch, ignore_errors=True)
    _scratch = None


class BuildError(Exception):
    pass


def _run(cmd, env=None, cwd=None, what=""):
    p = subprocess.run(cmd, env=env, cwd=cwd, stdout=subprocess.PIPE, stderr=subprocess.STDOUT)
    if p.returncode != 0:
        raise BuildError("%s failed (%d):\n%s" % (what or cmd[0], p.returncode, p.stdout.decode(errors="replace")[-6000:]))
    return p.stdout.decode(errors="replace")


class Flavour:
    def __init__(self, name, bdir):
        self.name = name
        self.dir = bdir
        self.cc, self.cflags, self.ldflags, _ = flags(name)
        self.lib = os.path.join(bdir, "src/lib/libzck.a")
        self.inc = [os.path.join(bdir, "include"), os.path.join(REPO, "src/lib"), os.path.join(REPO, "include"),
                    os.path.join(VERIF, "harness")]
        self.defs = []
        self.libs = []
        self._scan()

    def _scan(self):
        cc = os.path.join(self.dir, "compile_commands.json")
        try:
            for e in json.load(open(cc)):
                if e["file"].endswith("src/lib/zck.c") or e["file"].endswith("lib/zck.c"):
                    for tok in shlex.split(e["command"]):
                        if tok.startswith("-DZCHUNK") or tok.startswith("-DOLD_ZSTD"):
                            self.defs.append(tok)
                    break
        except Exception:
            pass
        self.libs = ["-lzstd"]
        if "-DZCHUNK_OPENSSL" in self.defs:
            self.libs += ["-lssl", "-lcrypto"]

    def tool(self, name):
        return os.path.join(self.dir, "src", name)

    def harness(self, out, sources, extra_cflags=(), extra_ld=(), wrap=()):
        """Compile a harness against this flavour's static libzck."""
        outp = os.path.join(self.dir, out)
        cmd = [self.cc] + shlex.split(self.cflags) + list(extra_cflags) + self.defs
        for i in self.inc:
            cmd += ["-I", i]
        cmd += [os.path.join(VERIF, "harness", s) for s in sources]
        cmd += ["-o", outp, self.lib] + self.libs + shlex.split(self.ldflags) + list(extra_ld)
        if wrap:
            cmd += ["-Wl," + ",".join("--wrap=" + w for w in wrap)]
        cmd += ["-lpthread", "-ldl"]
        _run(cmd, what="compile " + out)
        return outp


def build(names, tools=True):
    """Build the named flavours.  meson setup is serialised through a lock
    file (concurrent setups of the same source tree interfere); ninja runs in
    parallel afterwards.  Returns {name: Flavour}."""
    sc = scratch()
    t0 = time.time()
    lock = open(os.path.join(os.environ.get("TMPDIR", "/tmp"), "zckv.meson.lock"), "w")
    dirs = {}
    fcntl.flock(lock, fcntl.LOCK_EX)
    try:
        for n in names:
            cc, cflags, ldflags, extra = flags(n)
            bdir = os.path.join(sc, "b_" + n)
            env = dict(os.environ)
            env["CC"] = cc
            env["CFLAGS"] = cflags
            env["LDFLAGS"] = ldflags
            cmd = ["meson", "setup", bdir, REPO, "--wrap-mode=nodownload", "-Dtests=false", "-Ddocs=false",
                   "-Ddefault_library=static", "-Db_lundef=false", "-Dbuildtype=plain"] + extra
            _run(cmd, env=env, what="meson setup " + n)
            dirs[n] = bdir
    finally:
        fcntl.flock(lock, fcntl.LOCK_UN)
        lock.close()
    procs = []
    for n, bdir in dirs.items():
        tgt = [] if tools else ["src/lib/libzck.a"]
        procs.append((n, subprocess.Popen(["ninja", "-C", bdir] + tgt, stdout=subprocess.PIPE, stderr=subprocess.STDOUT)))
    for n, p in procs:
        out, _ = p.communicate()
        if p.returncode != 0:
            raise BuildError("ninja %s failed:\n%s" % (n, out.decode(errors="replace")[-6000:]))
    res = {n: Flavour(n, d) for n, d in dirs.items()}
    res["_build_s"] = time.time() - t0
    return res


WRAP_SYMS = ["read", "write", "lseek", "ftruncate", "mkstemp", "close", "pread", "pwrite", "readv", "writev",
             "lseek64", "pread64", "pwrite64", "mkstemp64", "ftruncate64", "__read_chk", "sendfile", "sendfile64", "copy_file_range", "splice"]


def zh(fl):
    """The general op interpreter, linked with the I/O interposer."""
    return fl.harness("zh", ["zh.c", "wrap_io.c"], wrap=WRAP_SYMS)


if __name__ == "__main__":
    os.environ["ZCKV_KEEP"] = "1"
    f = build(sys.argv[1:] or ["asan"])
    print(f)
