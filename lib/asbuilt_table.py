#!/usr/bin/env python3
"""Rewrites the 'as built' table of DESIGN.md section 5: the descriptive columns are kept here, evaluations and wall time
come from the committed quick-tier evidence files."""
import json
import os
import re

HERE = os.path.dirname(os.path.dirname(os.path.abspath(__file__)))
ROWS = {
 "C01": ("zh writer/reader scripts (ASan; CPU overruns confirmed on the plain build); zck+unzck (ASan)",
         "library cases (content x options x segmentation x read sizes) incl. minimum-without-maximum configurations with > 10 MiB chunks and images written behind a preamble (positioned descriptor / O_APPEND); CLI cases incl. split strings straddling every offset of a 32 KiB read block, procfs inputs (size 0 with content), unzck over an existing longer / shorter output file"),
 "C02": ("zh reader (plain, pinned, and after validation calls), unzck (ASan)",
         "mutated files: raw + re-sealed structural (incl. chunk body altered with only the data checksum recomputed; chunks swapped with the data checksum left stale) + NUL-prefixed-checksum substitutions + the same alterations under the detached-header identifier; unaltered files too; base files incl. another writer's layouts (unused header bytes, optional elements, first entry storing the frame of nothing) and zstd frame styles (no content size, several frames per chunk, frame as long as its content); unzck over an existing output file"),
 "C03": ("zh API programs (7 fixed + 2 random per input, init_read / init_adv_read), 13 tool invocations, memcheck sample on the plain build, fz_file (libFuzzer, clang ASan+UBSan; a quarter of the jobs with DEBUG logging)",
         "hostile inputs (boundary grid, cut headers, length edges, hostile dictionaries, 20 000-chunk index, C13 headers, mutants of valid files) x programs + tool runs + 16 x 100 000 fuzz executions"),
 "C04": ("zh `update` op; real zckdl (ASan) against lib/httpd_range.py on 127.0.0.1",
         "in-process scenarios (incl. stored sizes at multiples of 32 KiB, deliveries > 1 MiB, 3 500 separate ranges in one request, HTTP/2 status line, earlier redirect / proxy header blocks, blanks in boundaries, a third with chained application callbacks) + real zckdl runs"),
 "C05": ("zh `sweep` op (in-process, distinct-outcome accounting) + write watch; a third of the runs with the application's own callbacks chained behind the library's",
         "callback runs: all 1-/2-cut fragmentations of small responses, all 2^n subsets of one file, random k-cuts of larger ones, interrupted-then-retried transfers; files with byte-identical and one-byte chunks; 33-40 KB header fields (coarse fragmentations); HTTP/2 status line, earlier header blocks, blanks in boundaries"),
 "C06": ("h_hdrmut (in-process, memfd) on the OpenSSL and the bundled-SHA build; six ways of opening (fifth: every failing step followed by zck_clear_error and repeated; sixth: writer-side options set on the reading context first); images also behind a pristine copy / through a pipe",
         "opens: every header byte x 255 values of the sample files through zck_init_read, lead (first samples: whole header) through the other ways; patched images through all; padded headers with a checksum 'until the signatures'; bundled build with hashed header lengths swept across the SHA block sizes"),
 "C07": ("h_hdrmut", "pin cases: every digest-string position x 256 byte values for all 4 types, lengths, cancelling-difference digests, refused re-pins, pins changed / the file rewritten in place between zck_validate_lead and the open, type pins beyond int, leads whose size wraps 2^64, type/length grids, orders, cross-file, pipe / FIFO / socket / offset presentations"),
 "C08": ("zh copy/match scripts + write watch + poke + setfd", "scenarios incl. validated-then-damaged sources, match-then-copy, re-opened descriptor between two-part copies, crafted index pairs, target on descriptor 2, zero-block chunks over stale bytes, first entry storing the frame of nothing, old file cut inside a chunk"),
 "C09": ("zh validation scripts, io log; zck_read_header -f / -c -f, unzck -c", "on-disk states x validation words; sparse files; empty mid-index chunks; repeated chunks (one occurrence damaged); another writer's layouts (unused header bytes, optional elements, first entry storing the frame of nothing); stale index checksums; validation through a pipe"),
 "C10": ("zh range scripts (batched)", "requests: all 2^n markings of small indexes (incl. empty chunks) x 8 limits, multi-step sequences (late length hint, copy with damaged source), all 16 buffer-crossing alignments, 24 huge-offset layouts (10-digit offsets, 40-100 KB of text), valid gaps of exactly k x 4 GiB, padded headers"),
 "C11": ("zh `update` + kill faults in wrap_io; real zckdl under preload_io.so", "kill points (every target write x 4 transfer sizes) + double kills + restarts with a different source; zero-content chunks; new versions that list the same chunk several times (old version supplies the tail); real-tool kills"),
 "C12": ("zh + wrap_io faults (incl. sendfile family); tools under preload_io.so and `strace -P <path> -e inject=`", "fault points over the scenarios (single faults of every kind, double short transfers, short-then-error, write-retry, copy-retry and read-retry callers, step-by-step opens, chained updates, runs of identical chunks, content with whole zero blocks)"),
 "C13": ("zh `meta` dump + zck_get_chunk lookups in non-ascending orders, zck_read_header", "reference-writer headers incl. type values equal to a known type modulo 2^8 / 2^16, overflowing ten-byte lead fields, writer-side options set on the reading context, optional-element overruns / rewinds, unused header bytes, images behind another image"),
 "C14": ("zh chunkdata/chunkcomp sequences (optionally with the harness moving the shared offset); unzck --dict (file and detached header), zck_gen_zdict", "request sequences (buffers exactly / larger / smaller than the chunk, as requests and as history) + tool runs on every base file (incl. foreign zstd frame styles); two files with chunks beyond 10 MiB"),
 "C15": ("zh reader (plain, clear-error-and-continue, validate-then-tamper, chunk requested by number; CPU overruns confirmed on the plain build)", "corrupted reads incl. chunks of 0.3-4.6 MB (stored > 4 MiB) runs of identical chunks, chunks of several frames / without content size"),
 "C16": ("zh writer with generated segmentations; contents with crafted rolling-hash hits (lib/buz.py); writer under taskset; the zck tool (file, FIFO with controlled read() sizes, shifted contents)",
         "generic + hit-dense contents x 5-9 segmentations + edits; minimum == maximum configurations; a second archive written in the same thread between the calls; CPU-affinity pairs; tool contents x ~8 runs"),
 "C17": ("zh hdrline/body scripts + write watch; fz_dl (libFuzzer with in-target confinement monitor)", "structured hostile responses x sequences (clear / reset / again / retry), a third at DEBUG log level, some with the target on descriptor 2, chained application callbacks, a second transfer freed between two header lines, printf conversions in server text, deliveries while no range is set, > 1 MiB part headers; 16 x 15 000 fuzz executions"),
 "C18": ("h_hash on OpenSSL-ASan and bundled-ASan builds; zh of both builds", "digests x 2 builds (all lengths 0..520 x segmentations, random long, 2^29+k bytes, one update > 256 MiB) + cross-build files; a third also with a dirty OpenSSL error queue / non-zero errno left by the application; checksum options set again mid-chunk"),
 "C19": ("h_mt on tsan and bundled-tsan builds; two scenario blocks + failing writer; half the runs with a process-wide log callback; contexts opened by the main thread and read by workers", "parallel runs (2-16 threads) each paired with a serial run"),
 "C20": ("h_compint (guard page + ASan)", "decodes: all strings of length <= 3 at every cursor/limit, long strings, round trips, the same at DDEBUG level, cursors / room beyond 4 GiB, cursor past the limit (thorough: all 2^32 strings of length 4)"),
}
rows = ["| id | harness / monitors as built | quick tier covers | evaluations | quick wall |", "|---|---|---|---|---|"]
for k in sorted(ROWS):
    try:
        e = json.load(open(os.path.join(HERE, "evidence", k + ".json")))
        ev, wall = "%d" % e["coverage"]["evaluations"], "%.0f s" % e["wall_s"]
    except Exception:
        ev, wall = "?", "?"
    rows.append("| %s | %s | %s | %s | %s |" % (k, ROWS[k][0], ROWS[k][1], ev, wall))
p = os.path.join(HERE, "DESIGN.md")
s = open(p).read()
m = re.search(r"\| id \| harness / monitors as built \|.*?\n(\| C\d\d \|.*?\n)+", s, re.S)
s = s[:m.start()] + "\n".join(rows) + "\n" + s[m.end():]
open(p, "w").write(s)
print("table rewritten (%d rows)" % (len(rows) - 2))
